#!/bin/sh
# Offline setup: builds the optional arena shim and runs the framework self-test.
cd "$(dirname "$0")" || exit 2
mkdir -p build evidence replays
gcc -O2 -shared -fPIC -o build/arena.so native/arena.c || echo "arena shim not built (checks still work, slower)"
exec ./check --selftest
