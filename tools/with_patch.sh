#!/bin/sh
# usage: tools/with_patch.sh <patch.diff> <command...>
# Applies a patch to a scratch copy of /repo (outside /repo and /verif), runs the
# command with VERIF_REPO pointing at the copy, removes the copy.  /repo is never touched.
set -u
PATCH=$(readlink -f "$1"); shift
D=$(mktemp -d /tmp/vrepo.XXXXXX)
trap 'rm -rf "$D"' EXIT
rsync -a --exclude .git --exclude '__pycache__' --exclude 'tests/files' /repo/ "$D/repo/"
( cd "$D/repo" && patch -p1 -s < "$PATCH" ) || { echo "patch failed"; exit 3; }
VERIF_REPO="$D/repo" "$@"
rc=$?
exit $rc
