#!/venv/bin/python
"""Development aid: per-unit wall time of a check's work units (tools/unit_times.py C01 quick [jobs])."""
import sys, os, time, importlib, collections
sys.path.insert(0, os.path.dirname(os.path.dirname(os.path.abspath(__file__))))
import multiprocessing as mp

def run(args):
    modname, i = args
    mod = importlib.import_module(modname)
    u = UNITS[i]
    t = time.time()
    r = mod.work(u)
    return i, time.time() - t, r.stats.get('evaluations', 0), len(r.failures)

if __name__ == '__main__':
    pid, tier = sys.argv[1], sys.argv[2]
    jobs = int(sys.argv[3]) if len(sys.argv) > 3 else 8
    modname = 'mc.props.' + pid.lower()
    mod = importlib.import_module(modname)
    if hasattr(mod, 'setup'):
        mod.setup(tier)
    UNITS = list(mod.units(tier))
    ctx = mp.get_context('fork')
    t0 = time.time()
    with ctx.Pool(jobs) as pool:
        res = pool.map(run, [(modname, i) for i in range(len(UNITS))], 1)
    by = collections.defaultdict(lambda: [0, 0.0, 0, 0])
    for i, dt, ev, nf in res:
        lab = getattr(UNITS[i], 'label', str(UNITS[i])[:40])
        k = '/'.join(str(lab).split('/')[:2])
        by[k][0] += 1; by[k][1] += dt; by[k][2] += ev; by[k][3] += nf
    print('wall %.1fs, cpu-sum %.1fs' % (time.time() - t0, sum(r[1] for r in res)))
    for k, (n, dt, ev, nf) in sorted(by.items(), key=lambda kv: -kv[1][1]):
        print('%-28s units=%3d time=%8.1fs evals=%9d failures=%6d' % (k, n, dt, ev, nf))
    top = sorted(res, key=lambda r: -r[1])[:8]
    for i, dt, ev, nf in top:
        print('  slowest: %-30s %.1fs evals=%d failures=%d' % (getattr(UNITS[i], 'label', i), dt, ev, nf))
