#!/venv/bin/python
"""Confirm a proposed seeded change and file it under /verif/seeded/<id>/.

  tools/confirm_seed.py <source dir with patch.diff, demo.py[, notes.txt]> <id> <property> [--jobs N]

Steps (all in a scratch git worktree of /repo under /tmp, removed afterwards):
  1. demo.py on the unchanged tree must exit 0;
  2. the patch must apply; demo.py must then exit non-zero;
  3. the repository's test suite with the patch must give exactly the baseline
     (the 486 stable tests pass, only the 7 always-failing tests fail).
Only then is seeded/<id>/ written (patch.diff, demo.py, notes.txt, meta.json).
"""
import json
import os
import re
import shutil
import subprocess
import sys

VERIF = os.path.dirname(os.path.dirname(os.path.abspath(__file__)))
BASE = json.load(open('/root/.vp/BASELINE.json'))
ALWAYS_FAIL = set(BASE['always_fail'])


def sh(cmd, **kw):
    return subprocess.run(cmd, stdout=subprocess.PIPE, stderr=subprocess.STDOUT, text=True, **kw)


def main(argv):
    jobs = '8'
    if '--jobs' in argv:
        i = argv.index('--jobs')
        jobs = argv[i + 1]
        del argv[i:i + 2]
    src, sid, prop = argv[0], argv[1], argv[2]
    wt = '/tmp/confirm_' + sid
    sh(['git', '-C', '/repo', 'worktree', 'remove', '--force', wt])
    r = sh(['git', '-C', '/repo', 'worktree', 'add', '--detach', wt, 'HEAD'])
    if r.returncode:
        print(r.stdout)
        return 2
    try:
        env = dict(os.environ, PYTHONPATH=wt, PYTHONHASHSEED='0', PYTHONDONTWRITEBYTECODE='1')
        demo = os.path.join(src, 'demo.py')
        d0 = sh(['/venv/bin/python', demo], env=env, cwd=src, timeout=900)
        if d0.returncode != 0:
            print('%s: REJECTED demo fails on the unchanged tree (exit %d)\n%s' % (sid, d0.returncode, d0.stdout[-600:]))
            return 1
        a = sh(['git', '-C', wt, 'apply', os.path.join(os.path.abspath(src), 'patch.diff')])
        if a.returncode:
            print('%s: REJECTED patch does not apply\n%s' % (sid, a.stdout[-600:]))
            return 1
        try:
            d1 = sh(['/venv/bin/python', demo], env=env, cwd=src, timeout=900)
            d1rc, d1out = d1.returncode, d1.stdout
        except subprocess.TimeoutExpired:
            d1rc, d1out = 'timeout', '(demo did not finish in 900 s with the change applied)'
        if d1rc == 0:
            print('%s: REJECTED demo still passes with the change' % sid)
            return 1
        junit = '/tmp/confirm_%s.xml' % sid
        t = sh(['/venv/bin/python', '-m', 'pytest', '-q', '-p', 'no:cacheprovider', '-n', jobs, '--timeout=900',
                '--junitxml=' + junit], cwd=wt, env=dict(os.environ, PYTHONDONTWRITEBYTECODE='1'), timeout=3000)
        tail = t.stdout.strip().splitlines()[-1] if t.stdout.strip() else ''
        import xml.etree.ElementTree as ET
        failed, passed = set(), set()
        for tc in ET.parse(junit).getroot().iter('testcase'):
            name = '%s::%s' % (tc.get('classname'), tc.get('name'))
            name = re.sub(r'^(tests\.\w+)\.(\w+)::', r'\1.\2::', name)
            if any(ch.tag in ('failure', 'error') for ch in tc):
                failed.add(name)
            elif not any(ch.tag == 'skipped' for ch in tc):
                passed.add(name)
        os.unlink(junit)
        stable = set(BASE['stable_pass'])
        broken = sorted(stable - passed)
        if broken:
            print('%s: REJECTED the change breaks %d baseline tests, e.g. %s' % (sid, len(broken), broken[:3]))
            return 1
        files = sh(['git', '-C', wt, 'diff', '--stat']).stdout.strip().splitlines()
    finally:
        sh(['git', '-C', '/repo', 'worktree', 'remove', '--force', wt])
    dst = os.path.join(VERIF, 'seeded', sid)
    os.makedirs(dst, exist_ok=True)
    for fn in ('patch.diff', 'demo.py', 'notes.txt'):
        if os.path.exists(os.path.join(src, fn)):
            shutil.copy(os.path.join(src, fn), os.path.join(dst, fn))
    notes = open(os.path.join(dst, 'notes.txt')).read() if os.path.exists(os.path.join(dst, 'notes.txt')) else ''
    meta = {
        'id': sid, 'property': prop, 'checks': [prop],
        'origin': 'independent sub-agent given only the property text and a scratch worktree of /repo',
        'what': notes.strip().splitlines()[0][:300] if notes.strip() else '',
        'needs_to_manifest': notes.strip()[:1500],
        'confirmed': {
            'demo_exit_unchanged_tree': 0, 'demo_exit_with_change': d1rc,
            'demo_output_with_change_tail': d1out.strip()[-400:],
            'test_suite_with_change': tail, 'stable_tests_passing': len(stable & passed),
            'failing_tests': sorted(failed), 'only_always_failing_tests_fail': failed <= ALWAYS_FAIL,
            'files_changed': files,
            'how': 'tools/confirm_seed.py: scratch worktree of /repo HEAD, demo on unchanged tree (exit 0), git apply, '
                   'demo again (non-zero), pytest -n %s over the whole suite compared with /root/.vp/BASELINE.json' % jobs,
        },
    }
    with open(os.path.join(dst, 'meta.json'), 'w') as f:
        json.dump(meta, f, indent=1)
    print('%s: CONFIRMED (%s; demo exit %s)' % (sid, tail, d1rc))
    return 0


if __name__ == '__main__':
    sys.exit(main(sys.argv[1:]))
