#!/venv/bin/python
"""Run registered checks against seeded property-breaking changes.

  tools/seeded.py list
  tools/seeded.py run <id>... | all   [--tier quick] [--jobs N] [--checks C01,C05]
  tools/seeded.py mutants <file.json> [<mutant id>...]   (old/new replacement catalogue in mutants/)

Each seeded change lives in seeded/<id>/ (patch.diff, demo.py, meta.json).  The patch is
applied to a scratch copy of /repo outside /repo and /verif (VERIF_REPO points the checks at
it), the demo is run first (it must fail on the copy), then every check named in
meta.json["checks"]; results go to seeded/<id>/result.json.  /repo is never touched and the
evidence files are not rewritten (the runner only writes them for VERIF_REPO=/repo).
"""
import json
import os
import shutil
import subprocess
import sys
import tempfile
import time

VERIF = os.path.dirname(os.path.dirname(os.path.abspath(__file__)))
SEEDED = os.path.join(VERIF, 'seeded')


def scratch_copy():
    d = tempfile.mkdtemp(prefix='vrepo.', dir='/tmp')
    dst = os.path.join(d, 'repo')
    subprocess.check_call(['rsync', '-a', '--exclude', '.git', '--exclude', '__pycache__', '/repo/', dst + '/'])
    return d, dst


def run_check(pid, repo, tier, jobs):
    env = dict(os.environ, VERIF_REPO=repo, PYTHONHASHSEED='0')
    if jobs:
        env['VERIF_JOBS'] = str(jobs)
    t0 = time.time()
    p = subprocess.run([os.path.join(VERIF, 'check'), pid, '--tier', tier], cwd=VERIF, env=env,
                       stdout=subprocess.PIPE, stderr=subprocess.PIPE, text=True)
    viol = [l for l in p.stdout.splitlines() if l.startswith('VIOLATION')]
    kinds = [l.strip() for l in p.stderr.splitlines() if l.startswith('  kind=')]
    return {'check': pid, 'tier': tier, 'exit': p.returncode, 'violations': len(viol),
            'first': (kinds[:3] or viol[:1]), 'wall_s': round(time.time() - t0, 1),
            'stderr_tail': p.stderr.strip().splitlines()[-1:] if p.returncode not in (0, 1) else []}


def run_demo(sdir, repo):
    demo = os.path.join(sdir, 'demo.py')
    if not os.path.exists(demo):
        return None
    env = dict(os.environ, PYTHONPATH=repo, PYTHONHASHSEED='0')
    try:
        p = subprocess.run(['/venv/bin/python', demo], cwd=sdir, env=env, stdout=subprocess.PIPE,
                           stderr=subprocess.STDOUT, text=True, timeout=600)
        return p.returncode
    except subprocess.TimeoutExpired:
        return 'timeout'


def do_seed(sid, tier, jobs, only):
    sdir = os.path.join(SEEDED, sid)
    meta = json.load(open(os.path.join(sdir, 'meta.json')))
    checks = only or meta.get('checks') or [meta['property']]
    d, repo = scratch_copy()
    try:
        demo_clean = run_demo(sdir, repo)
        r = subprocess.run(['git', 'apply', '--unsafe-paths', '--directory', repo, os.path.join(sdir, 'patch.diff')],
                           cwd='/', stderr=subprocess.PIPE, text=True)
        if r.returncode != 0:
            r = subprocess.run(['patch', '-p1', '-s', '-i', os.path.join(sdir, 'patch.diff')], cwd=repo,
                               stderr=subprocess.PIPE, stdout=subprocess.PIPE, text=True)
            if r.returncode != 0:
                print('%s: patch does not apply: %s' % (sid, (r.stderr or r.stdout)[:300]))
                return None
        demo_patched = run_demo(sdir, repo)
        results = [run_check(c, repo, tier, jobs) for c in checks]
    finally:
        shutil.rmtree(d, ignore_errors=True)
    out = {'id': sid, 'property': meta['property'], 'demo_exit_clean': demo_clean, 'demo_exit_patched': demo_patched,
           'results': results, 'caught_by': [x['check'] for x in results if x['exit'] == 1 and x['violations']]}
    if not only:
        with open(os.path.join(sdir, 'result.json'), 'w') as f:
            json.dump(out, f, indent=1)
    print('%s: demo clean=%s patched=%s; %s' % (sid, demo_clean, demo_patched, '; '.join(
        '%s exit=%d viol=%d %.0fs %s' % (x['check'], x['exit'], x['violations'], x['wall_s'], x['first'][:1])
        for x in results)))
    sys.stdout.flush()
    return out


def do_mutant(m, tier, jobs, only):
    d, repo = scratch_copy()
    try:
        path = os.path.join(repo, m['file'])
        src = open(path).read()
        if src.count(m['old']) != 1:
            print('%s: old text occurs %d times in %s' % (m['id'], src.count(m['old']), m['file']))
            return None
        open(path, 'w').write(src.replace(m['old'], m['new']))
        results = [run_check(c, repo, tier, jobs) for c in (only or m['expected_to_fail'])]
    finally:
        shutil.rmtree(d, ignore_errors=True)
    print('%s: %s' % (m['id'], '; '.join('%s exit=%d viol=%d %.0fs %s' % (x['check'], x['exit'], x['violations'],
                                                                          x['wall_s'], x['first'][:1]) for x in results)))
    sys.stdout.flush()
    return {'id': m['id'], 'results': results}


def main(argv):
    tier, jobs, only = 'quick', None, None
    args = []
    it = iter(argv)
    for a in it:
        if a == '--tier':
            tier = next(it)
        elif a == '--jobs':
            jobs = int(next(it))
        elif a == '--checks':
            only = next(it).split(',')
        else:
            args.append(a)
    if not args or args[0] == 'list':
        for sid in sorted(os.listdir(SEEDED)):
            mp = os.path.join(SEEDED, sid, 'meta.json')
            if os.path.exists(mp):
                meta = json.load(open(mp))
                rp = os.path.join(SEEDED, sid, 'result.json')
                caught = json.load(open(rp)).get('caught_by') if os.path.exists(rp) else '?'
                print('%-10s %s caught_by=%s  %s' % (sid, meta['property'], caught, meta.get('what', '')[:100]))
        return 0
    if args[0] == 'table':
        rows = ['| id | property | what the change is / what it needs to manifest | caught by (quick tier) |', '|---|---|---|---|']
        for sid in sorted(os.listdir(SEEDED)):
            mp = os.path.join(SEEDED, sid, 'meta.json')
            if not os.path.exists(mp):
                continue
            meta = json.load(open(mp))
            rp = os.path.join(SEEDED, sid, 'result.json')
            if os.path.exists(rp):
                r = json.load(open(rp))
                caught = ', '.join('%s (%d violations)' % (x['check'], x['violations'])
                                   for x in r['results'] if x['exit'] == 1 and x['violations'])
                missed = ', '.join(x['check'] for x in r['results'] if not (x['exit'] == 1 and x['violations']))
                cell = caught or ''
                if missed:
                    cell += (' ' if cell else '') + 'MISSED by ' + missed
                if meta.get('strengthened'):
                    cell += ' — ' + meta['strengthened']
            else:
                cell = 'not run yet'
            what = (meta.get('summary') or meta.get('what') or '').replace('|', '/').replace('\n', ' ')[:260]
            rows.append('| %s | %s | %s | %s |' % (sid, meta['property'], what, cell))
        print('\n'.join(rows))
        return 0
    if args[0] == 'run':
        ids = args[1:]
        if ids == ['all']:
            ids = sorted(s for s in os.listdir(SEEDED) if os.path.exists(os.path.join(SEEDED, s, 'meta.json')))
        for sid in ids:
            do_seed(sid, tier, jobs, only)
        return 0
    if args[0] == 'mutants':
        cat = json.load(open(args[1]))
        ms = cat['mutants'] if isinstance(cat, dict) else cat
        want = set(args[2:])
        out = []
        for m in ms:
            if want and m['id'] not in want:
                continue
            out.append(do_mutant(m, tier, jobs, only))
        return 0
    print(__doc__)
    return 2


if __name__ == '__main__':
    sys.exit(main(sys.argv[1:]))
