#!/bin/sh
# usage: tools/sweep.sh <quick|thorough> <logdir> [ids...]   - runs the checks one after the other, logs verdict and wall time
tier=$1; log=$2; shift 2
ids=${*:-C15 C12 C20 C18 C13 C14 C02 C09 C10 C11 C05 C06 C03 C16 C19 C08 C07 C17 C04 C01}
mkdir -p "$log"
cd "$(dirname "$0")/.." || exit 2
for p in $ids; do
  s=$(date +%s)
  timeout 5400 ./check $p --tier $tier > "$log/$p.out" 2> "$log/$p.err"
  rc=$?
  e=$(date +%s)
  echo "$p $tier rc=$rc wall=$((e-s)) $(grep -c '^VIOLATION' "$log/$p.out") violations" >> "$log/summary.txt"
done
echo DONE >> "$log/summary.txt"
