"""Independent BER TLV parser / serialiser with re-serialisation operators
(X.690 clause 8.1).  Used by C04 (all re-serialisations of an encoder output
with <= R rewrites) and C15 (header model).  Does not import asn1tools.

A node keeps the *form* it was read in (definite / indefinite, number of
extra length octets), so serialise(parse(x)) == x for every well-formed x.

Rewrites (each one keeps the abstract value, X.690 references in brackets):
  indef   a constructed node definite -> indefinite + end-of-contents [8.1.3.6]
  pad k   k = 1..4 extra length octets, non-minimal long form [8.1.3.5 note 2]
  seg     a primitive OCTET STRING / BIT STRING / restricted character string /
          UTCTime / GeneralizedTime split into a constructed form whose segments
          are UNIVERSAL 4 (UNIVERSAL 3 for BIT STRING) encodings, primitive or
          again constructed [8.6.4, 8.7.3, 8.23.6]; only the last BIT STRING
          segment carries unused bits [8.6.4.1]
  perm    the components of a SET value in another order [8.11.1]
Which nodes are strings / SETs is decided by the caller (labels on nodes).
"""

import itertools

UNIVERSAL, APPLICATION, CONTEXT, PRIVATE = 0, 1, 2, 3
CLASS_NAMES = {'UNIVERSAL': 0, 'APPLICATION': 1, 'CONTEXT': 2, '': 2, 'PRIVATE': 3}


class TLVError(Exception):
    pass


class Node(object):
    __slots__ = ('cls', 'cons', 'num', 'content', 'kids', 'indef', 'pad', 'lab', 'kind', 'site', 'meta')

    def __init__(self, cls, cons, num, content=None, kids=None, indef=False, pad=0):
        self.cls = cls
        self.cons = cons
        self.num = num
        self.content = content      # bytes (primitive)
        self.kids = kids            # list of Node (constructed)
        self.indef = indef
        self.pad = pad              # extra length octets beyond the minimal form
        self.lab = None             # None | 'oct' | 'bits' | 'set'
        self.kind = ''              # descriptive class used in failure signatures
        self.site = True            # eligible for rewrites
        self.meta = None            # 'set' nodes: per child True when it is an extension addition

    def tag(self):
        return (self.cls, self.num)

    def __repr__(self):
        if self.cons:
            return 'N(%d,%d,%s%r)' % (self.cls, self.num, 'indef,' if self.indef else '', self.kids)
        return 'N(%d,%d,%s)' % (self.cls, self.num, self.content.hex())


# ---------------------------------------------------------------------------
# identifier and length octets

def enc_ident(cls, cons, num):
    first = (cls << 6) | (0x20 if cons else 0)
    if num < 31:
        return bytes([first | num])
    out = [num & 0x7f]
    num >>= 7
    while num:
        out.append(0x80 | (num & 0x7f))
        num >>= 7
    out.append(first | 0x1f)
    return bytes(reversed(out))


def enc_len(n, pad=0):
    """Definite length; pad = number of extra octets compared with the minimal form."""
    if n < 128 and pad == 0:
        return bytes([n])
    body = n.to_bytes(max(1, (n.bit_length() + 7) // 8), 'big')
    if n < 128:
        # minimal form is the short form (1 octet); pad k -> 0x80|k followed by k octets
        k = pad
        body = n.to_bytes(k, 'big')
        return bytes([0x80 | k]) + body
    body = b'\x00' * pad + body
    if len(body) > 126:
        raise TLVError('length of length')
    return bytes([0x80 | len(body)]) + body


def read_header(data, off=0):
    """Header model: returns (ident_len, cls, cons, num, len_len, content_len) where
    content_len is None for the indefinite form; returns None when `data[off:]` does
    not hold the complete identifier and length octets."""
    n = len(data)
    p = off
    if p >= n:
        return None
    b = data[p]
    p += 1
    cls = b >> 6
    cons = bool(b & 0x20)
    num = b & 0x1f
    if num == 0x1f:
        num = 0
        while True:
            if p >= n:
                return None
            c = data[p]
            p += 1
            num = (num << 7) | (c & 0x7f)
            if not c & 0x80:
                break
    ident_len = p - off
    if p >= n:
        return None
    l0 = data[p]
    p += 1
    if l0 < 0x80:
        return ident_len, cls, cons, num, 1, l0
    if l0 == 0x80:
        return ident_len, cls, cons, num, 1, None
    k = l0 & 0x7f
    if l0 == 0xff:
        raise TLVError('reserved length octet')
    if p + k > n:
        return None
    return ident_len, cls, cons, num, 1 + k, int.from_bytes(data[p:p + k], 'big')


def header_and_total(data):
    """(header length, total length) of the definite-length TLV that starts `data`,
    or None while the header is incomplete."""
    h = read_header(data, 0)
    if h is None:
        return None
    il, _, _, _, ll, cl = h
    if cl is None:
        raise TLVError('indefinite')
    return il + ll, il + ll + cl


# ---------------------------------------------------------------------------
# parse / serialise

def parse(data, off=0, end=None):
    """Parse one TLV at data[off:]; returns (Node, offset after it)."""
    data = bytes(data)
    if end is None:
        end = len(data)
    h = read_header(data[:end], off)
    if h is None:
        raise TLVError('truncated header at %d' % off)
    il, cls, cons, num, ll, cl = h
    p = off + il + ll
    if cl is None:
        if not cons:
            raise TLVError('indefinite primitive')
        kids = []
        while True:
            if p + 2 > end:
                raise TLVError('missing end-of-contents')
            if data[p] == 0 and data[p + 1] == 0:
                p += 2
                break
            k, p = parse(data, p, end)
            kids.append(k)
        return Node(cls, True, num, kids=kids, indef=True), p
    if p + cl > end:
        raise TLVError('truncated contents at %d' % off)
    minimal = len(enc_len(cl))
    pad = ll - minimal
    if cons:
        kids = []
        q = p
        while q < p + cl:
            k, q = parse(data, q, p + cl)
            kids.append(k)
        if q != p + cl:
            raise TLVError('children overrun')
        return Node(cls, True, num, kids=kids, pad=pad), p + cl
    return Node(cls, False, num, content=data[p:p + cl], pad=pad), p + cl


def parse_all(data):
    n, p = parse(data, 0)
    if p != len(data):
        raise TLVError('trailing bytes')
    return n


def serialise(node):
    if node.cons:
        body = b''.join(serialise(k) for k in node.kids)
        if node.indef:
            return enc_ident(node.cls, True, node.num) + b'\x80' + body + b'\x00\x00'
        return enc_ident(node.cls, True, node.num) + enc_len(len(body), node.pad) + body
    return enc_ident(node.cls, False, node.num) + enc_len(len(node.content), node.pad) + node.content


def count_nodes(node):
    if node.cons:
        return 1 + sum(count_nodes(k) for k in node.kids)
    return 1


def shape(node):
    """Framing-relevant abstraction of a tree: tags, forms, content lengths, where the
    content has zero octets at its ends (what an end-of-contents scan could trip on);
    full content for string-labelled nodes up to 5 octets."""
    if node.cons:
        return (node.cls, node.num, 1, node.indef, node.pad, tuple(shape(k) for k in node.kids))
    c = node.content
    if node.lab in ('oct', 'bits') and len(c) <= 5:
        return (node.cls, node.num, 0, node.pad, c)
    n = len(c)
    lc = n if n <= 1 else 2 if n < 128 else 128 if n < 256 else 256 if n < 65536 else 65536
    zero = c[:1] == b'\x00' or c[-1:] == b'\x00' or b'\x00\x00' in c
    return (node.cls, node.num, 0, node.pad, lc, zero, c[:1] if node.lab == 'bits' else b'')


# ---------------------------------------------------------------------------
# string segmentation

def compositions(n):
    """All ways to cut n octets into non-empty consecutive parts: lists of part lengths."""
    if n == 0:
        return [[]]
    out = []
    for mask in range(1 << (n - 1)):
        parts = []
        cur = 1
        for i in range(n - 1):
            if mask >> i & 1:
                parts.append(cur)
                cur = 1
            else:
                cur += 1
        parts.append(cur)
        out.append(parts)
    return out


def long_compositions(n):
    """For strings longer than the exhaustive bound: every subset of the cut points
    {1, n // 2, n - 1}."""
    cuts = sorted({1, n // 2, n - 1} - {0, n})
    out = []
    for r in range(len(cuts) + 1):
        for sub in itertools.combinations(cuts, r):
            parts = []
            prev = 0
            for c in sub:
                parts.append(c - prev)
                prev = c
            parts.append(n - prev)
            out.append(parts)
    return out


def _structs(data, depth, exhaustive_max):
    """Lists of segment descriptions for `data`: a description is bytes (a primitive
    segment) or a list (a constructed segment holding descriptions)."""
    n = len(data)
    if n == 0:
        return [[], [b'']]
    if n <= exhaustive_max:
        comps = compositions(n)
    else:
        comps = long_compositions(n)
        depth = 1
    out = []
    for parts in comps:
        pieces = []
        p = 0
        for ln in parts:
            pieces.append(data[p:p + ln])
            p += ln
        alts = []
        for piece in pieces:
            a = [piece]
            if depth > 1:
                a.extend(_structs(piece, depth - 1, exhaustive_max))
            alts.append(a)
        for combo in itertools.product(*alts):
            out.append(list(combo))
    return out


def segmentations(node, depth=2, exhaustive_max=4):
    """All constructed forms of a primitive string node: list of (description, Node).
    node.lab is 'oct' (segments are OCTET STRINGs) or 'bits' (BIT STRINGs)."""
    out = []
    if node.lab == 'oct':
        data = node.content
        structs = _structs(data, depth, exhaustive_max)
        if len(data) > 0:
            structs.append([b'', data])
            structs.append([data, b''])
        for s in structs:
            out.append((_desc(s), Node(node.cls, True, node.num, kids=[_seg_oct(x) for x in s])))
    elif node.lab == 'bits':
        if len(node.content) < 1:
            raise TLVError('bit string without initial octet')
        unused = node.content[0]
        data = node.content[1:]
        structs = _structs(data, depth, exhaustive_max)
        if len(data) > 0:
            structs.append([b'', data])
            if unused == 0:
                structs.append([data, b''])
        for s in structs:
            kids = [_seg_bits(x) for x in s]
            n = Node(node.cls, True, node.num, kids=kids)
            last = _last_leaf(n)
            if last is not None:
                last.content = bytes([unused]) + last.content[1:]
            elif unused:
                continue
            out.append((_desc(s), n))
    else:
        raise TLVError('not a string node')
    for _, n in out:
        n.kind = node.kind
        for k in _walk(n):
            if k is not n:
                k.kind = 'segment'
    return out


def _walk(n):
    yield n
    if n.cons:
        for k in n.kids:
            yield from _walk(k)


def _desc(s):
    if isinstance(s, (bytes, bytearray)):
        return str(len(s))
    return '[' + ','.join(_desc(x) for x in s) + ']'


def _seg_oct(x):
    if isinstance(x, (bytes, bytearray)):
        return Node(UNIVERSAL, False, 4, content=bytes(x))
    return Node(UNIVERSAL, True, 4, kids=[_seg_oct(y) for y in x])


def _seg_bits(x):
    if isinstance(x, (bytes, bytearray)):
        return Node(UNIVERSAL, False, 3, content=b'\x00' + bytes(x))
    return Node(UNIVERSAL, True, 3, kids=[_seg_bits(y) for y in x])


def _last_leaf(n):
    if not n.cons:
        return n
    for k in reversed(n.kids):
        r = _last_leaf(k)
        if r is not None:
            return r
    return None


# ---------------------------------------------------------------------------
# enumeration of re-serialisations

class Cfg(object):
    def __init__(self, pads=(1, 2, 3, 4), seg_depth=2, seg_max=4, perm_max=4, wide=6, multi_pads=None):
        self.pads = pads
        self.multi_pads = multi_pads    # if set: pad sizes allowed in variants with >= 2 rewrites
        self.seg_depth = seg_depth
        self.seg_max = seg_max
        self.perm_max = perm_max
        self.wide = wide     # constructed nodes with more children: only the first 3 / last 2 are sites


def mark_sites(node, cfg):
    """In very wide constructed nodes only the children at the ends are rewrite sites."""
    if node.cons:
        n = len(node.kids)
        for i, k in enumerate(node.kids):
            if n > cfg.wide and not (i < 3 or i >= n - 2):
                _unsite(k)
            else:
                mark_sites(k, cfg)


def _unsite(node):
    node.site = False
    if node.cons:
        for k in node.kids:
            _unsite(k)


def variants(node, r, cfg, path=(), banned=frozenset()):
    """All serialisations of the subtree with at most r rewrites, none of them in `banned`.
    Returns a list of (cost, bytes, ops); ops is a tuple of (path, op, arg, kind)."""
    if not node.site:
        return [(0, serialise(node), ())]
    ident = enc_ident(node.cls, node.cons, node.num)
    out = []
    if not node.cons:
        c = node.content
        out.append((0, ident + enc_len(len(c)) + c, ()))
        if r >= 1:
            for k in cfg.pads:
                op = (path, 'pad', k, node.kind)
                if op not in banned:
                    out.append((1, ident + enc_len(len(c), k) + c, (op,)))
            if node.lab in ('oct', 'bits'):
                for desc, tree in segmentations(node, cfg.seg_depth, cfg.seg_max):
                    op = (path, 'seg', desc, node.kind)
                    if op in banned:
                        continue
                    for cost, b, ops in variants(tree, r - 1, cfg, path, banned):
                        out.append((cost + 1, b, (op,) + ops))
        return out
    # constructed
    orders = [(0, None, list(range(len(node.kids))))]
    if node.lab == 'set' and r >= 1 and 2 <= len(node.kids) <= cfg.perm_max:
        ident_perm = tuple(range(len(node.kids)))
        for p in itertools.permutations(range(len(node.kids))):
            if p != ident_perm:
                kind = node.kind
                if node.meta and any(node.meta[p[i]] and not node.meta[p[j]]
                                     for i in range(len(p)) for j in range(i + 1, len(p))):
                    kind += '/addition-before-root'
                op = (path, 'perm', ''.join(map(str, p)), kind)
                if op not in banned:
                    orders.append((1, op, list(p)))
    kid_cache = {}
    for ocost, oop, order in orders:
        budget = r - ocost
        combos = [(0, b'', ())]
        for i in order:
            key = (i, budget)
            if key not in kid_cache:
                kid_cache[key] = variants(node.kids[i], budget, cfg, path + (i,), banned)
            kv = kid_cache[key]
            new = []
            for c1, b1, o1 in combos:
                for c2, b2, o2 in kv:
                    if c1 + c2 <= budget:
                        new.append((c1 + c2, b1 + b2, o1 + o2))
            combos = new
        for c, body, ops in combos:
            c += ocost
            if oop is not None:
                ops = (oop,) + ops
            out.append((c, ident + enc_len(len(body)) + body, ops))
            if c + 1 <= r:
                for k in cfg.pads:
                    op = (path, 'pad', k, node.kind)
                    if op not in banned:
                        out.append((c + 1, ident + enc_len(len(body), k) + body, ops + (op,)))
                op = (path, 'indef', '', node.kind)
                if op not in banned:
                    out.append((c + 1, ident + b'\x80' + body + b'\x00\x00', ops + (op,)))
    return out


def multi_variants(node, r, cfg, banned=frozenset()):
    """The variants with 2..r rewrites (pad sizes cfg.multi_pads if set), none using a banned rewrite."""
    c2 = cfg
    if cfg.multi_pads is not None:
        c2 = Cfg(cfg.multi_pads, cfg.seg_depth, cfg.seg_max, cfg.perm_max, cfg.wide)
    return [x for x in variants(node, r, c2, (), banned) if x[0] >= 2]


def count_all_variants(node, r, cfg):
    if cfg.multi_pads is None or r < 2 or tuple(cfg.multi_pads) == tuple(cfg.pads):
        return count_variants(node, r, cfg)
    c1 = count_variants(node, 1, cfg)
    c2 = Cfg(cfg.multi_pads, cfg.seg_depth, cfg.seg_max, cfg.perm_max, cfg.wide)
    cc = count_variants(node, r, c2)
    return c1[:2] + cc[2:]


def count_variants(node, r, cfg):
    """Number of elements variants(node, r, cfg) would return, per exact cost: list c[0..r]."""
    def conv(a, b):
        out = [0] * (r + 1)
        for i, x in enumerate(a):
            if x:
                for j, y in enumerate(b):
                    if y and i + j <= r:
                        out[i + j] += x * y
        return out

    def shift(a, k=1):
        return ([0] * k + a)[:r + 1]

    def rec(n):
        if not n.site:
            return [1] + [0] * r
        if not n.cons:
            c = [1] + [0] * r
            if r >= 1:
                c[1] += len(cfg.pads)
                if n.lab in ('oct', 'bits'):
                    for _, tree in segmentations(n, cfg.seg_depth, cfg.seg_max):
                        for i, x in enumerate(shift(rec(tree))):
                            c[i] += x
            return c
        body = [1] + [0] * r
        for k in n.kids:
            body = conv(body, rec(k))
        if n.lab == 'set' and r >= 1 and 2 <= len(n.kids) <= cfg.perm_max:
            nperm = 1
            for i in range(2, len(n.kids) + 1):
                nperm *= i
            sh = shift(body)
            body = [b + (nperm - 1) * s for b, s in zip(body, sh)]
        form = [1, len(cfg.pads) + 1] + [0] * (r - 1) if r >= 1 else [1]
        return conv(body, form[:r + 1])
    return rec(node)


def describe_ops(ops):
    return ['%s%s@%s:%s' % (op, ('(' + str(arg) + ')') if arg != '' else '', '.'.join(map(str, path)) or 'top', kind)
            for path, op, arg, kind in ops]


def op_classes(ops):
    return sorted({'%s:%s' % (op, kind) for path, op, arg, kind in ops})
