"""Text sources for C14: generated mini-modules (from the shared term space) and the repository's
fixture corpus, whole and cut into one-assignment fragments.  Uses only mc.lexer (no asn1tools)."""

import os
import glob

from . import lexer

REPO = os.path.abspath(os.environ.get('VERIF_REPO', '/repo'))
FIXDIR = os.path.join(REPO, 'tests', 'files')

OPEN = '{(['
CLOSE = '})]'


def fixtures():
    """[(relative path, text, tokens, layouts)] of every fixture the lexer can read, sorted by path."""
    out = []
    for p in sorted(glob.glob(os.path.join(FIXDIR, '**', '*.asn'), recursive=True)):
        with open(p, encoding='utf-8') as f:
            s = f.read()
        try:
            toks, lays = lexer.scan(s)
        except lexer.LexError:
            continue
        out.append((os.path.relpath(p, FIXDIR), s, toks, lays))
    return out


def contexts(toks, w):
    """Boundary-context signature of every gap g = 0..n: the classes of the w tokens on each side."""
    n = len(toks)
    ab = [lexer.abstract(t) for t in toks]
    out = []
    for g in range(n + 1):
        out.append(tuple(ab[i] if 0 <= i < n else '^' for i in range(g - w, g + w)))
    return out


def _depths(toks):
    """Bracket depth *before* each token."""
    d = 0
    out = []
    for t in toks:
        if t.kind == 'sym' and t.text[0] in CLOSE:
            d -= len(t.text)
        out.append(d)
        if t.kind == 'sym' and t.text[0] in OPEN:
            d += len(t.text)
    return out


def _first_on_line(s, toks, i):
    t = toks[i]
    ls = s.rfind('\n', 0, t.start) + 1
    return i == 0 or toks[i - 1].end <= ls


def split_modules(s, toks):
    """[(header_start_tok, begin_tok, end_tok)] for each module of a text (token indices)."""
    depth = _depths(toks)
    mods = []
    i = 0
    n = len(toks)
    while i < n:
        if toks[i].kind == 'kw' and toks[i].text == 'DEFINITIONS' and depth[i] == 0:
            h = i - 1
            if h >= 0 and toks[h].text == '}':
                while h >= 0 and toks[h].text != '{':
                    h -= 1
                h -= 1
            if h < 0:
                return None
            b = i
            while b < n and not (toks[b].kind == 'kw' and toks[b].text == 'BEGIN'):
                b += 1
            e = b + 1
            while e < n and not (toks[e].kind == 'kw' and toks[e].text == 'END' and depth[e] == depth[b]):
                e += 1
            if b >= n or e >= n:
                return None
            mods.append((h, b, e))
            i = e + 1
        else:
            i += 1
    return mods


def fragments(s, toks):
    """Cut a fixture into mini-modules of one assignment each (same module header, then the assignment text
    with the comments that follow it, then END).  Returns a list of texts, or None when the layout of the
    file does not allow a reliable cut (an assignment that does not start a line)."""
    mods = split_modules(s, toks)
    if not mods:
        return None
    depth = _depths(toks)
    out = []
    for h, b, e in mods:
        header = s[toks[h].start:toks[b].end]
        d0 = depth[b]
        i = b + 1
        # EXPORTS ...; IMPORTS ...;  -> one preamble fragment
        pre_end = i
        while i < e and toks[i].kind == 'kw' and toks[i].text in ('EXPORTS', 'IMPORTS'):
            while i < e and toks[i].text != ';':
                i += 1
            i += 1
            pre_end = i
        if pre_end > b + 1:
            out.append(header + '\n' + s[toks[b + 1].start:toks[pre_end - 1].end] + '\nEND\n')
        assigns = [k for k in range(pre_end, e) if toks[k].text == '::=' and toks[k].kind == 'sym'
                   and depth[k] == d0]
        starts = []
        prev = pre_end - 1
        for a in assigns:
            st = None
            for k in range(a - 1, prev, -1):
                if depth[k] == d0 and toks[k].kind in ('lref', 'uref') and _first_on_line(s, toks, k):
                    st = k
                    break
            if st is None:
                return None
            starts.append(st)
            prev = a
        if starts and starts[0] != pre_end:
            return None
        for j, st in enumerate(starts):
            stop = toks[starts[j + 1]].start if j + 1 < len(starts) else toks[e].start
            body = s[toks[st].start:stop].rstrip()
            out.append(header + '\n' + body + '\nEND\n')
    return out


def gen_lines(tier):
    """[(label, header, assignment line)] from the shared term space: every L0 leaf, every leaf in every
    standard context (L0c), a slice of L1 (the whole EXPLICIT environment, the first units of AUTOMATIC and
    of AUTOMATIC + EXTENSIBILITY IMPLIED), the reference families."""
    from . import space
    thorough = tier == 'thorough'
    units = []
    units += list(space.l0_units(thorough))
    units += list(space.l0c_units(thorough))
    l1 = list(space.l1_units(3, 2) if thorough else space.l1_units(2, 2))
    units += l1
    units += list(space.l1_units(2, 2, envs=(('AUTOMATIC', False),)))[:3]
    units += list(space.l1_units(2, 2, envs=(('AUTOMATIC', True), ('IMPLICIT', False))))[:1]
    units += list(space.l1_units(2, 2, envs=(('IMPLICIT', False),)))[:1]
    units += list(space.family_units())
    out = []
    seen = set()
    for header, lines in EXTRA_LINES:
        for line in lines:
            out.append(('extra', header, line))
    for u in units:
        lines = u.spec.split('\n')
        header = lines[0]
        for line in lines[1:]:
            if '::=' not in line:
                continue
            # the name of the type does not matter to the parser: key on the text after the name
            key = (header, line.split(' ', 1)[1] if line[0] == 'T' else line)
            if key in seen:
                continue
            seen.add(key)
            out.append((u.label, header, line))
    return out, units


# notation that the library's grammar has and that neither the term space nor the fixtures use (a line the
# library does not accept is skipped and counted)
EXTRA_LINES = [
    ('M DEFINITIONS ::= BEGIN', [
        'X ::= CHARACTER STRING',
        'X ::= ANY DEFINED BY a',
        'X ::= SEQUENCE { COMPONENTS OF Y, a INTEGER }',
        'X ::= INTEGER (CONSTRAINED BY { })',
        'X ::= OCTET STRING (CONTAINING Y)',
        'X ::= T (INCLUDES U)',
        'X ::= INTEGER (ALL EXCEPT 5)',
        'X ::= INTEGER (1 UNION 2 INTERSECTION 3)',
        'X ::= INTEGER (1 | 2 ^ 3)',
        'X ::= INTEGER (0 <.. < 5)',
        'X ::= SET (SIZE (1)) OF a INTEGER',
        'X ::= SEQUENCE SIZE (1..2) OF Y',
        'X ::= [UNIVERSAL 5] IMPLICIT Y',
        'X ::= [PRIVATE 5] Y',
        'X ::= [APPLICATION 5] EXPLICIT Y',
        'X ::= SEQUENCE { a [0] Y, ..., [[ 2: b [1] Y ]], ..., c Y }',
        'X ::= CHOICE { a Y, ..., [[ b Y, c Y ]] }',
        "x BIT STRING ::= '0101'B",
        "x OCTET STRING ::= 'AB'H",
        'x X ::= a : 5',
        'x REAL ::= 1.5e3',
        'x REAL ::= PLUS-INFINITY',
        'x REAL ::= { mantissa 1, base 10, exponent 2 }',
        'x OBJECT IDENTIFIER ::= { iso(1) member-body(2) 840 y }',
        'x BOOLEAN ::= TRUE',
        'X ::= N.T',
        'X ::= SEQUENCE { a C.&id({S}), b C.&Type({S}{@a}), c C.&Type({S}{@.a}) }',
        'C ::= CLASS { &id INTEGER UNIQUE, &Type OPTIONAL, &v BOOLEAN DEFAULT TRUE } WITH SYNTAX { ID &id [TYPE &Type] }',
        'Par { T } ::= SEQUENCE { a T }',
        'X ::= Par { INTEGER }',
    ]),
    ('M { iso(1) 2 m(3) } DEFINITIONS ::= BEGIN\nEXPORTS ALL;\nIMPORTS A, b FROM B WITH SUCCESSORS C FROM D { 1 2 } '
     'WITH DESCENDANTS E FROM F;', ['X ::= A']),
    ('M DEFINITIONS EXPLICIT TAGS ::= BEGIN\nEXPORTS A, b;', ['A ::= NULL']),
]


def mini(header, lines):
    return header + '\n' + '\n'.join(lines) + '\nEND\n'
