"""Constraint applied to a type reference (`T2 ::= T1 (0..5)`, `x T1 (SIZE (1..2))`),
as an extension of the shared term language that needs no change to it, and the
unit builders that know about it.  Used by C11 and C12.  Nothing here imports
asn1tools.

A `CRef` is a `Ref` whose `name` is the complete ASN.1 text (`T1 (0..5)`), so the
shared renderer prints it correctly; the environment of a unit maps that text to
`Ref(base)`, so every shared helper that resolves references (value domains,
abstract equality, tag legality) sees the base type.  The semantic constraint is
carried in `rng` / `size` / `alpha` and is read by `layers`.
"""

from dataclasses import dataclass
from .terms import (Leaf, Seq, Cho, Of, Ref, Tag, Rng, Module, render_module, subterms, all_members)
from . import alphabet as A


@dataclass(frozen=True)
class CRef(Ref):
    base: str = None
    rng: Rng = None           # value range applied to the reference
    size: Rng = None          # SIZE applied to the reference
    alpha: str = None         # FROM applied to the reference


def _q(s):
    return '"' + s.replace('"', '""') + '"'


def cref(base, rng=None, size=None, alpha=None):
    txt = base
    if rng is not None:
        txt += ' (' + rng.text() + ')'
    if alpha is not None:
        txt += ' (FROM (' + _q(alpha) + '))'
    if size is not None:
        txt += ' (SIZE (' + size.text() + '))'
    return CRef(txt, base, rng, size, alpha)


@dataclass(frozen=True)
class Layer:
    """One constraint as stated at one place of the specification."""
    what: str                 # 'rng' | 'size' | 'alpha'
    rng: Rng = None
    alpha: str = None
    where: str = ''           # 'leaf' | 'of' | 'cref'

    def enforced(self):
        """An extensible constraint admits every value of the parent type."""
        return self.what == 'alpha' or not self.rng.ext


def layers(t, env):
    """Follow Tag / Ref / CRef wrappers down to the structural type and collect
    every constraint stated on the way.  A value of the type must satisfy all of
    the non-extensible ones (serial application of constraints intersects)."""
    out = []
    n = 0
    while True:
        if isinstance(t, CRef):
            if t.rng is not None:
                out.append(Layer('rng', t.rng, where='cref'))
            if t.size is not None:
                out.append(Layer('size', t.size, where='cref'))
            if t.alpha is not None:
                out.append(Layer('alpha', alpha=t.alpha, where='cref'))
            t = env[t.base]
        elif isinstance(t, Ref):
            t = env[t.name]
        elif isinstance(t, Tag):
            t = t.inner
        else:
            break
        n += 1
        if n > 60:
            raise RecursionError('reference cycle')
    if isinstance(t, Leaf):
        if t.rng is not None:
            out.append(Layer('rng', t.rng, where='leaf'))
        if t.size is not None:
            out.append(Layer('size', t.size, where='leaf'))
        if t.alpha is not None:
            out.append(Layer('alpha', alpha=t.alpha, where='leaf'))
    elif isinstance(t, Of):
        if t.size is not None:
            out.append(Layer('size', t.size, where='of'))
    return t, out


def crefs_in(t, env, acc=None, _seen=None):
    acc = acc if acc is not None else {}
    _seen = _seen if _seen is not None else set()
    for s in subterms(t):
        if isinstance(s, CRef):
            acc[s.name] = Ref(s.base)
            if s.base not in _seen and s.base in env:
                _seen.add(s.base)
                crefs_in(env[s.base], env, acc, _seen)
        elif isinstance(s, Ref) and s.name not in _seen and s.name in env:
            _seen.add(s.name)
            crefs_in(env[s.name], env, acc, _seen)
    return acc


EXTRA_VALUE_REFS = [('inf', 'INTEGER', '5'), ('nan', 'INTEGER', '5')]


def is_synthetic(name):
    return ' ' in name or '(' in name


def make_cunit(label, tops, helpers=None, tags='EXPLICIT', ext_implied=False, values=None):
    """Like space.make_unit, for terms that may hold CRef nodes.
    tops: [(term, label)]; helpers: {name: term}."""
    from .tagging import legalize
    from .space import Unit
    helpers = {n: t for n, t in (helpers or {}).items() if not is_synthetic(n)}
    synth = {}
    for t, _ in tops:
        crefs_in(t, helpers, synth)
    for t in helpers.values():
        crefs_in(t, helpers, synth)
    lenv = dict(helpers)
    lenv.update(synth)
    types = []
    out_tops = []
    for i, (t, lab) in enumerate(tops):
        name = 'T%d' % i
        t = legalize(t, lenv, tags)
        types.append((name, t))
        out_tops.append((name, t, lab))
    for hn, ht in helpers.items():
        types.append((hn, legalize(ht, lenv, tags)))
    mod = Module('M', types, tags=tags, ext_implied=ext_implied,
                 values=list(values if values is not None else A.VALUE_REFS + EXTRA_VALUE_REFS))
    env = dict(types)
    env.update(synth)
    return Unit(label, render_module(mod), out_tops, env, tags, ext_implied, helpers=helpers)


def referenced(term, env, acc=None):
    """Real (non-synthetic) helper types reachable from term."""
    acc = acc if acc is not None else {}
    for s in subterms(term):
        if isinstance(s, Ref):
            name = s.base if isinstance(s, CRef) else s.name
            if name not in acc and name in env:
                acc[name] = env[name]
                referenced(env[name], env, acc)
    return acc


def single_cunit(term, env, tags, ei):
    return make_cunit('single', [(term, 'single')], helpers=referenced(term, env), tags=tags, ext_implied=ei)
