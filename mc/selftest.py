"""Framework self-test run by setup: validates the reference models against
their frozen vectors and that the tools the checks need respond."""
import sys


def main():
    ok = True
    from . import impl, terms, values, absval, alphabet, tagging  # noqa: F401
    leaves = alphabet.sigma_leaf()
    print('selftest: asn1tools from %s, %d leaf shapes' % (impl.asn1tools.__file__, len(leaves)))
    for name in ('ref_der', 'ref_per', 'ref_oer', 'ref_gser', 'tlv'):
        try:
            mod = __import__('mc.' + name, fromlist=['selftest'])
        except ImportError:
            continue
        if hasattr(mod, 'selftest'):
            try:
                n = mod.selftest()
                print('selftest: %s ok (%s vectors)' % (name, n))
            except Exception as e:
                ok = False
                print('selftest: %s FAILED: %r' % (name, e))
    return 0 if ok else 2


if __name__ == '__main__':
    sys.exit(main())
