"""Program alphabet for the generated-C checks (C09 uper, C10 oer).

In-subset terms: the documented C subset (README "generate C source":
BOOLEAN, INTEGER with a finite range that fits 64 bits, NULL, OCTET STRING with
a maximum SIZE, BIT STRING of fixed SIZE <= 64, ENUMERATED, SEQUENCE with
OPTIONAL / DEFAULT, SEQUENCE OF with a maximum SIZE, CHOICE, type references
(also across modules), empty extension markers; OER additionally REAL
binary32 / binary64 and SEQUENCE extension additions).

Just-outside terms: every unsupported leaf in every container position.  The
generator must reject them (any exception) or translate them correctly.

Everything is a deterministic finite list.
"""

import itertools
from dataclasses import replace

from .terms import (Leaf, Rng, Seq, Cho, Of, Ref, Tag, M, Grp, MIN, MAX, Module, render_module)
from . import space
from .values import leaf_dom

R = Rng
B = Leaf('BOOLEAN')
NULL = Leaf('NULL')
U8 = Leaf('INTEGER', rng=R(0, 255))
I5 = Leaf('INTEGER', rng=R(0, 5))


def _names(n, p='e'):
    return ['%s%d' % (p, i) for i in range(n)]


def integer_leaves(thorough):
    rngs = [(0, 0), (5, 5), (0, 1), (0, 2), (0, 5), (0, 7), (0, 127), (0, 128), (0, 254), (0, 255), (0, 256),
            (0, 65535), (0, 65536), (0, 2**24), (0, 2**32 - 1), (0, 2**32), (0, 2**63), (0, 2**64 - 1),
            (-1, 1), (-128, 127), (-129, 127), (-128, 128), (-32768, 32767), (-32769, 32767),
            (-2**31, 2**31 - 1), (-2**31 - 1, 2**31 - 1), (-2**63, 2**63 - 1), (-2**63, 0), (-5, 10),
            (10, 265), (1000, 1255), (1000, 1256), (1, 256), (100, 70000), (2**63, 2**64 - 1),
            (-2**63, -2**63 + 1), (-2, 4),
            (-32768, -32513), (-2**31, -2**31 + 255), (-128, 65407), (-128, -100), (0, 200), (-2**63, -2**63 + 65535)]
    if thorough:
        rngs += [(0, 3), (0, 4), (0, 8), (0, 15), (0, 16), (0, 32767), (0, 32768), (0, 2**31), (1, 2**64 - 1),
                 (-32768, 32768), (-2**31, 2**31), (-2**63 + 1, 2**63 - 1), (-1, 2**63 - 1), (255, 256),
                 (65535, 65536), (-129, -128), (2**32 - 1, 2**32), (0, 2**16 + 1), (0, 2**48)]
    out = [Leaf('INTEGER', rng=R(lo, hi, single=(lo == hi and lo == 5))) for lo, hi in rngs]
    out += [Leaf('INTEGER', named=(('one', 1), ('ten', 10)), rng=R(1, 10, lb_sym='one', ub_sym='ten')),
            Leaf('INTEGER', rng=R(0, 7, ub_sym='vSeven')),
            Leaf('INTEGER', rng=R(-2, 300, lb_sym='vMinusTwo', ub_sym='vThreeHundred'))]
    return out


def enumerated_leaves(codec, thorough):
    out = []
    for n in [1, 2, 3, 4, 5, 8, 9] + ([16, 17, 128, 129, 256, 257] if thorough else [129]):
        out.append(Leaf('ENUMERATED', enum=tuple((x, None) for x in _names(n))))
    out += [
        Leaf('ENUMERATED', enum=(('a', 0), ('b', 5))),
        Leaf('ENUMERATED', enum=(('a', 1), ('b', 2), ('c', 3))),
        Leaf('ENUMERATED', enum=(('a', 5), ('b', 2), ('c', 9), ('d', 0))),          # out of textual order
        Leaf('ENUMERATED', enum=(('a', 1), ('b', None), ('c', None))),             # mixed numbering
        Leaf('ENUMERATED', enum=(('a', None), ('b', 4), ('c', 512))),              # the repository's own example
        Leaf('ENUMERATED', enum=(('a', 127), ('b', 128))),
        Leaf('ENUMERATED', enum=(('a', 255), ('b', 256))),
        Leaf('ENUMERATED', enum=(('a', 32767), ('b', 32768))),
        Leaf('ENUMERATED', enum=(('a', 8388607), ('b', 8388608))),
        Leaf('ENUMERATED', enum=(('a', 2147483647), ('b', 0))),
        Leaf('ENUMERATED', enum=(('a', -1), ('b', 0), ('c', 5))),
        Leaf('ENUMERATED', enum=(('a', -128), ('b', -129))),
        Leaf('ENUMERATED', enum=(('a', -32768), ('b', -32769), ('c', 70000))),
        Leaf('ENUMERATED', enum=(('a', -8388608), ('b', -8388609))),
        Leaf('ENUMERATED', enum=(('a', -2147483648), ('b', 1))),
        Leaf('ENUMERATED', enum=(('x-y', None), ('b', None))),                     # hyphenated identifier
        # empty extension marker
        Leaf('ENUMERATED', enum=(('a', None), ('b', None)), enum_adds=()),
        Leaf('ENUMERATED', enum=(('a', None), ('b', None), ('c', None)), enum_adds=()),
        Leaf('ENUMERATED', enum=(('a', 3), ('b', 1)), enum_adds=()),
    ]
    return out


def bitstring_leaves(thorough):
    sizes = [1, 2, 7, 8, 9, 15, 16, 17, 24, 25, 32, 33, 63, 64]
    if thorough:
        sizes += [3, 23, 31, 40, 48, 56, 57]
    out = [Leaf('BITSTRING', size=R(n, n, single=True)) for n in sizes]
    nb = (('a', 0), ('b', 1), ('c', 5))
    out += [Leaf('BITSTRING', named=nb, size=R(6, 6, single=True)),
            Leaf('BITSTRING', named=nb, size=R(8, 8, single=True)),
            Leaf('BITSTRING', named=(('z', 0), ('y', 17)), size=R(18, 18, single=True)),
            Leaf('BITSTRING', size=R(12, 12))]
    return out


def octetstring_leaves(thorough):
    fixed = [1, 2, 3, 4, 11, 127, 128, 255, 256]
    ranges = [(0, 1), (0, 3), (1, 2), (2, 3), (0, 7), (5, 20), (22, 23), (0, 126), (0, 127), (0, 128), (1, 128),
              (0, 254), (0, 255), (0, 256), (1, 256), (2, 257), (0, 300)]
    if thorough:
        fixed += [5, 64, 65, 300]
        ranges += [(0, 2), (0, 4), (0, 15), (0, 16), (3, 4), (127, 128), (255, 256), (0, 65535), (0, 65536)]
    out = [Leaf('OCTETSTRING', size=R(n, n, single=True)) for n in fixed]
    out += [Leaf('OCTETSTRING', size=R(lo, hi)) for lo, hi in ranges]
    out.append(Leaf('OCTETSTRING', size=R(2, 4, lb_sym='vTwo', ub_sym='vFour')))
    return out


def c_leaves(codec, thorough=False):
    out = [B, NULL]
    out += integer_leaves(thorough)
    out += enumerated_leaves(codec, thorough)
    out += bitstring_leaves(thorough)
    out += octetstring_leaves(thorough)
    if codec == 'oer':
        out += [Leaf('REAL', wc='binary32'), Leaf('REAL', wc='binary64')]
    return _dedupe(out)


def outside_leaves(codec, thorough=False):
    """Leaves just outside the documented subset."""
    out = [
        Leaf('INTEGER'), Leaf('INTEGER', rng=R(0, MAX)), Leaf('INTEGER', rng=R(MIN, 5)),
        Leaf('INTEGER', rng=R(MIN, MAX)),
        Leaf('INTEGER', rng=R(0, 2**64)), Leaf('INTEGER', rng=R(-1, 2**63)), Leaf('INTEGER', rng=R(-2**63 - 1, 0)),
        Leaf('INTEGER', rng=R(-2**63, 2**63)), Leaf('INTEGER', rng=R(2**64, 2**64 + 1)),
        Leaf('INTEGER', rng=R(0, 7, ext=True)), Leaf('INTEGER', rng=R(0, 255, ext=True)),
        Leaf('INTEGER', rng=R(-1, 1, ext=True)), Leaf('INTEGER', named=(('one', 1), ('ten', 10))),
        Leaf('OCTETSTRING'), Leaf('OCTETSTRING', size=R(1, MAX)), Leaf('OCTETSTRING', size=R(0, MAX)),
        Leaf('OCTETSTRING', size=R(0, 3, ext=True)), Leaf('OCTETSTRING', size=R(2, 2, ext=True, single=True)),
        Leaf('BITSTRING'), Leaf('BITSTRING', size=R(0, 3)), Leaf('BITSTRING', size=R(1, 2)),
        Leaf('BITSTRING', size=R(0, 64)), Leaf('BITSTRING', size=R(8, 16)),
        Leaf('BITSTRING', size=R(65, 65, single=True)), Leaf('BITSTRING', size=R(128, 128, single=True)),
        Leaf('BITSTRING', size=R(0, 0, single=True)),
        Leaf('BITSTRING', size=R(1, MAX)), Leaf('BITSTRING', named=(('a', 0), ('b', 1), ('c', 5))),
        Leaf('BITSTRING', size=R(8, 8, ext=True, single=True)), Leaf('BITSTRING', size=R(1, 8, ext=True)),
        Leaf('OCTETSTRING', size=R(0, 0, single=True)),
        Leaf('REAL'), Leaf('OID'),
        Leaf('IA5String'), Leaf('IA5String', size=R(2, 2, single=True)), Leaf('IA5String', size=R(0, 3)),
        Leaf('VisibleString', size=R(1, 4)), Leaf('UTF8String'), Leaf('UTF8String', size=R(0, 3)),
        Leaf('NumericString', size=R(3, 3, single=True)), Leaf('PrintableString', size=R(0, 3)),
        Leaf('BMPString', size=R(0, 3)), Leaf('UniversalString', size=R(0, 3)), Leaf('GeneralString'),
        Leaf('GraphicString'), Leaf('TeletexString'), Leaf('ObjectDescriptor'),
        Leaf('IA5String', alpha='ab', size=R(1, 4)),
        Leaf('UTCTime'), Leaf('GeneralizedTime'), Leaf('DATE'), Leaf('TIME-OF-DAY'), Leaf('DATE-TIME'),
        # ENUMERATED with extension additions
        Leaf('ENUMERATED', enum=(('a', None), ('b', None)), enum_adds=(('x', None),)),
        Leaf('ENUMERATED', enum=(('a', None), ('b', None)), enum_adds=(('x', None), ('y', None))),
        Leaf('ENUMERATED', enum=(('a', 3), ('b', 1)), enum_adds=(('x', 10), ('y', 200))),
        Leaf('ENUMERATED', enum=(('a', None),), enum_adds=(('x', None),)),
        # ENUMERATED values beyond 32 bits
        Leaf('ENUMERATED', enum=(('a', 0), ('b', 2**31))),
        Leaf('ENUMERATED', enum=(('a', 0), ('b', 2**32))),
        Leaf('ENUMERATED', enum=(('a', -2**31 - 1), ('b', 0))),
    ]
    if codec == 'uper':
        out += [Leaf('REAL', wc='binary32'), Leaf('REAL', wc='binary64')]
    return _dedupe(out)


def _dedupe(ts):
    seen = set()
    out = []
    for t in ts:
        if t not in seen:
            seen.add(t)
            out.append(t)
    return out


# ---------------------------------------------------------------------------
# contexts

def default_for(leaf):
    if leaf.kind in ('NULL',) or leaf.kind not in ('BOOLEAN', 'INTEGER', 'ENUMERATED', 'OCTETSTRING', 'BITSTRING',
                                                   'REAL', 'IA5String', 'VisibleString', 'UTF8String'):
        return None
    return space.default_for(leaf)


def contexts(x, codec, default=None, outside=False):
    """Every container position of the C subset for term x: [(label, term)]."""
    out = [
        ('seq', Seq((M('pad', B), M('x', x), M('tail', B)))),
        ('seq-opt', Seq((M('pad', B), M('x', x, 'O'), M('tail', B)))),
        ('of2', Of(x, size=R(2, 2, single=True))),
        ('of02', Of(x, size=R(0, 2))),
        ('cho', Cho((M('p', B), M('x', x)))),
        ('seq-ext', Seq((M('x', x), M('tail', B)), ext=True)),
        ('cho-ext', Cho((M('p', B), M('x', x)), ext=True)),
    ]
    if default is not None:
        out.append(('seq-def', Seq((M('pad', B), M('x', x, 'D', default=default), M('tail', B)))))
    if codec == 'oer' or outside:
        out += [
            ('seq-add', Seq((M('pad', B),), ext=True, adds=(M('x', x),))),
            ('seq-add-opt', Seq((M('pad', B),), ext=True, adds=(M('y', B, 'O'), M('x', x, 'O')))),
        ]
    return out


def ref_contexts(name, x, default=None):
    """Positions of a *reference* to type `name` (whose definition is x)."""
    r = Ref(name)
    out = [
        ('ref', r),
        ('ref-seq', Seq((M('pad', B), M('x', r), M('tail', B)))),
        ('ref-seq-opt', Seq((M('x', r, 'O'), M('tail', B)))),
        ('ref-of', Of(r, size=R(0, 2))),
        ('ref-cho', Cho((M('p', B), M('x', r)))),
    ]
    if default is not None:
        out.append(('ref-seq-def', Seq((M('pad', B), M('x', r, 'D', default=default), M('tail', B)))))
    return out


# ---------------------------------------------------------------------------
# reduced member alphabet

ENUM3 = Leaf('ENUMERATED', enum=(('a', None), ('b', None), ('c', None)))
OCT03 = Leaf('OCTETSTRING', size=R(0, 3))
BITS3 = Leaf('BITSTRING', size=R(3, 3, single=True))
I32 = Leaf('INTEGER', rng=R(-2**31, 2**31 - 1))
CHO_R = Cho((M('ca', B), M('cb', U8)))
SEQ_R = Seq((M('sa', B), M('sb', U8, 'O')))
HELPERS = {
    'Hseq': Seq((M('ra', I5), M('rb', B, 'O'))),
    'Hint': Leaf('INTEGER', rng=R(-3, 300)),
    'Henum': Leaf('ENUMERATED', enum=(('p', 1), ('q', 5), ('r', 6))),
    'Hcho': Cho((M('ha', I5), M('hb', B))),
    'Hoct': Leaf('OCTETSTRING', size=R(1, 2)),
    'Hof': Of(I5, size=R(0, 2)),
    'Hbool': B,
    'Hnull': NULL,
    'Hbits': Leaf('BITSTRING', size=R(9, 9, single=True)),
}


def sigma_c(codec):
    """(label, term, default or None)"""
    out = [
        ('bool', B, True),
        ('int5', I5, 3),
        ('i32', I32, -7),
        ('null', NULL, None),
        ('oct', OCT03, b'\x01\x02'),
        ('enum', ENUM3, 'b'),
        ('bits', BITS3, (b'\xa0', 3)),
        ('cho', CHO_R, None),
        ('seq', SEQ_R, None),
        ('of', Of(I5, size=R(0, 2)), None),
        ('rseq', Ref('Hseq'), None),
        ('rint', Ref('Hint'), 7),
        ('renum', Ref('Henum'), 'q'),
        ('rcho', Ref('Hcho'), None),
    ]
    if codec == 'oer':
        out.append(('f32', Leaf('REAL', wc='binary32'), None))
    return out


def _member_variants(name, letters, quals=('M', 'O', 'D')):
    out = []
    for lab, t, d in letters:
        if 'M' in quals:
            out.append(M(name, t))
        if 'O' in quals:
            out.append(M(name, t, 'O'))
        if d is not None and 'D' in quals:
            out.append(M(name, t, 'D', default=d))
    return out


def l1_terms(codec, W=2, K=2, reduced=False):
    """reduced: when two positions deviate, the second one draws from a 5-letter sub-alphabet."""
    letters = sigma_c(codec)
    sub = [x for x in letters if x[0] in ('int5', 'oct', 'enum', 'rseq', 'null')]
    out = []
    # SEQUENCE: w members, <= K deviations from (all BOOLEAN mandatory, no extension)
    ext_shapes = ['none', 'marker'] + (['add1', 'add2'] if codec == 'oer' else [])
    for w in range(1, W + 1):
        names = ['m%d' % i for i in range(w)]
        base = [M(n, B) for n in names]
        alts = {i: [v for v in _member_variants(names[i], letters) if v != base[i]] for i in range(w)}
        for k in range(0, min(K, w) + 1):
            for pos in itertools.combinations(range(w), k):
                pools = [alts[p] if (j == 0 or not reduced) else
                         [v for v in _member_variants(names[p], sub) if v != base[p]]
                         for j, p in enumerate(pos)]
                for choice in itertools.product(*pools):
                    root = list(base)
                    for p, c in zip(pos, choice):
                        root[p] = c
                    root = tuple(root)
                    out.append(Seq(root))
                    if k < K:
                        out.append(Seq(root, ext=True))
                        if 'add1' in ext_shapes:
                            adds = _member_variants('x0', letters, ('M', 'O')) if k + 1 < K \
                                else _member_variants('x0', letters[:2], ('M', 'O'))
                            for a in adds:
                                out.append(Seq(root, ext=True, adds=(a,)))
                            out.append(Seq(root, ext=True, adds=(M('x0', B, 'O'), M('x1', U8, 'O'))))
                            out.append(Seq(root, ext=True, adds=(M('x0', U8), M('x1', OCT03))))
    # CHOICE
    for w in range(1, W + 1):
        names = ['m%d' % i for i in range(w)]
        base = [M(n, B) for n in names]
        alts = {i: [M(names[i], t) for lab, t, d in letters if t != B] for i in range(w)}
        for k in range(0, min(K, w) + 1):
            for pos in itertools.combinations(range(w), k):
                pools = [alts[p] if (j == 0 or not reduced) else
                         [M(names[p], t) for lab, t, d in sub] for j, p in enumerate(pos)]
                for choice in itertools.product(*pools):
                    root = list(base)
                    for p, c in zip(pos, choice):
                        root[p] = c
                    out.append(Cho(tuple(root)))
                    if k < K:
                        out.append(Cho(tuple(root), ext=True))
    # SEQUENCE OF
    sizes = [R(1, 1, single=True), R(2, 2, single=True), R(0, 1), R(0, 3), R(1, 2), R(2, 5), R(0, 255), R(0, 256),
             R(1, 256), R(255, 255, single=True), R(256, 256, single=True), R(3, 4)]
    for lab, t, d in letters:
        for s in sizes:
            if s.hi() > 5 and lab not in ('bool', 'int5', 'null', 'oct', 'enum'):
                continue
            out.append(Of(t, size=s))
    return _dedupe(out)


def l2_terms(codec, thorough=False):
    """Ordered pairs of constructors (inner in every member position of the outer)."""
    letters = [('bool', B, True), ('int5', I5, 3), ('oct', OCT03, None)]
    if thorough:
        letters.append(('enum', ENUM3, 'b'))
    inners = []
    for lab, t, d in letters:
        inners += [
            Seq((M('ia', t), M('ib', B, 'O'))),
            Seq((M('ia', t, 'O'), M('ib', U8))),
            Seq((M('ia', t),), ext=True),
            Cho((M('ia', t), M('ib', U8))),
            Cho((M('ia', t), M('ib', U8), M('ic', NULL)), ext=True),
            Of(t, size=R(0, 3)),
            Of(t, size=R(2, 2, single=True)),
        ]
        if d is not None:
            inners.append(Seq((M('ia', t, 'D', default=d), M('ib', B))))
        if codec == 'oer':
            inners += [Seq((M('ia', t),), ext=True, adds=(M('ix', U8, 'O'),)),
                       Seq((M('ia', t, 'O'),), ext=True, adds=(M('ix', t), M('iy', B, 'O')))]
    inners = _dedupe(inners)
    out = []
    for inner in inners:
        out += [
            Seq((M('oa', B), M('ob', inner), M('oc', U8))),
            Seq((M('oa', B), M('ob', inner, 'O'), M('oc', U8))),
            Seq((M('ob', inner), M('oc', U8)), ext=True),
            Cho((M('oa', B), M('ob', inner))),
            Of(inner, size=R(0, 2)),
            Of(inner, size=R(2, 2, single=True)),
        ]
        if codec == 'oer':
            out += [Seq((M('oa', B),), ext=True, adds=(M('ox', inner), M('oy', U8, 'O'))),
                    Seq((M('oa', B),), ext=True, adds=(M('ow', U8, 'O'), M('ox', inner, 'O')))]
    return _dedupe(out)


def special_terms(codec, thorough=False):
    """Counting thresholds: presence bitmaps, CHOICE index widths / tag forms, nesting depth, names."""
    out = []
    # n OPTIONAL members (presence bitmap 7/8/9 bits; with and without extension bit)
    for n in ([1, 7, 8, 9] + ([15, 16, 17] if thorough else [])):
        ms = tuple(M('o%d' % i, B if i % 2 else I5, 'O') for i in range(n))
        out.append(('opt%d' % n, Seq(ms)))
        out.append(('opt%d-ext' % n, Seq(ms, ext=True)))
        ms = tuple(M('d%d' % i, I5, 'D', default=(i % 5) + 1) for i in range(n))
        out.append(('def%d' % n, Seq(ms + (M('t', B),))))
    # CHOICE with n alternatives
    for n in [1, 2, 3, 4, 5, 8, 9, 16, 17] + ([31, 32, 33, 64, 65] if thorough else [32, 33]):
        out.append(('cho%d' % n, Cho(tuple(M('a%d' % i, I5 if i % 2 else B) for i in range(n)))))
    # explicitly tagged CHOICE alternatives (OER tag octets; UPER canonical order)
    for tags in [(0, 1), (1, 0), (30, 31), (62, 63), (63, 64), (127, 128), (16383, 16384)]:
        out.append(('cho-tags%s' % (tags,), Cho(tuple(M('a%d' % i, Tag(t, B if i else I5)) for i, t in enumerate(tags)))))
    out.append(('cho-app', Cho((M('a0', Tag(1, I5, cls='APPLICATION')), M('a1', Tag(1, B, cls='PRIVATE')),
                                M('a2', Tag(1, NULL))))))
    out.append(('cho-univ', Cho((M('s', OCT03), M('i', I5), M('b', B), M('n', NULL), M('e', ENUM3),
                                 M('q', SEQ_R)))))
    # additions counts (OER addition bitmap 7/8/9 bits)
    if codec == 'oer':
        for n in [7, 8, 9] + ([16, 17] if thorough else []):
            adds = tuple(M('x%d' % i, B if i % 2 else I5, 'O') for i in range(n))
            out.append(('add%d' % n, Seq((M('r', B),), ext=True, adds=adds)))
        out.append(('add-mand', Seq((M('r', B),), ext=True, adds=(M('x0', I5), M('x1', OCT03), M('x2', SEQ_R)))))
        out.append(('add-big', Seq((M('r', B),), ext=True,
                                   adds=(M('x0', Leaf('OCTETSTRING', size=R(0, 300)), 'O'), M('x1', B, 'O')))))
        out.append(('add-big-fixed', Seq((M('r', B),), ext=True,
                                         adds=(M('x0', Leaf('OCTETSTRING', size=R(200, 200, single=True)), 'O'),
                                               M('x1', Of(U8, size=R(0, 200)), 'O')))))
        out.append(('add-group', Seq((M('r', B),), ext=True, adds=(Grp((M('x0', I5), M('x1', B, 'O'))),))))
        out.append(('add-hyphen', Seq((M('r', B),), ext=True, adds=(M('x-y', I5, 'O'),))))
        out.append(('add-default', Seq((M('r', B),), ext=True, adds=(M('x0', I5, 'D', default=3),))))
        out.append(('add-root2', Seq((M('r', B),), ext=True, adds=(M('x0', I5, 'O'),), root2=(M('z', U8),))))
        out.append(('add-ref-cho', Seq((M('r', B),), ext=True, adds=(M('x0', Ref('Hcho'), 'O'),))))
        out.append(('add-ref-enum', Seq((M('r', B),), ext=True, adds=(M('x0', Ref('Henum'), 'O'),))))
        out.append(('add-cho', Seq((M('r', B),), ext=True, adds=(M('x0', CHO_R, 'O'),))))
        out.append(('add-enum', Seq((M('r', B),), ext=True, adds=(M('x0', ENUM3, 'O'),))))
        out.append(('add-of', Seq((M('r', B),), ext=True, adds=(M('x0', Of(I5, size=R(0, 2)), 'O'),))))
        out.append(('add-bits', Seq((M('r', B),), ext=True, adds=(M('x0', BITS3, 'O'),))))
        out.append(('add-null', Seq((M('r', B),), ext=True, adds=(M('x0', NULL, 'O'), M('x1', B, 'O')))))
        out.append(('add-real', Seq((M('r', B),), ext=True, adds=(M('x0', Leaf('REAL', wc='binary64'), 'O'),))))
        out.append(('add-nested', Seq((M('r', B),), ext=True,
                                      adds=(M('x0', Seq((M('n', I5),), ext=True, adds=(M('nx', B, 'O'),)), 'O'),))))
    # names
    out.append(('name-hyphen', Seq((M('my-field', I5), M('other-one', B, 'O')))))
    out.append(('name-cho-hyphen', Cho((M('alt-one', I5), M('alt-two', B)))))
    out.append(('name-keyword', Seq((M('long', I5), M('tail', B)))))
    out.append(('name-value', Seq((M('value', I5), M('length', B), M('choice', B, 'O')))))
    # DEFAULT shapes
    out.append(('def-oct-fixed', Seq((M('x', Leaf('OCTETSTRING', size=R(2, 2, single=True)), 'D', default=b'\x01\x02'),
                                      M('t', B)))))
    out.append(('def-oct-empty', Seq((M('x', OCT03, 'D', default=b''), M('t', B)))))
    out.append(('def-bool-false', Seq((M('x', B, 'D', default=False), M('t', B)))))
    out.append(('def-neg', Seq((M('x', Leaf('INTEGER', rng=R(-5, 10)), 'D', default=-5), M('t', B)))))
    out.append(('def-i64min', Seq((M('x', Leaf('INTEGER', rng=R(-2**63, 2**63 - 1)), 'D', default=-2**63), M('t', B)))))
    out.append(('def-u64max', Seq((M('x', Leaf('INTEGER', rng=R(0, 2**64 - 1)), 'D', default=2**64 - 1), M('t', B)))))
    out.append(('def-u32', Seq((M('x', Leaf('INTEGER', rng=R(0, 2**32 - 1)), 'D', default=2**32 - 1), M('t', B)))))
    out.append(('def-ref-enum', Seq((M('x', Ref('Henum'), 'D', default='q'), M('t', B)))))
    out.append(('def-ref-int', Seq((M('x', Ref('Hint'), 'D', default=-3), M('t', B)))))
    out.append(('def-ref-bool', Seq((M('x', Ref('Hbool'), 'D', default=True), M('t', B)))))
    out.append(('def-ref-oct', Seq((M('x', Ref('Hoct'), 'D', default=b'\x07'), M('t', B)))))
    out.append(('def-ref-bits', Seq((M('x', Ref('Hbits'), 'D', default=(b'\x80\x80', 9)), M('t', B)))))
    out.append(('def-bits', Seq((M('x', BITS3, 'D', default=(b'\xa0', 3)), M('t', B)))))
    # depth
    out.append(('deep', Seq((M('a', Cho((M('b', Cho((M('c', B),))),))),))))
    out.append(('of-of', Of(Of(B, size=R(1, 1, single=True)), size=R(1, 2))))
    out.append(('of-of-of', Of(Of(Of(I5, size=R(0, 2)), size=R(1, 2)), size=R(0, 2))))
    out.append(('of-null34', Seq((M('e', Of(NULL, size=R(3, 4))), M('f', NULL)))))
    out.append(('of-null-fixed', Of(NULL, size=R(2, 2, single=True))))
    out.append(('seq-empty', Seq(())))
    out.append(('seq-empty-ext', Seq((), ext=True)))
    out.append(('seq-only-null', Seq((M('n', NULL),))))
    out.append(('cho-only-null', Cho((M('n', NULL),))))
    out.append(('ref-ref', Ref('Hrr')))
    out.append(('ref-null-member', Seq((M('a', Ref('Hnull')), M('b', B)))))
    out.append(('of-ref-null', Of(Ref('Hnull'), size=R(0, 2))))
    return out


SPECIAL_HELPERS = dict(HELPERS, Hrr=Ref('Hint'))


def recursive_families():
    i8 = U8
    return [
        ('rec-list', {'RL': Seq((M('v', i8), M('n', Ref('RL'), 'O')))}, ['RL']),
        ('rec-tree', {'RT': Cho((M('leaf', i8), M('node', Of(Ref('RT'), size=R(0, 2)))))}, ['RT']),
        ('rec-mutual', {'RA': Seq((M('v', B), M('b', Ref('RB'), 'O'))),
                        'RB': Cho((M('a', Ref('RA')), M('z', NULL)))}, ['RA']),
    ]


# ---------------------------------------------------------------------------
# units

BATCH = 30


def _unit(label, tops, helpers=None, tags='AUTOMATIC', expect='accept', batch_label=None):
    u = space.make_unit(label, tops, helpers=helpers, tags=tags)
    u.extra = {'expect': expect, 'modules': {n: 'M' for n in u.env}}
    return u


def _batched(label, tops, helpers=None, tags='AUTOMATIC', expect='accept', n=BATCH):
    for bi in range(0, len(tops), n):
        yield _unit('%s/%s/%d' % (label, tags, bi // n), tops[bi:bi + n], helpers, tags, expect)


def cross_module_unit(codec, label='xmod'):
    """Tops in module M refer to types defined in module N (IMPORTS)."""
    from .tagging import legalize
    helpers = dict(HELPERS)
    tops = []
    for hn in ('Hseq', 'Hint', 'Henum', 'Hcho', 'Hoct', 'Hof', 'Hbool', 'Hnull', 'Hbits'):
        d = {'Hint': 7, 'Henum': 'q', 'Hbool': True, 'Hoct': b'\x07'}.get(hn)
        for ctx, t in ref_contexts(hn, helpers[hn], d):
            tops.append((t, 'X:%s:%s' % (ctx, hn)))
    types = [('T%d' % i, legalize(t, helpers, 'AUTOMATIC')) for i, (t, lab) in enumerate(tops)]
    from . import alphabet as A
    m = Module('M', types, tags='AUTOMATIC', values=list(A.VALUE_REFS), imports={'N': sorted(helpers)})
    m.foreign = helpers
    n = Module('N', [(k, legalize(v, helpers, 'AUTOMATIC')) for k, v in helpers.items()], tags='AUTOMATIC')
    spec = render_module(m) + render_module(n)
    env = dict(types)
    env.update(dict(n.types))
    mods = {k: 'M' for k, _ in types}
    mods.update({k: 'N' for k in helpers})
    u = space.Unit(label, spec, [(nm, t, tops[i][1]) for i, (nm, t) in enumerate(types)], env, 'AUTOMATIC', False,
                   helpers=dict(n.types))
    u.extra = {'expect': 'accept', 'modules': mods}
    return u


def units(codec, tier):
    thorough = tier == 'thorough'
    out = []
    leaves = c_leaves(codec, thorough)
    from .terms import render_type

    def lab(l):
        return render_type(l)

    # L0
    out += _batched('L0', [(l, 'L0:' + lab(l)) for l in leaves])
    # L0c: every in-subset leaf in every container position
    tops = []
    for l in leaves:
        for ctx, t in contexts(l, codec, default_for(l)):
            tops.append((t, 'L0c:%s:%s' % (ctx, lab(l))))
    out += _batched('L0c', tops)
    # CHOICE / tag dependent layers also under EXPLICIT TAGS
    tops_e = [(t, l) for t, l in tops if l.startswith('L0c:cho')]
    out += _batched('L0c', tops_e if thorough else tops_e[::3], tags='EXPLICIT')
    # references (same module) for every helper, then across modules
    tops = []
    for hn, ht in HELPERS.items():
        d = {'Hint': 7, 'Henum': 'q', 'Hbool': True, 'Hoct': b'\x07'}.get(hn)
        for ctx, t in ref_contexts(hn, ht, d):
            tops.append((t, 'Lref:%s:%s' % (ctx, hn)))
    out += _batched('Lref', tops, helpers=HELPERS)
    out.append(cross_module_unit(codec))
    # L1
    l1 = l1_terms(codec, 3 if thorough else 2, 2, reduced=True)
    out += _batched('L1', [(t, 'L1') for t in l1], helpers=HELPERS)
    l1e = [t for t in l1 if isinstance(t, Cho)]
    out += _batched('L1', [(t, 'L1') for t in (l1e if thorough else l1e[::4])], helpers=HELPERS, tags='EXPLICIT')
    # L2
    out += _batched('L2', [(t, 'L2') for t in l2_terms(codec, thorough)], helpers=HELPERS)
    # specials
    out += _batched('Lsp', [(t, 'Lsp:' + l) for l, t in special_terms(codec, thorough)], helpers=SPECIAL_HELPERS)
    out += _batched('Lsp', [(t, 'Lsp:' + l) for l, t in special_terms(codec, thorough)
                            if l.startswith('cho')], helpers=SPECIAL_HELPERS, tags='EXPLICIT')
    # just outside: each leaf alone and in every container position; each top is generated on its own
    outs = outside_leaves(codec, thorough)
    tops = [(l, 'X0:' + lab(l)) for l in outs]
    for l in outs:
        for ctx, t in contexts(l, codec, default_for(l), outside=True):
            tops.append((t, 'X0c:%s:%s' % (ctx, lab(l))))
    out += _batched('X0', tops, expect='reject', n=60)
    # just outside through a reference
    helpers = {'Ho%d' % i: l for i, l in enumerate(outs)}
    tops = []
    for hn in helpers:
        tops.append((Ref(hn), 'Xref:ref:' + lab(helpers[hn])))
        tops.append((Seq((M('pad', B), M('x', Ref(hn)))), 'Xref:seq:' + lab(helpers[hn])))
    out += _batched('Xref', tops, helpers=helpers, expect='reject', n=60)
    # constructors with additions outside the subset (UPER: SEQUENCE / CHOICE additions; OER: CHOICE additions)
    tops = []
    for lab_, t, d in sigma_c(codec)[:9]:
        tops.append((Cho((M('p', B),), ext=True, adds=(M('x', t),)), 'Xadd:cho-add:' + lab_))
        if codec == 'uper':
            tops.append((Seq((M('p', B),), ext=True, adds=(M('x', t),)), 'Xadd:seq-add:' + lab_))
            tops.append((Seq((M('p', B),), ext=True, adds=(M('x', t, 'O'), M('y', B, 'O'))), 'Xadd:seq-add-opt:' + lab_))
    tops.append((Cho((M('p', B), M('q', I5)), ext=True, adds=(M('x', B), M('y', U8))), 'Xadd:cho-add2'))
    tops.append((Seq((M('p', B),), ext=True, adds=(Grp((M('x', I5), M('y', B, 'O'))),)), 'Xadd:seq-group'))
    tops.append((Seq((M('p', B),), ext=True, adds=(M('x', I5, 'O'),), root2=(M('z', U8),)), 'Xadd:seq-root2'))
    tops.append((Seq((M('p', B), M('s', B)), is_set=True), 'Xadd:set'))
    tops.append((Of(B, size=R(0, 2), is_set=True), 'Xadd:setof'))
    tops.append((Of(B), 'Xadd:of-unbounded'))
    tops.append((Of(B, size=R(1, MAX)), 'Xadd:of-max'))
    tops.append((Of(B, size=R(0, 2, ext=True)), 'Xadd:of-ext'))
    tops.append((Of(I5, size=R(0, 2, ext=True)), 'Xadd:of-ext-int'))
    tops.append((Seq((M('a', Of(B)), M('b', B))), 'Xadd:seq-of-unbounded'))
    out += _batched('Xadd', tops, expect='reject', n=60)
    # recursion
    for lab_, types, topn in recursive_families():
        mod = Module('M', list(types.items()), tags='AUTOMATIC')
        u = space.Unit('Xrec/' + lab_, render_module(mod), [(n, types[n], 'Xrec:' + lab_) for n in topn],
                       dict(types), 'AUTOMATIC', False, helpers={k: v for k, v in types.items() if k not in topn})
        u.extra = {'expect': 'reject', 'modules': {n: 'M' for n in types}}
        out.append(u)
    return out
