"""Reader for the C header emitted by asn1tools.source.c.generate.

The header is parsed with pycparser (an independent C parser).  Nothing here
knows how the generator lays types out: the *names* of structs, members,
enumerators and functions are read from the header, and the *layout* (offset
and size of every member) is obtained from the C compiler itself, through a
table of offsetof()/sizeof() expressions that `layout_source` emits and that is
compiled into the driver (cdriver.py).
"""

import re
from pycparser import c_parser, c_ast

_PRELUDE = '''
typedef unsigned char uint8_t; typedef unsigned short uint16_t;
typedef unsigned int uint32_t; typedef unsigned long uint64_t;
typedef signed char int8_t; typedef short int16_t; typedef int int32_t; typedef long int64_t;
typedef _Bool bool; typedef long ssize_t; typedef unsigned long size_t;
'''

SCALAR_KINDS = {
    'uint8_t': ('u', 1), 'uint16_t': ('u', 2), 'uint32_t': ('u', 4), 'uint64_t': ('u', 8),
    'int8_t': ('i', 1), 'int16_t': ('i', 2), 'int32_t': ('i', 4), 'int64_t': ('i', 8),
    'bool': ('b', 1), 'float': ('f', 4), 'double': ('f', 8),
}


class HeaderError(Exception):
    pass


class CNode:
    """Declared C type of a member.

    kind: 'scalar' (ctype = typedef name), 'enum' (ctype = enum tag),
    'struct' / 'union' (fields: ordered {name: CNode}; tag = struct tag when the
    member is declared as `struct <tag>` i.e. a generated user type), 'array'
    (elem, dim)."""

    def __init__(self, kind, ctype=None, fields=None, tag=None, elem=None, dim=None):
        self.kind = kind
        self.ctype = ctype
        self.fields = fields
        self.tag = tag
        self.elem = elem
        self.dim = dim

    def __repr__(self):
        if self.kind in ('struct', 'union'):
            return '%s%s{%s}' % (self.kind, ' ' + self.tag if self.tag else '',
                                 ', '.join('%s: %r' % kv for kv in self.fields.items()))
        if self.kind == 'array':
            return '%r[%d]' % (self.elem, self.dim)
        return '%s %s' % (self.kind, self.ctype)


class Header:
    def __init__(self):
        self.structs = {}       # tag -> CNode(kind='struct', tag=tag), in textual order
        self.enums = {}         # enum tag -> {enumerator: int}, in textual order
        self.constants = {}     # static const <name> = value (named bits)
        self.funcs = {}         # function name -> [parameter type text]


def _strip(text):
    text = re.sub(r'/\*.*?\*/', '', text, flags=re.S)
    text = re.sub(r'//[^\n]*', '', text)
    out = []
    for line in text.split('\n'):
        if line.lstrip().startswith('#'):
            continue
        out.append(line)
    return '\n'.join(out)


def _const(node):
    if isinstance(node, c_ast.Constant):
        s = node.value.rstrip('uUlL')
        return int(s, 0)
    if isinstance(node, c_ast.UnaryOp) and node.op == '-':
        return -_const(node.expr)
    if isinstance(node, c_ast.UnaryOp) and node.op == '+':
        return _const(node.expr)
    raise HeaderError('unsupported constant expression %r' % (node,))


def parse_header(text):
    """Parse the generated header text into a Header."""
    src = _PRELUDE + _strip(text)
    try:
        ast = c_parser.CParser().parse(src, filename='<header>')
    except Exception as e:           # pycparser raises plain exceptions (ParseError)
        raise HeaderError('header does not parse: %s' % str(e)[:200])
    h = Header()

    def enum_def(e):
        if e.values is None:
            return
        vals = {}
        nxt = 0
        for en in e.values.enumerators:
            if en.value is not None:
                nxt = _const(en.value)
            vals[en.name] = nxt
            nxt += 1
        if e.name in h.enums and h.enums[e.name] != vals:
            raise HeaderError('enum %s defined twice' % e.name)
        h.enums[e.name] = vals

    def conv(t):
        if isinstance(t, c_ast.TypeDecl):
            return conv(t.type)
        if isinstance(t, c_ast.IdentifierType):
            name = ' '.join(t.names)
            if name not in SCALAR_KINDS:
                raise HeaderError('unknown scalar type %r' % name)
            return CNode('scalar', ctype=name)
        if isinstance(t, c_ast.Enum):
            enum_def(t)
            return CNode('enum', ctype=t.name)
        if isinstance(t, (c_ast.Struct, c_ast.Union)):
            kind = 'struct' if isinstance(t, c_ast.Struct) else 'union'
            if t.decls is None:
                if kind != 'struct' or t.name not in h.structs:
                    raise HeaderError('reference to undefined %s %s' % (kind, t.name))
                return h.structs[t.name]
            fields = {}
            for d in t.decls:
                if d.name in fields:
                    raise HeaderError('duplicate member %s' % d.name)
                fields[d.name] = conv(d.type)
            return CNode(kind, fields=fields, tag=t.name)
        if isinstance(t, c_ast.ArrayDecl):
            return CNode('array', elem=conv(t.type), dim=_const(t.dim))
        raise HeaderError('unsupported declarator %s' % type(t).__name__)

    for ext in ast.ext:
        if isinstance(ext, c_ast.Typedef):
            continue
        if isinstance(ext, c_ast.Decl):
            t = ext.type
            if isinstance(t, c_ast.FuncDecl):
                params = []
                for p in (t.args.params if t.args else []):
                    params.append(p.name)
                h.funcs[ext.name] = params
            elif isinstance(t, c_ast.Enum):
                enum_def(t)
            elif isinstance(t, c_ast.Struct) and ext.name is None:
                if t.decls is not None:
                    node = conv(t)
                    h.structs[t.name] = node
            elif ext.name is not None and ext.init is not None:
                try:
                    h.constants[ext.name] = _const(ext.init)
                except HeaderError:
                    pass
    return h


def entry_points(h):
    """[(struct tag, base name)] for every struct <base>_t that has both
    <base>_encode and <base>_decode declared, in header order."""
    out = []
    for tag in h.structs:
        if tag.endswith('_t'):
            base = tag[:-2]
            if base + '_encode' in h.funcs and base + '_decode' in h.funcs:
                out.append((tag, base))
    return out


# ---------------------------------------------------------------------------
# layout: instance tree per entry point, numbered in DFS order; the C side
# emits {offsetof, sizeof} rows in the same order.

class LNode:
    """An instance of a CNode inside one top-level struct.  off is relative to
    the enclosing LNode (for array elements: relative to element 0 of the
    array, stride = size of one element)."""
    __slots__ = ('c', 'kind', 'off', 'size', 'fields', 'elem', 'dim', 'path', 'abs0')

    def __init__(self, c, path):
        self.c = c
        self.kind = c.kind
        self.path = path
        self.off = self.size = self.abs0 = None
        self.fields = None
        self.elem = None
        self.dim = c.dim


def instantiate(c, path=''):
    n = LNode(c, path)
    if c.kind in ('struct', 'union'):
        n.fields = {name: instantiate(f, (path + '.' if path else '') + name) for name, f in c.fields.items()}
    elif c.kind == 'array':
        n.elem = instantiate(c.elem, path + '[0]')
    return n


def walk(n):
    yield n
    if n.fields is not None:
        for f in n.fields.values():
            yield from walk(f)
    elif n.elem is not None:
        yield from walk(n.elem)


def layout_source(h, entries):
    """C text: wrappers with a uniform signature, the type table and the
    layout table.  Must be compiled together with the generated header."""
    out = []
    rows = []
    for ti, (tag, base) in enumerate(entries):
        out.append('static ssize_t enc_%d(uint8_t *d, size_t n, const void *s) '
                   '{ return %s_encode(d, n, (const struct %s *)s); }' % (ti, base, tag))
        out.append('static ssize_t dec_%d(void *d, const uint8_t *s, size_t n) '
                   '{ return %s_decode((struct %s *)d, s, n); }' % (ti, base, tag))
        for node in walk(instantiate(h.structs[tag])):
            if node.path == '':
                rows.append('{ %d, 0, sizeof(struct %s) }' % (ti, tag))
            else:
                rows.append('{ %d, offsetof(struct %s, %s), sizeof(((struct %s *)0)->%s) }'
                            % (ti, tag, node.path, tag, node.path))
    out.append('static const struct tdesc TYPES[] = {')
    for ti, (tag, base) in enumerate(entries):
        out.append('    { "%s", sizeof(struct %s), enc_%d, dec_%d },' % (base, tag, ti, ti))
    out.append('    { 0, 0, 0, 0 } };')
    out.append('static const struct lrow LAYOUT[] = {')
    for r in rows:
        out.append('    ' + r + ',')
    out.append('    { -1, 0, 0 } };')
    return '\n'.join(out) + '\n'


def bind_layout(h, entries, rows):
    """rows: [(ti, offset, size)] as printed by the driver.  Returns
    [LNode root per entry] with off/size filled in."""
    roots = []
    it = iter(rows)
    for ti, (tag, base) in enumerate(entries):
        root = instantiate(h.structs[tag])
        for node in walk(root):
            try:
                rti, off, size = next(it)
            except StopIteration:
                raise HeaderError('layout table too short')
            if rti != ti:
                raise HeaderError('layout table out of step')
            node.abs0 = off
            node.size = size
        _relativize(root, 0)
        roots.append(root)
    return roots


def _relativize(n, parent_abs):
    n.off = n.abs0 - parent_abs
    if n.fields is not None:
        for f in n.fields.values():
            _relativize(f, n.abs0)
    elif n.elem is not None:
        _relativize(n.elem, n.abs0)
