"""Known-finding predicates for C10 (generated OER C code).  See kp_c09 for the
conventions; findings shared by both generators live in kp_c09."""

from .terms import Leaf, Seq, Cho, Of, Ref, Tag, Grp, all_members
from .kp_c09 import (nodes, leaves, members, resolve, plain_leaf, plain_containers, no_defaults, no_keywords,
                     all_plain, only, _term, ENC_DEC)


def _seqs(t, env):
    return [n for n in nodes(t, env) if isinstance(n, Seq)]


def _has_adds(t, env):
    return any(s.adds for s in _seqs(t, env))


def _addition_members(s):
    out = []
    for a in s.adds:
        out.extend(a.members if isinstance(a, Grp) else (a,))
    return out


def _oer_plain(f, **kw):
    """Leaves plain or small OCTET STRING / INTEGER, containers plain, additions allowed."""
    t, env = _term(f)
    if t is None:
        return False

    def ok(l):
        if plain_leaf(l):
            return True
        if l.kind == 'OCTETSTRING':
            return l.size is not None and not l.size.ext and l.size.hi() is not None
        return False
    return (all(ok(l) for l in leaves(t, env)) and plain_containers(t, env, allow_adds=True, allow_cho_ext=False)
            and no_defaults(t, env) and no_keywords(t, env)
            and not any(isinstance(n, Cho) and n.adds for n in nodes(t, env)))


def oer_marker_without_additions_not_skipped(f):
    """OER: a SEQUENCE with an extension marker and no additions gets no code for the extension bit: additions
    sent by a newer version are not skipped."""
    if f.get('codec') != 'oer' or f['kind'] not in ('v2-not-consumed', 'v2-decode-mismatch', 'v2-decode-failed'):
        return False
    t, env = _term(f)
    if t is None or not _oer_plain(f):
        return False
    return any(s.ext and not s.adds for s in _seqs(t, env)) and not _has_adds(t, env)


def oer_addition_bitmap_multiple_of_8(f):
    """OER: with 8 (16, ...) known additions the decoder starts the scan for unknown additions with mask 0x80 on the
    last known octet instead of fetching the next bitmap octet; and the Python encoder (the model) writes the
    unused-bits octet of an 8-bit bitmap as 8.  V1/V2 pairs and encodings at that count disagree."""
    if f.get('codec') != 'oer':
        return False
    if f['kind'] not in ENC_DEC + ('v2-decode-failed', 'v2-decode-mismatch', 'v2-not-consumed'):
        return False
    t, env = _term(f)
    if t is None or not _oer_plain(f):
        return False
    counts = [len(_addition_members(s)) for s in _seqs(t, env) if s.adds]
    if not counts:
        return False
    if f['kind'].startswith('v2-'):
        # V2 has one more addition than V1: 7 -> 8 (python writes 8 unused bits), 8 -> 9 (C mask bug)
        return any(c % 8 in (7, 0) for c in counts)
    return any(c % 8 == 0 for c in counts)


def _nontrivial_addition(m, env):
    """An addition whose encoded length is not a constant the generator computes correctly: a SEQUENCE with
    OPTIONAL / DEFAULT members or with its own extension marker."""
    r = resolve(m.t, env)
    if isinstance(r, Seq):
        return r.ext or any(x.q in ('O', 'D') for x in all_members(r))
    return False


def oer_addition_length_static(f):
    """OER: the length prefix of an extension addition is computed at generation time from every member of the
    addition's type, present or not: an addition that is a SEQUENCE with an absent OPTIONAL member (or with its
    own extension part) gets a too large length."""
    if f.get('codec') != 'oer' or f['kind'] not in ('encode-mismatch',):
        return False
    t, env = _term(f)
    if t is None or not _oer_plain(f):
        return False
    for s in _seqs(t, env):
        for m in _addition_members(s):
            if _nontrivial_addition(m, env):
                return True
    return False


def oer_addition_loop_index_in_sequence_of(f):
    """OER: the decoder's scan of the addition bitmap uses the literal variable `i`; inside a SEQUENCE OF that is
    the element index, so elements[] is then indexed with the number of addition bits."""
    if f.get('codec') != 'oer':
        return False
    if f['kind'] == 'sanitizer':
        if 'out of bounds' not in f.get('detail', '') and "type 'bool'" not in f.get('detail', '') \
                and 'overflow' not in f.get('detail', ''):
            return False
    elif f['kind'] not in ('decode-mismatch', 'decode-failed', 'v2-decode-failed', 'v2-decode-mismatch',
                           'redecode-mismatch', 'redecode-failed', 'reencode-failed'):
        return False
    t, env = _term(f)
    if t is None or not _oer_plain(f):
        return False
    for n in nodes(t, env):
        if isinstance(n, Of):
            if any(isinstance(x, Seq) and x.adds for x in nodes(n.elem, env)):
                return True
    return False


def oer_bit_string_size_zero(f):
    """OER: BIT STRING (SIZE (0)) is accepted and gets a one-octet container: one octet is written where the
    Python codec writes none."""
    if f.get('codec') != 'oer' or f['kind'] not in ENC_DEC:
        return False
    return only(f, lambda l: l.kind == 'BITSTRING' and l.size is not None and l.size.lo() == l.size.hi() == 0)


def oer_choice_additions(f):
    """OER: CHOICE with extension additions is accepted; only the root alternatives are generated."""
    if f.get('codec') != 'oer' or f['kind'] not in ('value-not-representable', 'decode-failed'):
        return False
    t, env = _term(f)
    if t is None:
        return False
    if not any(isinstance(n, Cho) and n.adds for n in nodes(t, env)):
        return False
    return all_plain(f, allow_cho_ext=True, allow_adds=True) and not _has_adds(t, env)


def _constructed_addition(m, env):
    r = resolve(m.t, env)
    if isinstance(r, (Seq, Of, Cho)):
        return True
    # a *reference* to an ENUMERATED / CHOICE type: the length expression names members of the referring struct
    if isinstance(m.t, (Ref, Tag)) and isinstance(r, Leaf) and r.kind == 'ENUMERATED':
        return True
    return False


def oer_addition_length_expression_does_not_compile(f):
    """OER: the C expression for the length prefix of an extension addition is assembled from member paths that are
    wrong for constructed additions (SEQUENCE OF, nested SEQUENCE with variable members, referenced CHOICE /
    ENUMERATED): src_p->.length, src_p-><inner member>, an enumerator of the wrong type."""
    if f.get('codec') != 'oer' or f['kind'] != 'c-compile-error':
        return False
    t, env = _term(f)
    if t is None or not no_keywords(t, env):
        return False
    for s in _seqs(t, env):
        for m in _addition_members(s):
            if _constructed_addition(m, env):
                return True
    return False


def oer_addition_name_not_canonical(f):
    """OER: is_<name>_addition_present uses the ASN.1 identifier verbatim: a hyphen gives an invalid C identifier."""
    if f.get('codec') != 'oer' or f['kind'] != 'c-compile-error':
        return False
    t, env = _term(f)
    if t is None:
        return False
    return any('-' in m.name for s in _seqs(t, env) for m in _addition_members(s))


def oer_bit_string_five_to_seven_octets(f):
    """OER: a BIT STRING of 33..56 bits is kept in a uint64_t and written as 8 octets (value_length() knows 1, 2, 3,
    4 and 8), the Python codec writes ceil(n / 8) octets."""
    if f.get('codec') != 'oer' or f['kind'] not in ENC_DEC + ('v2-decode-failed', 'v2-decode-mismatch'):
        return False
    return only(f, lambda l: l.kind == 'BITSTRING' and l.size is not None and l.size.lo() == l.size.hi()
                and 33 <= l.size.lo() <= 56, allow_cho_ext=True, allow_adds=f['kind'].startswith('v2-'),
                defaults=lambda m: True)


def oer_fixed_sequence_of_256(f):
    """OER: a fixed-size SEQUENCE OF with 256 or more elements is encoded with a two-octet quantity, but the decoder
    for fixed sizes insists on a one-octet quantity (number_of_length_bytes != 1 -> EBADLENGTH)."""
    if f.get('codec') != 'oer' or f['kind'] not in ('decode-failed', 'redecode-failed', 'v2-decode-failed'):
        return False
    t, env = _term(f)
    if t is None:
        return False
    return any(isinstance(n, Of) and n.size is not None and n.size.lo() == n.size.hi() and n.size.lo() >= 256
               for n in nodes(t, env)) and all(plain_leaf(l) for l in leaves(t, env))
