"""ref_per: an independent executable model of ITU-T X.691 (PER), clauses 10-30,
for the ALIGNED (asn1tools codec 'per') and UNALIGNED ('uper') BASIC variants.

Driven only by the framework's own term AST (mc/terms.py); nothing here imports
asn1tools.  Clause numbers are those of X.691 (2002); later editions add one.

Interface
---------
encodings(term, value, env, tags, ext_implied, aligned, numeric=False)
    -> [(bytes, policy)]   every admissible complete encoding, the preferred one first
encode(...)  -> [bytes]    the same without the policies
decode(term, data, env, tags, ext_implied, aligned, numeric=False, policy=None) -> value
decodings(term, data, ...) -> [(value, policy)] one entry per policy under which `data` decodes completely
selftest()   -> number of vectors replayed (raises on the first mismatch)

Rules whose wording could not be reconstructed with certainty are *unasserted*:
they are switches of a `policy`; the encoder is run under every combination of
the switches it actually consulted and all results are admissible.  LEDGER maps
every rule to vector / certain / unasserted.
"""

import math
import struct

from .terms import (Leaf, Seq, Cho, Of, Ref, Tag, M, Grp, Rng, MIN, MAX, KNOWN_MULT, TIME_KINDS,
                    all_members, resolve, enum_numbers)
from . import tagging
from . import absval

K16 = 16384
K64 = 65536


class NotInType(Exception):
    """The value is not a (complete) value of the type; the model has nothing to say."""


class Unsupported(Exception):
    """The model deliberately does not cover this type (left out of the asserted alphabet)."""


class ModelDecodeError(Exception):
    pass


# ---------------------------------------------------------------------------
# the rule ledger

LEDGER = {
    'complete-encoding (10.1): pad to octets; an empty outermost encoding is one zero octet':
        'certain',
    'open type (10.2): complete encoding of the value, as octets behind an unconstrained length':
        'vector (A.3, A.4)',
    'constrained whole number UNALIGNED (10.5.6): ceil(log2(range)) bits; range 1 -> no bits':
        'vector (A.1-A.4 unaligned)',
    'constrained whole number ALIGNED (10.5.7): range<=255 bit-field; 256 one aligned octet; <=64K two aligned octets':
        'vector (repository test_per J/F/G, A.3 children count)',
    'constrained whole number ALIGNED, range > 64K (10.5.7.4, 12.2.6): octet count L as constrained number 1..octets(ub-lb), '
    'then aligned minimal octets':
        'certain (repository vectors I, P, Q, R of test_per.test_integer)',
    'normally small non-negative whole number (10.6): 0+6 bits for n<=63; else 1 + semi-constrained number with length':
        'certain',
    'normally small number/length > 63/64 in ALIGNED: the length octet and the value octets are octet-aligned (10.9.3.6, 10.7)':
        'certain',
    'semi-constrained whole number (10.7, 12.2.3): n-lb as unsigned minimal octets behind an unconstrained length':
        'certain',
    'unconstrained whole number (10.8, 12.2.4): two\'s complement minimal octets behind a length':
        'vector (A.1 number)',
    'length determinant (10.9.3.5-8): 0xxxxxxx / 10xxxxxx xxxxxxxx / 11000mmm fragments of m*16K (m largest <=4), '
    'terminated by a length < 16K (possibly 0); octet-aligned in ALIGNED':
        'vector (A.1) / certain (repository IA5String 16383/16384/16385)',
    'constrained length (10.9.3.3/10.9.4.1): ub<64K -> constrained whole number, lb==ub -> absent; ub>=64K or unset -> unconstrained form of n':
        'vector (A.2, A.3)',
    'normally small length (10.9.3.4): 0 + 6 bits of n-1 for n<=64; else 1 + unconstrained length':
        'vector (A.3, A.4 n=1) / certain',
    'BOOLEAN one bit (11); NULL no bits (17)': 'vector (A.4) / certain',
    'INTEGER (12): extension bit; root value as constrained/semi-constrained/unconstrained; non-root value unconstrained; single value no bits':
        'vector (A.3 number, repository M)',
    'ENUMERATED (13): root sorted by value, index as constrained whole number; extension bit; additions in definition order as normally small number':
        'vector (A.3 sex) / certain',
    'REAL (14), OBJECT IDENTIFIER (23): unconstrained length + X.690 contents octets (REAL per DER 11.3: base 2, odd mantissa, fewest octets)':
        'certain (repository vectors)',
    'BIT STRING (15): named bits -> trailing zero bits removed then padded to lb; ub=0 nothing; fixed<=16 packed; fixed 17..<64K aligned no length; '
    'else length then bits (aligned in ALIGNED); extensible: bit, non-root as unconstrained':
        'certain (repository vectors)',
    'OCTET STRING (16): fixed 0 nothing; fixed<=2 packed; fixed <64K aligned no length; else length then octets (aligned); extensible like BIT STRING':
        'certain (repository vectors)',
    'SEQUENCE (18): extension bit, preamble bit per OPTIONAL/DEFAULT root component in textual order, components, '
    'then normally-small count = number of additions defined, presence bitmap, each present addition as an open type':
        'vector (A.2-A.4)',
    'addition group [[...]]: one SEQUENCE-valued addition, absent when none of its components is present':
        'vector (A.4)',
    'DEFAULT (18.5): a root component of a simple type equal to its default is absent':
        'certain',
    'DEFAULT of a structured type equal to its default: encoder\'s option in BASIC-PER':
        'unasserted (default-structured)',
    'DEFAULT extension addition equal to its default: present or absent':
        'unasserted (addition-default)',
    'addition group whose only present components are DEFAULT ones at their default: present or absent':
        'unasserted (group-all-default)',
    'SET (20): root components in canonical tag order (X.680 8.6), additions in textual order': 'vector (A.1) / certain',
    'SEQUENCE OF / SET OF (19, 21): count as constrained length, extension bit for extensible SIZE, elements': 'vector (A.1, A.3)',
    'CHOICE (22): root alternatives indexed in canonical tag order, single alternative no index; extension bit; '
    'addition: normally small index in definition order + open type':
        'vector (A.4) / certain (22.2)',
    'canonical tag order: UNIVERSAL < APPLICATION < context < PRIVATE, then number; untagged CHOICE sorts by its smallest tag; '
    'AUTOMATIC TAGS numbers components 0.. in textual order when none is tagged':
        'certain',
    'known-multiplier strings (27.5): N chars in the effective alphabet, B=ceil(log2 N), ALIGNED b=next power of two; '
    'value as-is when the largest character value <= 2^b-1 else index in the sorted alphabet':
        'vector (A.2, A.3; repository NumericString / VisibleString)',
    'known-multiplier fixed size (27.5.6): no length; aub*b<=16 packed, else aligned':
        'vector (A.2 initial, A.4 g; repository VisibleString D/E/F)',
    'known-multiplier variable size (27.5.7): length; aub*b<16 packed, >16 aligned':
        'certain (repository vectors for >16)',
    'known-multiplier variable size with aub*b == 16 exactly: aligned or packed':
        'unasserted (kms-var-16)',
    'padding before a zero-length octet-aligned field behind a constrained length in ALIGNED (BIT STRING, OCTET STRING, strings)':
        'unasserted (zero-len-pad:<kind>)',
    'extensible SIZE with a permitted alphabet, value outside the root: characters in the constrained or the full alphabet':
        'unasserted (kms-ext-alpha)',
    'UniversalString 32 bits, BMPString 16 bits per character, known-multiplier rules apply': 'certain',
    'UTF8String, GeneralString, GraphicString, TeletexString, ObjectDescriptor (27.6): unconstrained length + octets; SIZE/FROM not visible':
        'certain (repository vectors)',
    'EXTENSIBILITY IMPLIED adds a marker to every SEQUENCE, SET, CHOICE of the module wherever it occurs': 'certain (X.680 12.4)',
    'EXTENSIBILITY IMPLIED makes ENUMERATED extensible': 'unasserted (enum-ext-implied)',
    'UTCTime, GeneralizedTime, DATE, TIME-OF-DAY, DATE-TIME': 'not modelled (left out of the asserted alphabet)',
}

# switches: name -> admissible options, preferred first
SWITCHES = {
    'default-structured': ('omit', 'encode'),
    'addition-default': ('encode', 'omit'),
    'group-all-default': ('absent', 'present'),
    'kms-var-16': ('aligned', 'packed'),
    'zero-len-pad:BITSTRING': (False, True),
    'zero-len-pad:OCTETSTRING': (False, True),
    'zero-len-pad:STRING': (False, True),
    'kms-ext-alpha': ('constrained', 'full'),
    'enum-ext-implied': (True, False),
}


class Policy:
    def __init__(self, fixed=None):
        self.fixed = dict(fixed or {})
        self.used = {}

    def get(self, name):
        v = self.fixed.get(name, SWITCHES[name][0])
        self.used[name] = v
        return v


# ---------------------------------------------------------------------------
# bit writer / reader

class Writer:
    def __init__(self, aligned):
        self.aligned = aligned
        self.buf = bytearray()
        self.acc = 0          # pending bits (fewer than 8 after every call)
        self.nacc = 0

    def nbits(self):
        return 8 * len(self.buf) + self.nacc

    def bits(self, v, n):
        if n == 0:
            return
        if v < 0 or v >> n:
            raise AssertionError('value %d does not fit %d bits' % (v, n))
        acc = (self.acc << n) | v
        tot = self.nacc + n
        rem = tot & 7
        if tot >= 8:
            self.buf += (acc >> rem).to_bytes(tot >> 3, 'big')
        self.acc = acc & ((1 << rem) - 1)
        self.nacc = rem

    def bit(self, b):
        self.bits(1 if b else 0, 1)

    def octets(self, data):
        if not data:
            return
        if self.nacc == 0:
            self.buf += data
        else:
            self.bits(int.from_bytes(data, 'big'), 8 * len(data))

    def bitstr(self, data, nbits):
        """The first nbits bits of data."""
        if nbits == 0:
            return
        nb = (nbits + 7) // 8
        v = int.from_bytes(bytes(data[:nb]), 'big') >> (8 * nb - nbits)
        self.bits(v, nbits)

    def align(self):
        if self.aligned and self.nacc:
            self.bits(0, 8 - self.nacc)

    def complete(self):
        """10.1: the complete encoding, a whole number of octets, at least one."""
        if self.nacc:
            self.bits(0, 8 - self.nacc)
        return bytes(self.buf) if self.buf else b'\x00'


class Reader:
    def __init__(self, data, aligned):
        self.data = bytes(data)
        self.aligned = aligned
        self.pos = 0
        self.end = 8 * len(self.data)

    def bits(self, n):
        if n == 0:
            return 0
        if self.pos + n > self.end:
            raise ModelDecodeError('out of data')
        a = self.pos >> 3
        b = (self.pos + n + 7) >> 3
        v = int.from_bytes(self.data[a:b], 'big')
        v >>= (8 * b - (self.pos + n))
        v &= (1 << n) - 1
        self.pos += n
        return v

    def bit(self):
        return self.bits(1)

    def octets(self, n):
        if self.pos & 7 == 0:
            if self.pos + 8 * n > self.end:
                raise ModelDecodeError('out of data')
            a = self.pos >> 3
            self.pos += 8 * n
            return self.data[a:a + n]
        return self.bits(8 * n).to_bytes(n, 'big') if n else b''

    def align(self):
        if self.aligned and self.pos & 7:
            pad = 8 - (self.pos & 7)
            if self.bits(pad):
                raise ModelDecodeError('non-zero padding bits')

    def finish(self):
        """The complete encoding must be exactly the bits read plus zero padding
        to the octet boundary; an empty encoding is one zero octet."""
        if self.pos == 0:
            if self.data != b'\x00':
                raise ModelDecodeError('empty encoding must be one zero octet')
            return
        rest = self.end - self.pos
        if rest >= 8:
            raise ModelDecodeError('%d trailing octets' % (rest // 8))
        if rest and self.bits(rest):
            raise ModelDecodeError('non-zero trailing padding')


# ---------------------------------------------------------------------------
# X.690 contents octets for REAL and OBJECT IDENTIFIER (own implementation)

def real_contents(x):
    x = float(x)
    if x != x:
        raise Unsupported('NaN')
    if x == 0.0:
        return b''
    if x == float('inf'):
        return b'\x40'
    if x == float('-inf'):
        return b'\x41'
    neg = x < 0
    m, e = math.frexp(abs(x))          # abs(x) = m * 2**e, 0.5 <= m < 1
    mant = int(m * (1 << 53))
    exp = e - 53
    while mant & 1 == 0:
        mant >>= 1
        exp += 1
    mo = mant.to_bytes((mant.bit_length() + 7) // 8, 'big')
    n = 1
    while not (-(1 << (8 * n - 1)) <= exp < (1 << (8 * n - 1))):
        n += 1
    eo = (exp & ((1 << (8 * n)) - 1)).to_bytes(n, 'big')
    first = 0x80 | (0x40 if neg else 0)
    if n <= 3:
        return bytes([first | (n - 1)]) + eo + mo
    return bytes([first | 3, n]) + eo + mo


def real_from_contents(c):
    if not c:
        return 0.0
    f = c[0]
    if f == 0x40:
        return float('inf')
    if f == 0x41:
        return float('-inf')
    if not f & 0x80:
        raise ModelDecodeError('REAL: not a binary encoding')
    if f & 0x3c:
        raise ModelDecodeError('REAL: base/scale not DER')
    el = f & 3
    if el == 3:
        n = c[1]
        off = 2
    else:
        n = el + 1
        off = 1
    exp = int.from_bytes(c[off:off + n], 'big', signed=True)
    mant = int.from_bytes(c[off + n:], 'big')
    try:
        v = math.ldexp(mant, exp)
    except OverflowError:
        raise ModelDecodeError('REAL overflow')
    return -v if f & 0x40 else v


def oid_contents(s):
    try:
        arcs = [int(a) for a in s.split('.')]
    except ValueError:
        raise NotInType('oid')
    if len(arcs) < 2 or arcs[0] > 2 or (arcs[0] < 2 and arcs[1] > 39) or min(arcs) < 0:
        raise NotInType('oid arcs')
    subs = [40 * arcs[0] + arcs[1]] + arcs[2:]
    out = bytearray()
    for a in subs:
        grp = [a & 0x7f]
        a >>= 7
        while a:
            grp.append(0x80 | (a & 0x7f))
            a >>= 7
        out += bytes(reversed(grp))
    return bytes(out)


def oid_from_contents(c):
    subs = []
    a = 0
    started = False
    for i, b in enumerate(c):
        if not started and b == 0x80:
            raise ModelDecodeError('OID: leading 0x80')
        started = True
        a = (a << 7) | (b & 0x7f)
        if not b & 0x80:
            subs.append(a)
            a = 0
            started = False
    if started or not subs:
        raise ModelDecodeError('OID: truncated')
    f = subs[0]
    if f < 40:
        arcs = [0, f]
    elif f < 80:
        arcs = [1, f - 40]
    else:
        arcs = [2, f - 80]
    return '.'.join(str(x) for x in arcs + subs[1:])


# ---------------------------------------------------------------------------
# tags and canonical order

def canon_key(t, env):
    """Sort key of the tag a type presents (an untagged CHOICE: its smallest tag)."""
    tags = tagging.outer_tags(t, env) - {tagging.ANY}
    if not tags:
        raise Unsupported('no tag')
    return min((tagging.CLASS_ORDER[c], n) for c, n in tags)


def member_keys(constructor, members, ctx):
    """Canonical-order keys of `members` (a subset of all_members(constructor))."""
    if tagging.auto_tagged(constructor, ctx.tags):
        # AUTOMATIC TAGS: context tags in textual order (root components keep their
        # relative order whichever way additions are numbered)
        order = {m.name: i for i, m in enumerate(all_members(constructor))}
        return [(2, order[m.name]) for m in members]
    return [canon_key(m.t, ctx.env) for m in members]


def canonical(constructor, members, ctx):
    keys = member_keys(constructor, members, ctx)
    if len(set(keys)) != len(keys):
        raise Unsupported('components with equal tags')
    return [m for _, m in sorted(zip(keys, members), key=lambda km: km[0])]


# ---------------------------------------------------------------------------
# character strings

NUMERIC = ' 0123456789'
PRINTABLE = ("ABCDEFGHIJKLMNOPQRSTUVWXYZabcdefghijklmnopqrstuvwxyz0123456789 '()+,-./:=?")
OCTET_STRINGS = {'UTF8String': 'utf-8', 'GeneralString': 'ascii', 'GraphicString': 'ascii',
                 'TeletexString': 'ascii', 'ObjectDescriptor': 'ascii'}


class Alphabet:
    """Effective permitted alphabet of a known-multiplier string type (27.5.2-27.5.4)."""

    def __init__(self, kind, alpha, aligned):
        if alpha is not None:
            chars = sorted(set(alpha))
            self.n = len(chars)
            self.maxv = ord(chars[-1])
            self.chars = chars
        elif kind == 'NumericString':
            self.chars = sorted(NUMERIC)
            self.n, self.maxv = 11, ord('9')
        elif kind == 'PrintableString':
            self.chars = sorted(PRINTABLE)
            self.n, self.maxv = 74, ord('z')
        elif kind == 'VisibleString':
            self.chars = None
            self.lo, self.n, self.maxv = 32, 95, 126
        elif kind == 'IA5String':
            self.chars = None
            self.lo, self.n, self.maxv = 0, 128, 127
        elif kind == 'BMPString':
            self.chars = None
            self.lo, self.n, self.maxv = 0, 65536, 65535
        elif kind == 'UniversalString':
            self.chars = None
            self.lo, self.n, self.maxv = 0, 1 << 32, (1 << 32) - 1
        else:
            raise Unsupported(kind)
        self.charset = set(self.chars) if self.chars is not None else None
        B = (self.n - 1).bit_length()
        if aligned:
            b = 1
            while b < B:
                b <<= 1
            b = b if B else 0
        else:
            b = B
        self.b = b
        self.asis = self.maxv <= (1 << b) - 1
        if not self.asis:
            if self.chars is None:
                raise AssertionError('full range alphabets are never re-indexed')
            self.index = {c: i for i, c in enumerate(self.chars)}

    def code(self, ch):
        if self.chars is not None:
            if ch not in self.charset:
                raise NotInType('character %r not permitted' % ch)
        else:
            if not (self.lo <= ord(ch) <= self.maxv):
                raise NotInType('character %r not in the type' % ch)
        return ord(ch) if self.asis else self.index[ch]

    def char(self, code):
        if self.asis:
            ch = chr(code)
            if self.chars is not None:
                if ch not in self.charset:
                    raise ModelDecodeError('character value %d not permitted' % code)
            elif not (self.lo <= code <= self.maxv):
                raise ModelDecodeError('character value %d not in the type' % code)
            return ch
        if code >= self.n:
            raise ModelDecodeError('character index %d out of range' % code)
        return self.chars[code]


# ---------------------------------------------------------------------------
# the encoder

class Ctx:
    def __init__(self, env, tags, ext_implied, aligned, numeric, pol):
        self.env = env
        self.tags = tags
        self.ei = ext_implied
        self.aligned = aligned
        self.numeric = numeric
        self.pol = pol


def octets_for(v):
    return max(1, (v.bit_length() + 7) // 8)


def put_cwn(w, n, lb, ub):
    """10.5 constrained whole number."""
    if not (lb <= n <= ub):
        raise NotInType('%d not in %d..%d' % (n, lb, ub))
    rng = ub - lb + 1
    v = n - lb
    if rng == 1:
        return
    if not w.aligned:
        w.bits(v, (rng - 1).bit_length())
    elif rng <= 255:
        w.bits(v, (rng - 1).bit_length())
    elif rng == 256:
        w.align()
        w.bits(v, 8)
    elif rng <= K64:
        w.align()
        w.bits(v, 16)
    else:
        maxoct = octets_for(ub - lb)
        noct = octets_for(v)
        put_cwn(w, noct, 1, maxoct)
        w.align()
        w.bits(v, 8 * noct)


def get_cwn(r, lb, ub):
    rng = ub - lb + 1
    if rng == 1:
        return lb
    if not r.aligned or rng <= 255:
        v = r.bits((rng - 1).bit_length())
    elif rng == 256:
        r.align()
        v = r.bits(8)
    elif rng <= K64:
        r.align()
        v = r.bits(16)
    else:
        noct = get_cwn(r, 1, octets_for(ub - lb))
        r.align()
        v = r.bits(8 * noct)
        if noct != octets_for(v):
            raise ModelDecodeError('constrained whole number not in minimal octets')
    if v > ub - lb:
        raise ModelDecodeError('constrained whole number %d out of range' % v)
    return v + lb


def put_length(w, n, put_items):
    """10.9.3.5-10.9.3.8 unconstrained length with 16K fragmentation.
    put_items(offset, count) appends the items [offset, offset+count)."""
    off = 0
    while True:
        rest = n - off
        w.align()
        if rest >= K16:
            m = min(rest // K16, 4)
            w.bits(0xC0 | m, 8)
            put_items(off, m * K16)
            off += m * K16
            continue
        if rest < 128:
            w.bits(rest, 8)
        else:
            w.bits(0x8000 | rest, 16)
        put_items(off, rest)
        return


def get_length(r, get_items):
    """Inverse of put_length: get_items(count) reads `count` items. Returns the total."""
    total = 0
    while True:
        r.align()
        o = r.bits(8)
        if o & 0x80 == 0:
            get_items(o)
            return total + o
        if o & 0xC0 == 0x80:
            n = ((o & 0x3f) << 8) | r.bits(8)
            if n < 128:
                raise ModelDecodeError('two-octet length for n < 128')
            get_items(n)
            return total + n
        m = o & 0x3f
        if not 1 <= m <= 4:
            raise ModelDecodeError('bad fragment multiplier')
        get_items(m * K16)
        total += m * K16


def put_semi(w, n, lb):
    """10.7 semi-constrained whole number with its length."""
    if n < lb:
        raise NotInType('%d < %d' % (n, lb))
    v = n - lb
    noct = octets_for(v)
    put_length(w, noct, lambda off, c: w.octets(v.to_bytes(noct, 'big')[off:off + c]))


def get_semi(r, lb):
    parts = []
    get_length(r, lambda c: parts.append(r.octets(c)))
    data = b''.join(parts)
    if not data:
        raise ModelDecodeError('zero-length whole number')
    v = int.from_bytes(data, 'big')
    if len(data) != octets_for(v):
        raise ModelDecodeError('semi-constrained number not minimal')
    return v + lb


def put_unconstrained(w, n):
    """10.8 two's complement, minimal octets, with length."""
    noct = 1
    while not (-(1 << (8 * noct - 1)) <= n < (1 << (8 * noct - 1))):
        noct += 1
    data = (n & ((1 << (8 * noct)) - 1)).to_bytes(noct, 'big')
    put_length(w, noct, lambda off, c: w.octets(data[off:off + c]))


def get_unconstrained(r):
    parts = []
    get_length(r, lambda c: parts.append(r.octets(c)))
    data = b''.join(parts)
    if not data:
        raise ModelDecodeError('zero-length whole number')
    v = int.from_bytes(data, 'big', signed=True)
    if len(data) > 1 and ((data[0] == 0 and data[1] < 0x80) or (data[0] == 0xff and data[1] >= 0x80)):
        raise ModelDecodeError('unconstrained number not minimal')
    return v


def put_small(w, n):
    """10.6 normally small non-negative whole number."""
    if n <= 63:
        w.bit(0)
        w.bits(n, 6)
    else:
        w.bit(1)
        put_semi(w, n, 0)


def get_small(r):
    if r.bit() == 0:
        return r.bits(6)
    n = get_semi(r, 0)
    if n <= 63:
        raise ModelDecodeError('normally small number in long form')
    return n


def put_small_length(w, n):
    """10.9.3.4 normally small length (n >= 1)."""
    if n <= 64:
        w.bit(0)
        w.bits(n - 1, 6)
    else:
        if n >= K16:
            raise Unsupported('more than 16K extension additions')
        w.bit(1)
        put_length(w, n, lambda off, c: None)


def get_small_length(r):
    if r.bit() == 0:
        return r.bits(6) + 1
    n = get_length(r, lambda c: None)
    return n


def size_bounds(size):
    """(lb, ub|None, ext) of an effective size constraint."""
    if size is None:
        return 0, None, False
    lb = size.lo() or 0
    ub = size.hi()
    return lb, ub, size.ext


def open_type(w, ctx, fn):
    """10.2: fn(sub-writer) produces the value; its complete encoding is carried
    as octets behind an unconstrained length."""
    sw = Writer(ctx.aligned)
    fn(sw)
    data = sw.complete()
    put_length(w, len(data), lambda off, c: w.octets(data[off:off + c]))


def read_open_type(r, ctx, fn):
    parts = []
    get_length(r, lambda c: parts.append(r.octets(c)))
    data = b''.join(parts)
    sr = Reader(data, ctx.aligned)
    v = fn(sr)
    sr.finish()
    return v


def is_structured(t, env):
    return isinstance(resolve(t, env), (Seq, Cho, Of))


def values_equal(t, a, b, ctx):
    try:
        return absval.norm(t, a, ctx.env, ctx.numeric) == absval.norm(t, b, ctx.env, ctx.numeric)
    except (ValueError, TypeError, KeyError, AttributeError):
        return False


def default_of(m, ctx):
    if ctx.numeric:
        from .values import to_numeric
        return to_numeric(m.t, m.default, ctx.env)
    return m.default


def enc(t, v, w, ctx):
    if isinstance(t, Ref):
        return enc(ctx.env[t.name], v, w, ctx)
    if isinstance(t, Tag):
        return enc(t.inner, v, w, ctx)
    if isinstance(t, Leaf):
        return enc_leaf(t, v, w, ctx)
    if isinstance(t, Seq):
        return enc_seq(t, v, w, ctx)
    if isinstance(t, Cho):
        return enc_cho(t, v, w, ctx)
    if isinstance(t, Of):
        return enc_of(t, v, w, ctx)
    raise TypeError(t)


# ---- SEQUENCE / SET -------------------------------------------------------

def component_state(m, v, ctx, where):
    """'absent' | 'present' for component m of value dict v.  where: 'root' | 'group' | 'addition'."""
    if m.name not in v:
        if m.q == 'M' and where != 'addition':
            raise NotInType('mandatory component %s missing' % m.name)
        return 'absent'
    if m.q == 'D' and values_equal(m.t, v[m.name], default_of(m, ctx), ctx):
        if where == 'addition':
            return 'present' if ctx.pol.get('addition-default') == 'encode' else 'absent'
        if is_structured(m.t, ctx.env):
            return 'present' if ctx.pol.get('default-structured') == 'encode' else 'absent'
        return 'absent'
    return 'present'


def enc_components(members, v, w, ctx, where):
    states = [component_state(m, v, ctx, where) for m in members]
    for m, s in zip(members, states):
        if m.q in ('O', 'D'):
            w.bit(s == 'present')
    for m, s in zip(members, states):
        if s == 'present':
            enc(m.t, v[m.name], w, ctx)
    return states


def check_dict(t, v):
    if not isinstance(v, dict):
        raise NotInType('SEQUENCE value must be a dict')
    extra = set(v) - {m.name for m in all_members(t)}
    if extra:
        raise NotInType('unknown components %s' % sorted(extra))


def enc_seq(t, v, w, ctx):
    check_dict(t, v)
    ext = t.ext or ctx.ei
    root = list(t.root) + list(t.root2)
    if t.is_set:
        root = canonical(t, root, ctx)
    if not ext:
        enc_components(root, v, w, ctx, 'root')
        return
    # which additions are present
    adds = []          # (addition, encoder function | None)
    for a in t.adds:
        if isinstance(a, Grp):
            named = [m for m in a.members if m.name in v]
            if not named:
                adds.append((a, None))
                continue
            states = [component_state(m, v, ctx, 'group') for m in a.members]
            if 'present' not in states and ctx.pol.get('group-all-default') == 'absent':
                adds.append((a, None))
                continue
            adds.append((a, (lambda sw, a=a: enc_components(list(a.members), v, sw, ctx, 'group'))))
        else:
            s = component_state(a, v, ctx, 'addition')
            if s == 'present':
                adds.append((a, (lambda sw, a=a: enc(a.t, v[a.name], sw, ctx))))
            else:
                adds.append((a, None))
    any_present = any(f is not None for _, f in adds)
    w.bit(any_present)
    enc_components(root, v, w, ctx, 'root')
    if any_present:
        put_small_length(w, len(adds))
        for _, f in adds:
            w.bit(f is not None)
        for _, f in adds:
            if f is not None:
                open_type(w, ctx, f)


def dec_components(members, r, ctx, out):
    present = []
    for m in members:
        if m.q in ('O', 'D'):
            present.append(bool(r.bit()))
        else:
            present.append(True)
    for m, p in zip(members, present):
        if p:
            out[m.name] = dec(m.t, r, ctx)
        elif m.q == 'D':
            out[m.name] = default_of(m, ctx)


def dec_seq(t, r, ctx):
    ext = t.ext or ctx.ei
    root = list(t.root) + list(t.root2)
    if t.is_set:
        root = canonical(t, root, ctx)
    out = {}
    extbit = r.bit() if ext else 0
    dec_components(root, r, ctx, out)
    if extbit:
        n = get_small_length(r)
        if n != len(t.adds):
            raise ModelDecodeError('bitmap of %d bits for %d additions' % (n, len(t.adds)))
        bitmap = [r.bit() for _ in range(n)]
        if not any(bitmap):
            raise ModelDecodeError('extension bit set without additions')
        for a, p in zip(t.adds, bitmap):
            if isinstance(a, Grp):
                if p:
                    read_open_type(r, ctx, lambda sr, a=a: dec_components(list(a.members), sr, ctx, out))
                else:
                    for m in a.members:
                        if m.q == 'D':
                            out[m.name] = default_of(m, ctx)
            elif p:
                out[a.name] = read_open_type(r, ctx, lambda sr, a=a: dec(a.t, sr, ctx))
            elif a.q == 'D':
                out[a.name] = default_of(a, ctx)
    elif ext:
        for a in t.adds:
            for m in (a.members if isinstance(a, Grp) else (a,)):
                if m.q == 'D':
                    out[m.name] = default_of(m, ctx)
    # restore textual order of keys
    order = {m.name: i for i, m in enumerate(all_members(t))}
    return {k: out[k] for k in sorted(out, key=lambda k: order[k])}


# ---- CHOICE ----------------------------------------------------------------

def cho_parts(t, ctx):
    root = canonical(t, list(t.root), ctx) if len(t.root) > 1 else list(t.root)
    adds = []
    for a in t.adds:
        adds.extend(a.members if isinstance(a, Grp) else (a,))
    return root, adds


def enc_cho(t, v, w, ctx):
    if not (isinstance(v, tuple) and len(v) == 2):
        raise NotInType('CHOICE value must be a pair')
    name, val = v
    ext = t.ext or ctx.ei
    root, adds = cho_parts(t, ctx)
    for i, m in enumerate(root):
        if m.name == name:
            if ext:
                w.bit(0)
            put_cwn(w, i, 0, len(root) - 1)
            enc(m.t, val, w, ctx)
            return
    for i, m in enumerate(adds):
        if m.name == name:
            w.bit(1)
            put_small(w, i)
            open_type(w, ctx, lambda sw: enc(m.t, val, sw, ctx))
            return
    raise NotInType('no alternative %r' % (name,))


def dec_cho(t, r, ctx):
    ext = t.ext or ctx.ei
    root, adds = cho_parts(t, ctx)
    if ext and r.bit():
        i = get_small(r)
        if i >= len(adds):
            raise ModelDecodeError('unknown CHOICE addition %d' % i)
        m = adds[i]
        return (m.name, read_open_type(r, ctx, lambda sr: dec(m.t, sr, ctx)))
    i = get_cwn(r, 0, len(root) - 1)
    m = root[i]
    return (m.name, dec(m.t, r, ctx))


# ---- SEQUENCE OF / SET OF --------------------------------------------------

def enc_of(t, v, w, ctx):
    if not isinstance(v, list):
        raise NotInType('SEQUENCE OF value must be a list')
    n = len(v)
    lb, ub, ext = size_bounds(t.size)

    def items(off, c):
        for x in v[off:off + c]:
            enc(t.elem, x, w, ctx)

    inroot = lb <= n and (ub is None or n <= ub)
    if ext:
        w.bit(not inroot)
        if not inroot:
            put_length(w, n, items)
            return
    elif not inroot:
        raise NotInType('size %d' % n)
    if ub is not None and ub < K64:
        put_cwn(w, n, lb, ub)
        items(0, n)
    else:
        put_length(w, n, items)


def dec_of(t, r, ctx):
    lb, ub, ext = size_bounds(t.size)
    out = []

    def items(c):
        for _ in range(c):
            out.append(dec(t.elem, r, ctx))

    if ext and r.bit():
        n = get_length(r, items)
        if lb <= n and (ub is None or n <= ub):
            raise ModelDecodeError('root size encoded as extension')
        return out
    if ub is not None and ub < K64:
        items(get_cwn(r, lb, ub))
    else:
        n = get_length(r, items)
        if n < lb or (ub is not None and n > ub):
            raise ModelDecodeError('size %d out of bounds' % n)
    return out


# ---- leaves ---------------------------------------------------------------

def enum_tables(l, ctx):
    root, adds = enum_numbers(l)
    root = sorted(root, key=lambda nv: nv[1])
    ext = adds is not None
    if not ext and ctx.ei and ctx.pol.get('enum-ext-implied'):
        ext, adds = True, []
    return root, (adds if ext else None)


def int_bounds(l):
    if l.rng is None:
        return None, None, False
    return l.rng.lo(), l.rng.hi(), l.rng.ext


def enc_leaf(l, v, w, ctx):
    k = l.kind
    if k == 'BOOLEAN':
        if not isinstance(v, bool):
            raise NotInType('boolean')
        w.bit(v)
    elif k == 'NULL':
        if v is not None:
            raise NotInType('null')
    elif k == 'INTEGER':
        if isinstance(v, bool) or not isinstance(v, int):
            raise NotInType('integer')
        lb, ub, ext = int_bounds(l)
        inroot = (lb is None or v >= lb) and (ub is None or v <= ub)
        if ext:
            w.bit(not inroot)
            if not inroot:
                put_unconstrained(w, v)
                return
        elif not inroot:
            raise NotInType('integer out of range')
        if lb is not None and ub is not None:
            put_cwn(w, v, lb, ub)
        elif lb is not None:
            put_semi(w, v, lb)
        else:
            put_unconstrained(w, v)
    elif k == 'ENUMERATED':
        root, adds = enum_tables(l, ctx)
        col = 1 if ctx.numeric else 0
        if ctx.numeric and (isinstance(v, bool) or not isinstance(v, int)):
            raise NotInType('enumerated (numeric)')
        if not ctx.numeric and not isinstance(v, str):
            raise NotInType('enumerated')
        for i, item in enumerate(root):
            if item[col] == v:
                if adds is not None:
                    w.bit(0)
                put_cwn(w, i, 0, len(root) - 1)
                return
        for i, item in enumerate(adds or ()):
            if item[col] == v:
                w.bit(1)
                put_small(w, i)
                return
        raise NotInType('no enumeration item %r' % (v,))
    elif k == 'REAL':
        if isinstance(v, bool) or not isinstance(v, (int, float)):
            raise NotInType('real')
        data = real_contents(v)
        put_length(w, len(data), lambda off, c: w.octets(data[off:off + c]))
    elif k == 'OID':
        if not isinstance(v, str):
            raise NotInType('oid')
        data = oid_contents(v)
        put_length(w, len(data), lambda off, c: w.octets(data[off:off + c]))
    elif k == 'BITSTRING':
        enc_bitstring(l, v, w, ctx)
    elif k == 'OCTETSTRING':
        enc_octetstring(l, v, w, ctx)
    elif k in KNOWN_MULT:
        enc_kms(l, v, w, ctx)
    elif k in OCTET_STRINGS:
        if not isinstance(v, str):
            raise NotInType('string')
        try:
            data = v.encode(OCTET_STRINGS[k])
        except UnicodeEncodeError:
            raise Unsupported('non-ASCII %s' % k)
        put_length(w, len(data), lambda off, c: w.octets(data[off:off + c]))
    else:
        raise Unsupported(k)


def dec_leaf(l, r, ctx):
    k = l.kind
    if k == 'BOOLEAN':
        return bool(r.bit())
    if k == 'NULL':
        return None
    if k == 'INTEGER':
        lb, ub, ext = int_bounds(l)
        if ext and r.bit():
            v = get_unconstrained(r)
            if (lb is None or v >= lb) and (ub is None or v <= ub):
                raise ModelDecodeError('root value encoded as extension')
            return v
        if lb is not None and ub is not None:
            return get_cwn(r, lb, ub)
        if lb is not None:
            return get_semi(r, lb)
        v = get_unconstrained(r)
        if ub is not None and v > ub:
            raise ModelDecodeError('integer above upper bound')
        return v
    if k == 'ENUMERATED':
        root, adds = enum_tables(l, ctx)
        col = 1 if ctx.numeric else 0
        if adds is not None and r.bit():
            i = get_small(r)
            if i >= len(adds):
                raise ModelDecodeError('unknown enumeration addition %d' % i)
            return adds[i][col]
        return root[get_cwn(r, 0, len(root) - 1)][col]
    if k in ('REAL', 'OID') or k in OCTET_STRINGS:
        parts = []
        get_length(r, lambda c: parts.append(r.octets(c)))
        data = b''.join(parts)
        if k == 'REAL':
            return real_from_contents(data)
        if k == 'OID':
            return oid_from_contents(data)
        try:
            return data.decode(OCTET_STRINGS[k])
        except UnicodeDecodeError:
            raise ModelDecodeError('bad %s octets' % k)
    if k == 'BITSTRING':
        return dec_bitstring(l, r, ctx)
    if k == 'OCTETSTRING':
        return dec_octetstring(l, r, ctx)
    if k in KNOWN_MULT:
        return dec_kms(l, r, ctx)
    raise Unsupported(k)


def bit_value(l, v):
    """(int of the bits, number of bits) after the named-bit rules of 15.2/15.3."""
    if not (isinstance(v, tuple) and len(v) == 2 and isinstance(v[0], (bytes, bytearray))):
        raise NotInType('bit string')
    data, n = v
    if n < 0 or n > 8 * len(data):
        raise NotInType('bit string length')
    nb = (n + 7) // 8
    val = (int.from_bytes(bytes(data[:nb]), 'big') >> (8 * nb - n)) if n else 0
    if l.named:
        while n and val & 1 == 0:
            val >>= 1
            n -= 1
        lb = size_bounds(l.size)[0]
        if n < lb:
            val <<= (lb - n)
            n = lb
    return val, n


def zero_len_pad(w, n, ctx, kind):
    """Alignment of an octet-aligned field that follows a constrained length."""
    if n == 0:
        if w.aligned and ctx.pol.get('zero-len-pad:' + kind):
            w.align()
    else:
        w.align()


def zero_len_unpad(r, n, ctx, kind):
    if n == 0:
        if r.aligned and ctx.pol.get('zero-len-pad:' + kind):
            r.align()
    else:
        r.align()


def enc_bitstring(l, v, w, ctx):
    val, n = bit_value(l, v)
    lb, ub, ext = size_bounds(l.size)

    def items(off, c):
        w.bits((val >> (n - off - c)) & ((1 << c) - 1), c)

    inroot = lb <= n and (ub is None or n <= ub)
    if ext:
        w.bit(not inroot)
        if not inroot:
            put_length(w, n, items)
            return
    elif not inroot:
        raise NotInType('bit string size %d' % n)
    if ub is not None and ub < K64:
        if ub == 0:
            return
        if lb == ub:
            if ub > 16:
                w.align()
            items(0, n)
        else:
            put_cwn(w, n, lb, ub)
            zero_len_pad(w, n, ctx, 'BITSTRING')
            items(0, n)
    else:
        put_length(w, n, items)


def dec_bitstring(l, r, ctx):
    lb, ub, ext = size_bounds(l.size)
    acc = [0, 0]

    def items(c):
        acc[0] = (acc[0] << c) | r.bits(c)
        acc[1] += c

    done = False
    if ext and r.bit():
        n = get_length(r, items)
        if lb <= n and (ub is None or n <= ub):
            raise ModelDecodeError('root size encoded as extension')
        done = True
    if not done:
        if ub is not None and ub < K64:
            if ub == 0:
                pass
            elif lb == ub:
                if ub > 16:
                    r.align()
                items(ub)
            else:
                n = get_cwn(r, lb, ub)
                zero_len_unpad(r, n, ctx, 'BITSTRING')
                items(n)
        else:
            n = get_length(r, items)
            if n < lb or (ub is not None and n > ub):
                raise ModelDecodeError('size out of bounds')
    val, n = acc
    nb = (n + 7) // 8
    return ((val << (8 * nb - n)).to_bytes(nb, 'big'), n)


def enc_octetstring(l, v, w, ctx):
    if not isinstance(v, (bytes, bytearray)):
        raise NotInType('octet string')
    v = bytes(v)
    n = len(v)
    lb, ub, ext = size_bounds(l.size)

    def items(off, c):
        w.octets(v[off:off + c])

    inroot = lb <= n and (ub is None or n <= ub)
    if ext:
        w.bit(not inroot)
        if not inroot:
            put_length(w, n, items)
            return
    elif not inroot:
        raise NotInType('octet string size %d' % n)
    if ub is not None and ub < K64:
        if ub == 0:
            return
        if lb == ub:
            if ub > 2:
                w.align()
            items(0, n)
        else:
            put_cwn(w, n, lb, ub)
            zero_len_pad(w, n, ctx, 'OCTETSTRING')
            items(0, n)
    else:
        put_length(w, n, items)


def dec_octetstring(l, r, ctx):
    lb, ub, ext = size_bounds(l.size)
    parts = []

    def items(c):
        parts.append(r.octets(c))

    if ext and r.bit():
        n = get_length(r, items)
        if lb <= n and (ub is None or n <= ub):
            raise ModelDecodeError('root size encoded as extension')
        return b''.join(parts)
    if ub is not None and ub < K64:
        if ub == 0:
            return b''
        if lb == ub:
            if ub > 2:
                r.align()
            items(ub)
        else:
            n = get_cwn(r, lb, ub)
            zero_len_unpad(r, n, ctx, 'OCTETSTRING')
            items(n)
    else:
        n = get_length(r, items)
        if n < lb or (ub is not None and n > ub):
            raise ModelDecodeError('size out of bounds')
    return b''.join(parts)


def kms_put_chars(w, al, s):
    b = al.b
    if not s:
        return
    codes = [al.code(ch) for ch in s]
    if b == 0:
        return
    if b == 8:
        w.octets(bytes(codes))
        return
    if b in (16, 32):
        w.octets(struct.pack('>%d%s' % (len(codes), 'H' if b == 16 else 'I'), *codes))
        return
    fmt = '{:0%db}' % b
    w.bits(int(''.join([fmt.format(c) for c in codes]), 2), b * len(codes))


def kms_get_chars(r, al, n):
    b = al.b
    if b == 0:
        return al.chars[0] * n if al.chars else ''
    if n == 0:
        return ''
    if b == 8:
        codes = r.octets(n)
    elif b in (16, 32):
        codes = struct.unpack('>%d%s' % (n, 'H' if b == 16 else 'I'), r.octets(n * b // 8))
    else:
        bits = format(r.bits(n * b), '0%db' % (n * b))
        codes = [int(bits[i:i + b], 2) for i in range(0, n * b, b)]
    return ''.join([al.char(c) for c in codes])


def enc_kms(l, v, w, ctx):
    if not isinstance(v, str):
        raise NotInType('string')
    n = len(v)
    lb, ub, ext = size_bounds(l.size)
    al = Alphabet(l.kind, l.alpha, ctx.aligned)

    inroot = lb <= n and (ub is None or n <= ub)
    if ext:
        w.bit(not inroot)
        if not inroot:
            if l.alpha is not None and ctx.pol.get('kms-ext-alpha') == 'full':
                for ch in v:
                    al.code(ch)
                al = Alphabet(l.kind, None, ctx.aligned)
            put_length(w, n, lambda off, c: kms_put_chars(w, al, v[off:off + c]))
            return
    elif not inroot:
        raise NotInType('string size %d' % n)
    if ub is not None and ub < K64:
        if ub == 0:
            return
        if lb == ub:
            if ub * al.b > 16:
                w.align()
            kms_put_chars(w, al, v)
        else:
            put_cwn(w, n, lb, ub)
            bits = ub * al.b
            if bits > 16 or (bits == 16 and ctx.aligned and ctx.pol.get('kms-var-16') == 'aligned'):
                zero_len_pad(w, n, ctx, 'STRING')
            kms_put_chars(w, al, v)
    else:
        put_length(w, n, lambda off, c: kms_put_chars(w, al, v[off:off + c]))


def dec_kms(l, r, ctx):
    lb, ub, ext = size_bounds(l.size)
    al = Alphabet(l.kind, l.alpha, ctx.aligned)
    parts = []
    if ext and r.bit():
        al2 = al
        if l.alpha is not None and ctx.pol.get('kms-ext-alpha') == 'full':
            al2 = Alphabet(l.kind, None, ctx.aligned)
        n = get_length(r, lambda c: parts.append(kms_get_chars(r, al2, c)))
        if lb <= n and (ub is None or n <= ub):
            raise ModelDecodeError('root size encoded as extension')
        return ''.join(parts)
    if ub is not None and ub < K64:
        if ub == 0:
            return ''
        if lb == ub:
            if ub * al.b > 16:
                r.align()
            return kms_get_chars(r, al, ub)
        n = get_cwn(r, lb, ub)
        bits = ub * al.b
        if bits > 16 or (bits == 16 and ctx.aligned and ctx.pol.get('kms-var-16') == 'aligned'):
            zero_len_unpad(r, n, ctx, 'STRING')
        return kms_get_chars(r, al, n)
    n = get_length(r, lambda c: parts.append(kms_get_chars(r, al, c)))
    if n < lb or (ub is not None and n > ub):
        raise ModelDecodeError('size out of bounds')
    return ''.join(parts)


# ---- decoder dispatch ------------------------------------------------------

def dec(t, r, ctx):
    if isinstance(t, Ref):
        return dec(ctx.env[t.name], r, ctx)
    if isinstance(t, Tag):
        return dec(t.inner, r, ctx)
    if isinstance(t, Leaf):
        return dec_leaf(t, r, ctx)
    if isinstance(t, Seq):
        return dec_seq(t, r, ctx)
    if isinstance(t, Cho):
        return dec_cho(t, r, ctx)
    if isinstance(t, Of):
        return dec_of(t, r, ctx)
    raise TypeError(t)


# ---------------------------------------------------------------------------
# public interface

def modelled(t, env, _seen=None):
    """True when every leaf kind under t is in the asserted alphabet."""
    from .terms import has_kind
    return not has_kind(t, env, lambda s: isinstance(s, Leaf) and s.kind in TIME_KINDS)


def _encode_once(term, value, env, tags, ext_implied, aligned, numeric, fixed):
    pol = Policy(fixed)
    ctx = Ctx(env, tags, ext_implied, aligned, numeric, pol)
    w = Writer(aligned)
    enc(term, value, w, ctx)
    return w.complete(), pol.used


def encodings(term, value, env, tags='EXPLICIT', ext_implied=False, aligned=True, numeric=False):
    """All admissible complete encodings: [(bytes, policy)] — the preferred first.
    The encoder is re-run for every combination of the switches it consulted."""
    out = []
    seen_bytes = set()
    done = set()
    seen_full = set()
    todo = [{}]
    while todo:
        fixed = todo.pop(0)
        key = tuple(sorted(fixed.items()))
        if key in done:
            continue
        done.add(key)
        data, used = _encode_once(term, value, env, tags, ext_implied, aligned, numeric, fixed)
        full = tuple(sorted(used.items()))
        if full not in seen_full:
            seen_full.add(full)
            if data not in seen_bytes:
                seen_bytes.add(data)
                out.append((data, dict(used)))
        # branch on every consulted switch that is not yet pinned
        for name in used:
            if name not in fixed:
                for opt in SWITCHES[name]:
                    if opt != used[name]:
                        nf = dict(fixed)
                        nf[name] = opt
                        todo.append(nf)
        if len(done) > 4096:
            raise AssertionError('policy explosion')
    return out


def encode(term, value, env, tags='EXPLICIT', ext_implied=False, aligned=True, numeric=False):
    return [d for d, _ in encodings(term, value, env, tags, ext_implied, aligned, numeric)]


def decode(term, data, env, tags='EXPLICIT', ext_implied=False, aligned=True, numeric=False, policy=None):
    """Decode one complete encoding under one policy (default: preferred options)."""
    pol = Policy(policy)
    ctx = Ctx(env, tags, ext_implied, aligned, numeric, pol)
    r = Reader(data, aligned)
    v = dec(term, r, ctx)
    r.finish()
    return v


def decodings(term, data, env, tags='EXPLICIT', ext_implied=False, aligned=True, numeric=False):
    """[(value, policy)] for every policy under which data decodes completely."""
    out = []
    done = set()
    todo = [{}]
    while todo:
        fixed = todo.pop(0)
        key = tuple(sorted(fixed.items()))
        if key in done:
            continue
        done.add(key)
        pol = Policy(fixed)
        ctx = Ctx(env, tags, ext_implied, aligned, numeric, pol)
        r = Reader(data, aligned)
        try:
            v = dec(term, r, ctx)
            r.finish()
            ok = True
        except ModelDecodeError:
            ok = False
        used = pol.used
        done.add(tuple(sorted(used.items())))
        if ok:
            out.append((v, dict(used)))
        for name in used:
            if name not in fixed:
                for opt in SWITCHES[name]:
                    if opt != used[name]:
                        nf = dict(fixed)
                        nf[name] = opt
                        todo.append(nf)
        if len(done) > 4096:
            raise AssertionError('policy explosion')
    return out


# ---------------------------------------------------------------------------
# selftest

def load_vectors():
    import os
    import importlib.util
    p = os.path.join(os.path.dirname(os.path.abspath(__file__)), 'vectors', 'per_vectors.py')
    spec = importlib.util.spec_from_file_location('mc_vectors_per_vectors', p)
    mod = importlib.util.module_from_spec(spec)
    spec.loader.exec_module(mod)
    return mod.vectors()


def selftest():
    """Replay the X.691 Annex A examples and the frozen repository vectors
    through the encoder and the decoder, both variants.  Returns the count."""
    n = 0
    for vec in load_vectors():
        for variant, aligned in (('per', True), ('uper', False)):
            want = vec.get(variant)
            if want is None:
                continue
            want = bytes.fromhex(want)
            encs = encodings(vec['term'], vec['value'], vec['env'], vec.get('tags', 'EXPLICIT'),
                             vec.get('ext_implied', False), aligned, vec.get('numeric', False))
            if want not in [d for d, _ in encs]:
                raise AssertionError('ref_per vector %s (%s): model %s, vector %s'
                                     % (vec['id'], variant, [d.hex() for d, _ in encs][:3], want.hex()))
            pol = [p for d, p in encs if d == want][0]
            got = decode(vec['term'], want, vec['env'], vec.get('tags', 'EXPLICIT'),
                         vec.get('ext_implied', False), aligned, vec.get('numeric', False), policy=pol)
            if not absval.eq(vec['term'], got, vec['value'], vec['env'], vec.get('numeric', False)):
                raise AssertionError('ref_per vector %s (%s): decoder gave %r' % (vec['id'], variant, got))
            n += 1
    return n
