"""The program alphabet: leaf shapes (one per branch in the codecs), the reduced
member alphabet for constructors, and the layered enumeration L0 / L0c / L1 / L2 /
families.  Everything is a deterministic finite list; nothing is sampled.
"""

import itertools
from .terms import (Leaf, Rng, Seq, Cho, Of, Ref, Tag, M, Grp, MIN, MAX,
                    STRING_KINDS, KNOWN_MULT, TIME_KINDS)

R = Rng


def integer_leaves(thorough=False):
    out = [Leaf('INTEGER')]
    # ranges of every PER field-width class, starting at 0 and at an offset
    for n in [1, 2, 3, 4, 5, 8, 255, 256, 257, 65535, 65536, 65537, 2**24, 2**32, 2**32 + 1, 2**64]:
        out.append(Leaf('INTEGER', rng=R(0, n - 1)))
    for lo, hi in [(1, 1), (5, 5), (-1, 1), (10, 265), (-128, 127), (-129, 127), (-128, 128),
                   (-32768, 32767), (-32769, 32767), (-32768, 32768), (-2**31, 2**31 - 1),
                   (-2**31 - 1, 2**31 - 1), (-2**63, 2**63 - 1), (-2**63 - 1, 2**63 - 1),
                   (0, 2**32 - 1), (0, 2**64 - 1), (0, 2**64), (1, 256), (1, 65536), (-5, 10),
                   (1000, 1255), (1000, 1256), (-2**63, 2**63), (100, 70000)]:
        out.append(Leaf('INTEGER', rng=R(lo, hi)))
    out += [Leaf('INTEGER', rng=R(0, MAX)), Leaf('INTEGER', rng=R(1, MAX)), Leaf('INTEGER', rng=R(-5, MAX)),
            Leaf('INTEGER', rng=R(256, MAX)), Leaf('INTEGER', rng=R(MIN, 5)), Leaf('INTEGER', rng=R(MIN, -1)),
            Leaf('INTEGER', rng=R(MIN, MAX)),
            Leaf('INTEGER', rng=R(5, 5, single=True)), Leaf('INTEGER', rng=R(0, 0, single=True))]
    # extensible
    for lo, hi in [(0, 7), (0, 255), (0, 256), (-1, 1), (1, 1), (0, 65535), (-128, 127), (0, 2**32)]:
        out.append(Leaf('INTEGER', rng=R(lo, hi, ext=True)))
    out += [Leaf('INTEGER', rng=R(0, MAX, ext=True)), Leaf('INTEGER', rng=R(MIN, 5, ext=True)),
            Leaf('INTEGER', rng=R(5, 5, ext=True, single=True))]
    # bounds through named numbers and value references
    out += [Leaf('INTEGER', named=(('one', 1), ('ten', 10)), rng=R(1, 10, lb_sym='one', ub_sym='ten')),
            Leaf('INTEGER', named=(('one', 1), ('ten', 10))),
            Leaf('INTEGER', named=(('neg', -3), ('big', 300)), rng=R(-3, 300, lb_sym='neg', ub_sym='big', ext=True)),
            Leaf('INTEGER', rng=R(0, 7, ub_sym='vSeven')),
            Leaf('INTEGER', rng=R(-2, 300, lb_sym='vMinusTwo', ub_sym='vThreeHundred'))]
    return out


VALUE_REFS = [('vSeven', 'INTEGER', '7'), ('vMinusTwo', 'INTEGER', '-2'),
              ('vThreeHundred', 'INTEGER', '300'), ('vTwo', 'INTEGER', '2'), ('vFour', 'INTEGER', '4')]


def _names(n, prefix='e'):
    return ['%s%d' % (prefix, i) for i in range(n)]


def enumerated_leaves(thorough=False):
    out = []
    for n in [1, 2, 3, 4, 5, 8, 9] + ([256, 257] if thorough else []):
        out.append(Leaf('ENUMERATED', enum=tuple((x, None) for x in _names(n))))
    out += [
        Leaf('ENUMERATED', enum=(('a', -1), ('b', 0), ('c', 5))),
        Leaf('ENUMERATED', enum=(('a', 127), ('b', 128))),
        Leaf('ENUMERATED', enum=(('a', 32767), ('b', 32768), ('c', -32769))),
        Leaf('ENUMERATED', enum=(('a', 70000), ('b', -70000), ('c', 3))),
        Leaf('ENUMERATED', enum=(('a', 5), ('b', 2), ('c', 9), ('d', 0))),          # out of textual order
        Leaf('ENUMERATED', enum=(('a', 1), ('b', None), ('c', None))),             # mixed numbering
        Leaf('ENUMERATED', enum=(('a', None), ('b', 0 + 3), ('c', None))),
        Leaf('ENUMERATED', enum=(('a', 255), ('b', 256), ('c', -128), ('d', -129))),
    ]
    for nadd in [0, 1, 2, 63, 64, 65]:
        out.append(Leaf('ENUMERATED', enum=(('a', None), ('b', None)),
                        enum_adds=tuple((x, None) for x in _names(nadd, 'x'))))
    out += [
        Leaf('ENUMERATED', enum=(('a', None),), enum_adds=(('x', None),)),
        Leaf('ENUMERATED', enum=(('a', 3), ('b', 1)), enum_adds=(('x', 10), ('y', 200), ('z', 70000))),
        Leaf('ENUMERATED', enum=(('a', 0), ('b', 5)), enum_adds=(('x', 2), ('y', None))),
    ]
    return out


def _size_shapes(fixed, ranges, ext_ranges):
    out = [None]
    out += [R(n, n, single=True) for n in fixed]
    out += [R(lo, hi) for lo, hi in ranges]
    out += [R(lo, hi, ext=True) for lo, hi in ext_ranges]
    return out


def bitstring_leaves(thorough=False):
    out = []
    fixed = [0, 1, 7, 8, 9, 15, 16, 17, 24, 64, 65] + ([65535, 65536] if thorough else [])
    for s in _size_shapes(fixed, [(0, 1), (0, 3), (1, 2), (0, 255), (0, 256), (5, 20), (16, 17), (0, 65535),
                                  (0, 65536), (1, MAX), (0, MAX)],
                          [(0, 3), (1, 2), (5, 5), (16, 16), (17, 17), (0, 255), (1, MAX)]):
        out.append(Leaf('BITSTRING', size=s))
    nb = (('a', 0), ('b', 1), ('c', 5))
    out += [Leaf('BITSTRING', named=nb), Leaf('BITSTRING', named=nb, size=R(6, 6, single=True)),
            Leaf('BITSTRING', named=nb, size=R(1, 8)), Leaf('BITSTRING', named=nb, size=R(0, 16)),
            Leaf('BITSTRING', named=nb, size=R(8, 8, single=True)),
            Leaf('BITSTRING', named=nb, size=R(1, 8, ext=True)),
            Leaf('BITSTRING', named=(('z', 0), ('y', 17)), size=R(18, 24))]
    return out


def octetstring_leaves(thorough=False):
    out = []
    fixed = [0, 1, 2, 3, 4, 64, 65] + ([65535, 65536] if thorough else [])
    for s in _size_shapes(fixed, [(0, 1), (0, 3), (1, 2), (2, 3), (0, 255), (0, 256), (5, 20), (0, 65535), (0, 65536),
                                  (1, MAX), (0, MAX)],
                          [(0, 3), (1, 2), (2, 2), (3, 3), (0, 255), (1, MAX)]):
        out.append(Leaf('OCTETSTRING', size=s))
    return out


def string_leaves(thorough=False):
    out = []
    for kind in STRING_KINDS:
        out.append(Leaf(kind))
        out.append(Leaf(kind, size=R(2, 2, single=True)))
        out.append(Leaf(kind, size=R(0, 3)))
        out.append(Leaf(kind, size=R(1, 2, ext=True)))
    for kind in KNOWN_MULT + ('UTF8String',):
        for s in [R(1, 1, single=True), R(3, 3, single=True), R(4, 4, single=True), R(16, 16, single=True),
                  R(17, 17, single=True), R(1, 2), R(0, 2), R(2, 3), R(0, 255), R(0, 256), R(1, 65535), R(0, 65536),
                  R(1, MAX), R(0, MAX), R(1, MAX, ext=True), R(0, 65536, ext=True), R(2, 2, ext=True, single=True),
                  R(5, 20)]:
            out.append(Leaf(kind, size=s))
    # permitted alphabets: 1, 2, 3, 4, 5, 16, 17 characters (bits-per-char 2^k boundaries)
    alphas = {
        'IA5String': ['a', 'ab', 'abc', 'abcd', 'abcde', 'abcdefghijklmnop', 'abcdefghijklmnopq', 'ba'],
        'VisibleString': ['a', 'ab', 'abc', 'abcd', 'abcde', 'abcdefghijklmnop', 'abcdefghijklmnopq', 'zy'],
        'PrintableString': ['a', 'ab', 'abc', 'abcd', 'abcde', 'ABCDEFGHIJKLMNOP', 'ABCDEFGHIJKLMNOPQ'],
        'NumericString': ['0', '01', '012', '0123', '01234', ' 0123456789'],
        'BMPString': ['a', 'ab', 'abcde', 'aé', 'a€'],
        'UniversalString': ['a', 'ab', 'abcde', 'a\U0001f600'],
    }
    for kind, als in alphas.items():
        for a in als:
            out.append(Leaf(kind, alpha=a))
            out.append(Leaf(kind, alpha=a, size=R(1, 4)))
        out.append(Leaf(kind, alpha=als[2], size=R(3, 3, single=True)))
        out.append(Leaf(kind, alpha=als[2], size=R(1, 4, ext=True)))
    out.append(Leaf('IA5String', alpha='abcd', alpha_ranges=(('a', 'd'),)))
    out.append(Leaf('IA5String', alpha='abcdxyz', alpha_ranges=(('a', 'd'), ('x', 'z')), size=R(0, 5)))
    out.append(Leaf('VisibleString', alpha='ABCDEFGHIJKLMNOPQRSTUVWXYZ', alpha_ranges=(('A', 'Z'),), size=R(1, 8)))
    out.append(Leaf('UTF8String', alpha='abc'))
    return out


def misc_leaves(thorough=False):
    out = [Leaf('BOOLEAN'), Leaf('NULL'), Leaf('REAL'), Leaf('REAL', wc='binary32'),
           Leaf('REAL', wc='binary64'), Leaf('OID')]
    out += [Leaf(k) for k in TIME_KINDS]
    return out


def sigma_leaf(thorough=False):
    out = (misc_leaves(thorough) + integer_leaves(thorough) + enumerated_leaves(thorough)
           + bitstring_leaves(thorough) + octetstring_leaves(thorough) + string_leaves(thorough))
    seen = set()
    res = []
    for l in out:
        if l not in seen:
            seen.add(l)
            res.append(l)
    return res


# ---------------------------------------------------------------------------
# contexts for a leaf (L0c)

B = Leaf('BOOLEAN')
U8 = Leaf('INTEGER', rng=R(0, 255))


def contexts(x, default=None):
    """Every standard context for term x. Returns [(label, term)]."""
    out = [
        ('seq', Seq((M('pad', B), M('x', x), M('tail', B)))),
        ('seq-opt', Seq((M('pad', B), M('x', x, 'O'), M('tail', B)))),
        ('of2', Of(x, size=R(2, 2, single=True))),
        ('cho', Cho((M('p', B), M('x', x)))),
        ('seq-add', Seq((M('pad', B),), ext=True, adds=(M('x', x),))),
        ('seq-add-opt', Seq((M('pad', B),), ext=True, adds=(M('x', x, 'O'), M('y', B, 'O')))),
        ('seq-grp', Seq((M('pad', B),), ext=True, adds=(Grp((M('x', x), M('y', B, 'O'))),))),
        ('cho-add', Cho((M('p', B),), ext=True, adds=(M('x', x),))),
        ('set', Seq((M('pad', B), M('x', x)), is_set=True)),
        ('impl', Seq((M('pad', B), M('x', Tag(5, x, mode='IMPLICIT')), M('tail', B)))),
        ('expl', Seq((M('pad', B), M('x', Tag(5, x, mode='EXPLICIT')), M('tail', B)))),
        ('top-expl', Tag(3, x, cls='APPLICATION', mode='EXPLICIT')),
        # x directly BEFORE the structures with cursor logic (extension bit set after the fact,
        # presence bitmap, open-type wrapped additions): a long x makes the encoder's accumulator
        # roll over between "remember the position" and "patch the bit"
        ('seq-before-ext', Seq((M('x', x),
                                M('e', Seq((M('b', B),), ext=True, adds=(M('y', B, 'O'),))),
                                M('c', Cho((M('p', B),), ext=True, adds=(M('q', B),)))))),
    ]
    if default is not None:
        out.append(('seq-def', Seq((M('pad', B), M('x', x, 'D', default=default), M('tail', B)))))
    return out


# ---------------------------------------------------------------------------
# reduced member alphabet (Sigma_r) with a default value for each letter

ENUM_R = Leaf('ENUMERATED', enum=(('a', None), ('b', None)), enum_adds=(('x', None),))
SIGMA_R = [
    ('bool', B, True),
    ('int3', Leaf('INTEGER', rng=R(0, 7)), 3),
    ('int', Leaf('INTEGER'), 300),
    ('null', Leaf('NULL'), None),
    ('oct', Leaf('OCTETSTRING', size=R(0, 3)), b'\x01\x02'),
    ('ia5', Leaf('IA5String', size=R(2, 2, single=True)), 'ab'),
    ('enum', ENUM_R, 'b'),
    ('bits', Leaf('BITSTRING', named=(('a', 0), ('b', 1), ('c', 5))), (b'\x40', 2)),
    ('cho', Cho((M('ca', B), M('cb', Leaf('INTEGER', rng=R(0, 255))))), None),
    ('seq', Seq((M('sa', B), M('sb', Leaf('INTEGER', rng=R(0, 255)), 'O'))), None),
    ('ref', Ref('RefT'), None),
    ('tagged', Tag(9, Leaf('INTEGER', rng=R(0, 255)), mode='EXPLICIT'), 7),
]
REF_ENV = {'RefT': Seq((M('ra', Leaf('INTEGER', rng=R(0, 7))), M('rb', B, 'O')), ext=True)}
SIGMA_R4 = [SIGMA_R[0], SIGMA_R[1], SIGMA_R[4], SIGMA_R[8]]


def _member_variants(name, letters):
    """All (type, qualifier) variants for one member position, base first."""
    out = []
    for lab, t, dflt in letters:
        out.append(M(name, t))
        out.append(M(name, t, 'O'))
        if dflt is not None:
            out.append(M(name, t, 'D', default=dflt))
    return out


EXT_SHAPES = ['none', 'marker', 'add1', 'add2', 'group', 'add-group-add', 'root2']


def _apply_ext(root, shape, is_set, add_letters):
    """Build Seq terms for one extension shape; additions drawn from add_letters (list of M variants)."""
    if shape == 'none':
        return [Seq(tuple(root), is_set=is_set)]
    if shape == 'marker':
        return [Seq(tuple(root), ext=True, is_set=is_set)]
    out = []
    if shape == 'add1':
        for a in add_letters('x0'):
            out.append(Seq(tuple(root), ext=True, adds=(a,), is_set=is_set))
    elif shape == 'add2':
        for a in add_letters('x0'):
            out.append(Seq(tuple(root), ext=True, adds=(a, M('x1', U8, 'O')), is_set=is_set))
            out.append(Seq(tuple(root), ext=True, adds=(M('x1', B), a), is_set=is_set))
    elif shape == 'group':
        for a in add_letters('x0'):
            out.append(Seq(tuple(root), ext=True, adds=(Grp((a, M('x1', U8, 'O'))),), is_set=is_set))
            out.append(Seq(tuple(root), ext=True, adds=(Grp((a,)),), is_set=is_set))
    elif shape == 'add-group-add':
        for a in add_letters('x1'):
            out.append(Seq(tuple(root), ext=True,
                           adds=(M('x0', B, 'O'), Grp((a, M('x2', B, 'O'))), M('x3', U8)), is_set=is_set))
    elif shape == 'root2':
        for a in add_letters('x0'):
            out.append(Seq(tuple(root), ext=True, adds=(a,), root2=(M('r2', U8),), is_set=is_set))
        out.append(Seq(tuple(root), ext=True, adds=(), root2=(M('r2', U8, 'O'),), is_set=is_set))
    return out


def l1_terms(W=2, K=2, letters=None):
    """One constructor over Sigma_r; deviation-bounded from the base configuration
    (all members BOOLEAN mandatory, no extension)."""
    letters = letters or SIGMA_R
    out = []

    def add_letters(name):
        return _member_variants(name, letters)

    for is_set in (False, True):
        for w in range(1, W + 1):
            names = ['m%d' % i for i in range(w)]
            base = [M(n, B) for n in names]
            pos_alts = {i: [v for v in _member_variants(names[i], letters) if v != base[i]] for i in range(w)}
            # member deviations
            for k in range(0, min(K, w) + 1):
                for pos in itertools.combinations(range(w), k):
                    for choice in itertools.product(*(pos_alts[p] for p in pos)):
                        root = list(base)
                        for p, c in zip(pos, choice):
                            root[p] = c
                        # extension shape is one more deviation
                        shapes = ['none'] + (EXT_SHAPES[1:] if k < K else [])
                        for sh in shapes:
                            if sh in ('none', 'marker'):
                                out.extend(_apply_ext(root, sh, is_set, add_letters))
                            elif k + 1 < K or K == 1:
                                out.extend(_apply_ext(root, sh, is_set, add_letters))
                            else:
                                # additions restricted to the base letter (BOOLEAN variants)
                                out.extend(_apply_ext(root, sh, is_set,
                                                      lambda nm: _member_variants(nm, letters[:1])))
    # CHOICE
    for w in range(1, W + 1):
        names = ['m%d' % i for i in range(w)]
        base = [M(n, B) for n in names]
        alts = {i: [M(names[i], t) for lab, t, d in letters if t != B] for i in range(w)}
        for k in range(0, min(K, w) + 1):
            for pos in itertools.combinations(range(w), k):
                for choice in itertools.product(*(alts[p] for p in pos)):
                    root = list(base)
                    for p, c in zip(pos, choice):
                        root[p] = c
                    out.append(Cho(tuple(root)))
                    out.append(Cho(tuple(root), ext=True))
                    if k < K:
                        for lab, t, d in letters:
                            out.append(Cho(tuple(root), ext=True, adds=(M('x0', t),)))
                        out.append(Cho(tuple(root), ext=True, adds=(M('x0', B), M('x1', U8))))
    # SEQUENCE OF / SET OF
    sizes = [None, R(0, 0, single=True), R(1, 1, single=True), R(2, 2, single=True), R(0, 1), R(0, 3), R(1, 2),
             R(2, 5), R(0, 255), R(0, 256), R(1, MAX), R(0, 3, ext=True), R(1, 2, ext=True),
             R(2, 2, ext=True, single=True), R(0, 65535), R(0, 65536)]
    for is_set in (False, True):
        for lab, t, d in letters:
            for s in sizes:
                out.append(Of(t, size=s, is_set=is_set))
    return _dedupe_terms(out)


def _dedupe_terms(ts):
    seen = set()
    out = []
    for t in ts:
        if t not in seen:
            seen.add(t)
            out.append(t)
    return out


def l2_terms(thorough=False):
    """Every ordered pair of constructors: inner in every member position of outer,
    over the 4-letter sub-alphabet."""
    letters = SIGMA_R4
    inners = []
    i8 = Leaf('INTEGER', rng=R(0, 255))
    for lab, t, d in letters:
        inners += [
            Seq((M('ia', t), M('ib', B, 'O'))),
            Seq((M('ia', t, 'O'),), ext=True, adds=(M('ix', i8, 'O'),)),
            Seq((M('ia', t),), ext=True, adds=(Grp((M('ix', i8), M('iy', B, 'O'))),)),
            Seq((M('ia', t), M('ib', i8)), is_set=True),
            Cho((M('ia', t), M('ib', i8))),
            Cho((M('ia', t),), ext=True, adds=(M('ix', i8),)),
            Of(t, size=R(0, 3)),
            Of(t, is_set=True),
        ]
    inners = _dedupe_terms(inners)
    out = []
    for inner in inners:
        out += [
            Seq((M('oa', B), M('ob', inner), M('oc', i8))),
            Seq((M('oa', B), M('ob', inner, 'O'), M('oc', i8))),
            Seq((M('oa', B),), ext=True, adds=(M('ox', inner), M('oy', i8, 'O'))),
            Seq((M('oa', B),), ext=True, adds=(Grp((M('ox', inner, 'O'), M('oy', i8))),)),
            Seq((M('oa', inner), M('ob', i8)), is_set=True),
            Cho((M('oa', B), M('ob', inner))),
            Cho((M('oa', B),), ext=True, adds=(M('ox', inner),)),
            Of(inner, size=R(0, 2)),
            Of(inner, is_set=True, size=R(1, 2, ext=True)),
            Seq((M('oa', Tag(2, inner, mode='EXPLICIT')), M('ob', i8))),
            Seq((M('oa', Tag(2, inner, mode='IMPLICIT')), M('ob', i8))),
        ]
    return _dedupe_terms(out)


def families():
    """Named-reference and recursive families: [(label, {name: term}, [top names])]."""
    i8 = Leaf('INTEGER', rng=R(0, 255))
    fams = []
    fams.append(('rec-list', {'RL': Seq((M('v', i8), M('n', Ref('RL'), 'O')))}, ['RL']))
    fams.append(('rec-tree', {'RT': Cho((M('leaf', i8), M('node', Of(Ref('RT'), size=R(0, 2)))))}, ['RT']))
    fams.append(('rec-mutual', {'RA': Seq((M('v', B), M('b', Ref('RB'), 'O'))),
                                'RB': Cho((M('a', Ref('RA')), M('z', Leaf('NULL'))))}, ['RA', 'RB']))
    fams.append(('rec-ext', {'RE': Seq((M('v', i8),), ext=True, adds=(M('n', Ref('RE'), 'O'),))}, ['RE']))
    fams.append(('shared', {'Sub': Seq((M('a', i8), M('b', B, 'O'))),
                            'P1': Seq((M('s', Ref('Sub')), M('t', i8))),
                            'P2': Cho((M('s', Ref('Sub')), M('t', i8)))}, ['Sub', 'P1', 'P2']))
    fams.append(('shared-qual', {'I': Leaf('INTEGER', rng=R(0, 255)),
                                 'E': Leaf('ENUMERATED', enum=(('x', None), ('y', None))),
                                 'O': Leaf('OCTETSTRING'),
                                 'L': Of(B),
                                 'Q': Seq((M('a', Ref('I')), M('b', Ref('I'), 'O'), M('c', Ref('I'), 'D', default=7),
                                           M('d', Tag(0, Ref('I'))), M('e', Ref('E'), 'D', default='y'),
                                           M('f', Ref('E')), M('g', Ref('L')), M('h', Ref('L'), 'O')))},
                 ['I', 'E', 'Q']))
    fams.append(('ref-chain', {'A1': Ref('A2'), 'A2': Ref('A3'), 'A3': Leaf('INTEGER', rng=R(0, 7)),
                               'C': Seq((M('a', Ref('A1')), M('b', Ref('A2'), 'O')))}, ['A1', 'C']))
    return fams
