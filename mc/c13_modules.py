"""Hand-written module family for the C13 history explorer: constructs that the
term language of mc/terms.py cannot render (COMPONENTS OF, parameterised types,
IMPORTS between modules with different tag defaults, named-bit / hstring /
bstring DEFAULT notations).  Every module comes with *equivalent terms* for its
top-level types; they are used only to generate values (mc.values.dom) and to
convert ENUMERATED names for numeric_enums — the oracle of C13 is differential,
so an inexact equivalent only changes which values are tried.
"""

from .terms import Leaf, Rng, Seq, Cho, Of, Ref, Tag, M, Grp
from .space import Unit

R = Rng
B = Leaf('BOOLEAN')
NULL = Leaf('NULL')
I3 = Leaf('INTEGER', rng=R(0, 7))
U8 = Leaf('INTEGER', rng=R(0, 255))
REAL = Leaf('REAL')
OCT = Leaf('OCTETSTRING')
OCT03 = Leaf('OCTETSTRING', size=R(0, 3))
IA5_2 = Leaf('IA5String', size=R(2, 2, single=True))
BITS = Leaf('BITSTRING')
ENXY = Leaf('ENUMERATED', enum=(('x', None), ('y', None)))
EN = Leaf('ENUMERATED', enum=(('red', 3), ('green', 1), ('blue', None)))
ENX = Leaf('ENUMERATED', enum=(('red', 3), ('green', 1)), enum_adds=(('blue', None),))
EN2 = Leaf('ENUMERATED', enum=(('red', None), ('green', None)))
BITS_ABC = Leaf('BITSTRING', named=(('a', 0), ('b', 1), ('c', 5)))
BITS_PQR = Leaf('BITSTRING', named=(('p', 0), ('q', 1), ('r', 5)))
BITS_PQ = Leaf('BITSTRING', named=(('p', 0), ('q', 1)))


def _hdr(name, tags, ei):
    h = name + ' DEFINITIONS'
    if tags != 'EXPLICIT':
        h += ' ' + tags + ' TAGS'
    if ei:
        h += ' EXTENSIBILITY IMPLIED'
    return h + ' ::= BEGIN\n'


def _unit(label, text, env, tops, tags, ei):
    u = Unit(label, text, [(n, env[n], 'hand:' + label.split('/')[1]) for n in tops], dict(env), tags, ei)
    u.extra['hand'] = True
    return u


def compof(tags):
    text = _hdr('H1', tags, False) + """\
Base ::= SEQUENCE { a INTEGER (0..7), b BOOLEAN OPTIONAL, e ENUMERATED { x, y } DEFAULT y, ..., z NULL }
Derived ::= SEQUENCE { COMPONENTS OF Base, c OCTET STRING (SIZE (0..3)) DEFAULT '0102'H }
Nested ::= SEQUENCE { f IA5String (SIZE (2)), COMPONENTS OF Derived }
Bits ::= BIT STRING { p(0), q(1), r(5) }
WithBits ::= SEQUENCE { g Bits DEFAULT { q }, h INTEGER (0..255) }
Deriv3 ::= SEQUENCE { COMPONENTS OF WithBits, i REAL OPTIONAL }
END
"""
    a, b, e = M('a', I3), M('b', B, 'O'), M('e', ENXY, 'D', default='y')
    c = M('c', OCT03, 'D', default=b'\x01\x02')
    g, h = M('g', Ref('Bits'), 'D', default=(b'\x40', 2)), M('h', U8)
    env = {
        'Base': Seq((a, b, e), ext=True, adds=(M('z', NULL),)),
        'Derived': Seq((a, b, e, c)),
        'Nested': Seq((M('f', IA5_2), a, b, e, c)),
        'Bits': BITS_PQR,
        'WithBits': Seq((g, h)),
        'Deriv3': Seq((g, h, M('i', REAL, 'O'))),
    }
    return _unit('hand/compof/' + tags, text, env, list(env), tags, False)


def compof_set():
    text = _hdr('H1S', 'AUTOMATIC', False) + """\
Base ::= SEQUENCE { a INTEGER (0..7), b BOOLEAN OPTIONAL, e ENUMERATED { x, y } DEFAULT y, ..., z NULL }
DerSet ::= SET { d NULL, COMPONENTS OF Base }
DerCho ::= CHOICE { u DerSet, v Base }
END
"""
    a, b, e = M('a', I3), M('b', B, 'O'), M('e', ENXY, 'D', default='y')
    env = {
        'Base': Seq((a, b, e), ext=True, adds=(M('z', NULL),)),
        'DerSet': Seq((M('d', NULL), a, b, e), is_set=True),
        'DerCho': Cho((M('u', Ref('DerSet')), M('v', Ref('Base')))),
    }
    return _unit('hand/compof-set/AUTOMATIC', text, env, list(env), 'AUTOMATIC', False)


def defaults(tags, tagged):
    """DEFAULT notations.  `tagged`: members carry textual context tags (legal under
    every tag default; switches automatic tagging off); untagged only under AUTOMATIC."""
    def t(n):
        return '[%d] ' % n if tagged else ''
    text = _hdr('H3', tags, False) + """\
Bits ::= BIT STRING { a(0), b(1), c(5) }
Oct ::= OCTET STRING
En ::= ENUMERATED { red(3), green(1), blue }
D1 ::= SEQUENCE { b1 %(0)sBIT STRING DEFAULT '0100'B, b2 %(1)sBIT STRING DEFAULT 'A5'H, b3 %(2)sBIT STRING { a(0), b(1), c(5) } DEFAULT { a, c }, b4 %(3)sBits DEFAULT { b }, b5 %(4)sBits DEFAULT '01'B, b6 %(5)sBIT STRING DEFAULT ''B, b7 %(6)sBits DEFAULT { } }
D2 ::= SEQUENCE { o1 %(0)sOCTET STRING DEFAULT '0102'H, o2 %(1)sOCTET STRING DEFAULT '00000001'B, o3 %(2)sOct DEFAULT 'FF'H, o4 %(3)sOCTET STRING DEFAULT ''H, o5 %(4)sOCTET STRING (SIZE (0..3)) DEFAULT '1'H }
D3 ::= SEQUENCE { e1 %(0)sENUMERATED { x, y } DEFAULT y, e2 %(1)sEn DEFAULT green, e3 %(2)sEn DEFAULT red, e4 %(3)sEn OPTIONAL }
D4 ::= SET { s1 [0] Bits DEFAULT { a }, s2 [1] Oct DEFAULT '00'H, s3 [2] En DEFAULT green }
D5 ::= SEQUENCE { n1 SEQUENCE { i1 Bits DEFAULT { c }, i2 En DEFAULT red } OPTIONAL, n2 SEQUENCE OF SEQUENCE { j1 Oct DEFAULT 'AB'H } }
D6 ::= CHOICE { c1 SEQUENCE { k1 En DEFAULT green, k2 BOOLEAN DEFAULT TRUE }, c2 NULL }
END
""" % {str(i): t(i) for i in range(7)}

    def tg(n, x):
        return Tag(n, x) if tagged else x
    env = {
        'Bits': BITS_ABC, 'Oct': OCT, 'En': EN,
        'D1': Seq((M('b1', tg(0, BITS), 'D', default=(b'\x40', 4)),
                   M('b2', tg(1, BITS), 'D', default=(b'\xa5', 8)),
                   M('b3', tg(2, BITS_ABC), 'D', default=(b'\x84', 6)),
                   M('b4', tg(3, Ref('Bits')), 'D', default=(b'\x40', 2)),
                   M('b5', tg(4, Ref('Bits')), 'D', default=(b'\x40', 2)),
                   M('b6', tg(5, BITS), 'D', default=(b'', 0)),
                   M('b7', tg(6, Ref('Bits')), 'D', default=(b'', 0)))),
        'D2': Seq((M('o1', tg(0, OCT), 'D', default=b'\x01\x02'),
                   M('o2', tg(1, OCT), 'D', default=b'\x01'),
                   M('o3', tg(2, Ref('Oct')), 'D', default=b'\xff'),
                   M('o4', tg(3, OCT), 'D', default=b''),
                   M('o5', tg(4, OCT03), 'D', default=b'\x10'))),
        'D3': Seq((M('e1', tg(0, ENXY), 'D', default='y'),
                   M('e2', tg(1, Ref('En')), 'D', default='green'),
                   M('e3', tg(2, Ref('En')), 'D', default='red'),
                   M('e4', tg(3, Ref('En')), 'O'))),
        'D4': Seq((M('s1', Tag(0, Ref('Bits')), 'D', default=(b'\x80', 1)),
                   M('s2', Tag(1, Ref('Oct')), 'D', default=b'\x00'),
                   M('s3', Tag(2, Ref('En')), 'D', default='green')), is_set=True),
        'D5': Seq((M('n1', Seq((M('i1', Ref('Bits'), 'D', default=(b'\x04', 6)),
                                M('i2', Ref('En'), 'D', default='red'))), 'O'),
                   M('n2', Of(Seq((M('j1', Ref('Oct'), 'D', default=b'\xab'),)))))),
        'D6': Cho((M('c1', Seq((M('k1', Ref('En'), 'D', default='green'),
                                M('k2', B, 'D', default=True)))),
                   M('c2', NULL))),
    }
    return _unit('hand/defaults%s/%s' % ('' if tagged else '-untagged', tags), text, env, list(env), tags, False)


def auto(ei):
    text = _hdr('H4', 'AUTOMATIC', ei) + """\
A1 ::= SEQUENCE { a SEQUENCE { b CHOICE { c BOOLEAN, d INTEGER (0..255) }, e BOOLEAN OPTIONAL }, f SEQUENCE OF SEQUENCE { g BOOLEAN, h NULL OPTIONAL } }
A2 ::= CHOICE { a A1, b SET { c BOOLEAN, d BOOLEAN }, e CHOICE { f NULL, g BOOLEAN } }
A3 ::= SEQUENCE { a [5] BOOLEAN, b SEQUENCE { c BOOLEAN, d BOOLEAN OPTIONAL }, e [7] CHOICE { f NULL, g BOOLEAN } }
A4 ::= SEQUENCE { a BOOLEAN, ..., [[ b SEQUENCE { c BOOLEAN }, d INTEGER (0..7) OPTIONAL ]], e CHOICE { f NULL } OPTIONAL }
A5 ::= SET OF CHOICE { a SEQUENCE { b BOOLEAN }, c INTEGER (0..7) }
A6 ::= SEQUENCE { a A5 OPTIONAL, b A6 OPTIONAL, c ENUMERATED { x, y } DEFAULT x }
END
"""
    fg = Cho((M('f', NULL), M('g', B)))
    env = {
        'A1': Seq((M('a', Seq((M('b', Cho((M('c', B), M('d', U8)))), M('e', B, 'O')))),
                   M('f', Of(Seq((M('g', B), M('h', NULL, 'O'))))))),
        'A2': Cho((M('a', Ref('A1')), M('b', Seq((M('c', B), M('d', B)), is_set=True)), M('e', fg))),
        'A3': Seq((M('a', Tag(5, B)), M('b', Seq((M('c', B), M('d', B, 'O')))), M('e', Tag(7, fg)))),
        'A4': Seq((M('a', B),), ext=True,
                  adds=(Grp((M('b', Seq((M('c', B),))), M('d', I3, 'O'))), M('e', Cho((M('f', NULL),)), 'O'))),
        'A5': Of(Cho((M('a', Seq((M('b', B),))), M('c', I3))), is_set=True),
        'A6': Seq((M('a', Ref('A5'), 'O'), M('b', Ref('A6'), 'O'), M('c', ENXY, 'D', default='x'))),
    }
    return _unit('hand/auto-nested/AUTOMATIC' + ('+EI' if ei else ''), text, env, list(env), 'AUTOMATIC', ei)


def imports(order):
    ma = _hdr('MA', 'AUTOMATIC', False) + """\
IMPORTS Base, En, Bits FROM MB;
U1 ::= SEQUENCE { a Base, b En DEFAULT green, c Bits DEFAULT { q }, d Local OPTIONAL }
U2 ::= SEQUENCE { COMPONENTS OF Base, x BOOLEAN }
Local ::= SEQUENCE { l En DEFAULT red }
Dup ::= BOOLEAN
END
"""
    mb = _hdr('MB', 'IMPLICIT', False) + """\
IMPORTS Local FROM MA;
Base ::= SEQUENCE { p [0] INTEGER (0..7), q [1] En DEFAULT red, r [2] Local OPTIONAL }
En ::= ENUMERATED { red, green }
Bits ::= BIT STRING { p(0), q(1) }
Dup ::= INTEGER (0..7)
END
"""
    p = M('p', Tag(0, I3))
    q = M('q', Tag(1, Ref('En')), 'D', default='red')
    r = M('r', Tag(2, Ref('Local')), 'O')
    env = {
        'U1': Seq((M('a', Ref('Base')), M('b', Ref('En'), 'D', default='green'),
                   M('c', Ref('Bits'), 'D', default=(b'\x40', 2)), M('d', Ref('Local'), 'O'))),
        'U2': Seq((p, q, r, M('x', B))),
        'Local': Seq((M('l', Ref('En'), 'D', default='red'),)),
        'Base': Seq((p, q, r)),
        'En': EN2,
        'Bits': BITS_PQ,
        'Dup': B,          # defined in both modules: Specification.types drops the name
    }
    text = ma + mb if order == 0 else mb + ma
    return _unit('hand/imports-%s/MIXED' % ('ab' if order == 0 else 'ba'), text, env, list(env), 'AUTOMATIC', False)


def param():
    text = _hdr('HP', 'AUTOMATIC', False) + """\
Par { Tt } ::= SEQUENCE { a Tt, b BOOLEAN DEFAULT TRUE, e ENUMERATED { x, y } DEFAULT y, o OCTET STRING DEFAULT '01'H }
Small ::= INTEGER (0..7)
Qq ::= Par { Small }
Rr ::= SEQUENCE { q Par { BOOLEAN }, r Qq OPTIONAL }
END
"""
    def par(t):
        return Seq((M('a', t), M('b', B, 'D', default=True), M('e', ENXY, 'D', default='y'),
                    M('o', OCT, 'D', default=b'\x01')))
    env = {
        'Small': I3,
        'Qq': par(Ref('Small')),
        'Rr': Seq((M('q', par(B)), M('r', Ref('Qq'), 'O'))),
    }
    return _unit('hand/param/AUTOMATIC', text, env, list(env), 'AUTOMATIC', False)


def ext_enum_default():
    """Kept apart: compile_dict(..., numeric_enums=True) itself raises TypeError for a
    DEFAULT of an extensible ENUMERATED (the second of its three pre-processing
    passes walks into the extension marker), so such a member would turn every
    numeric_enums=True transition of its module into a compile error."""
    text = _hdr('H7', 'AUTOMATIC', False) + """\
EnX ::= ENUMERATED { red(3), green(1), ..., blue }
X1 ::= SEQUENCE { a EnX DEFAULT green, b BOOLEAN }
X2 ::= SEQUENCE { a EnX DEFAULT blue, b ENUMERATED { x, ..., y } DEFAULT x }
END
"""
    env = {
        'EnX': ENX,
        'X1': Seq((M('a', Ref('EnX'), 'D', default='green'), M('b', B))),
        'X2': Seq((M('a', Ref('EnX'), 'D', default='blue'),
                   M('b', Leaf('ENUMERATED', enum=(('x', None),), enum_adds=(('y', None),)), 'D', default='x'))),
    }
    return _unit('hand/ext-enum-default/AUTOMATIC', text, env, list(env), 'AUTOMATIC', False)


def order_sensitive():
    """Same member name, same referenced type, different attributes, in types whose
    textual order differs from the sorted order that pformat/eval produces: the
    compiled-type cache is keyed (module, type, member name), so a compile that
    depended on the order of the dictionary would show after a pformat step."""
    text = _hdr('HO', 'AUTOMATIC', False) + """\
Iu ::= INTEGER (0..255)
Zb ::= SEQUENCE { x Iu DEFAULT 7, y BOOLEAN }
Aa ::= SEQUENCE { x Iu DEFAULT 9, y BOOLEAN }
Mm ::= SEQUENCE { x Iu OPTIONAL, y BOOLEAN }
Kk ::= SEQUENCE { x Iu, y BOOLEAN }
Cc ::= CHOICE { x [3] Iu, y BOOLEAN }
END
"""
    env = {
        'Iu': U8,
        'Zb': Seq((M('x', Ref('Iu'), 'D', default=7), M('y', B))),
        'Aa': Seq((M('x', Ref('Iu'), 'D', default=9), M('y', B))),
        'Mm': Seq((M('x', Ref('Iu'), 'O'), M('y', B))),
        'Kk': Seq((M('x', Ref('Iu')), M('y', B))),
        'Cc': Cho((M('x', Tag(3, Ref('Iu'))), M('y', B))),
    }
    return _unit('hand/order-sensitive/AUTOMATIC', text, env, list(env), 'AUTOMATIC', False)


def object_class(order):
    """An information object class imported from another module: CLASS.&field always means the field's
    type in the *defining* module, also when the importing module has a type of the same name - and
    also on the second compile of the same dictionary (the compiler rewrites such members; it must do
    so on a copy)."""
    defs = _hdr('Defs', 'AUTOMATIC', False) + """\
EXPORTS ITEM;
Range ::= INTEGER (0..255)
ITEM ::= CLASS { &id INTEGER UNIQUE, &value Range } WITH SYNTAX { ID &id VALUE &value }
END
"""
    user = _hdr('User', 'AUTOMATIC', False) + """\
IMPORTS ITEM FROM Defs;
Range ::= INTEGER (0..65535)
Msg ::= SEQUENCE { id ITEM.&id, value ITEM.&value, tail BOOLEAN }
Two ::= SEQUENCE { a ITEM.&value OPTIONAL, b Range }
END
"""
    env = {
        'Msg': Seq((M('id', Leaf('INTEGER')), M('value', U8), M('tail', B))),
        'Two': Seq((M('a', U8, 'O'), M('b', Leaf('INTEGER', rng=R(0, 65535))))),
    }
    text = defs + user if order == 0 else user + defs
    return _unit('hand/object-class-%s/AUTOMATIC' % ('du' if order == 0 else 'ud'), text, env, list(env),
                 'AUTOMATIC', False)


def hand_units(tier):
    out = [compof('EXPLICIT'), compof('AUTOMATIC'), compof_set(),
           defaults('EXPLICIT', True), defaults('AUTOMATIC', False),
           auto(False), auto(True), imports(0), imports(1), param(), ext_enum_default(), order_sensitive(),
           object_class(0), object_class(1)]
    if tier == 'thorough':
        out += [compof('IMPLICIT'), defaults('IMPLICIT', True), defaults('AUTOMATIC', True)]
    return out
