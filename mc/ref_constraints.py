"""Reference interpreter of the constraints of a term (C11), and the boundary
candidate values derived from them.  Nothing here imports asn1tools.

verdict(term, value, env) is

  'outside'  some component violates a non-extensible value-range, SIZE or
             permitted-alphabet (FROM) constraint stated on its type or on a type
             reference on the way to it (serially applied constraints intersect);
  'inside'   every component satisfies every such constraint;
  'na'       the value is not a value of the type at all (wrong shape, unknown
             alternative, a character outside the built-in repertoire of
             NumericString / PrintableString / IA5String / VisibleString /
             BMPString, a named-bit BIT STRING whose length only differs from the
             SIZE by trailing zero bits): the property says nothing, no assertion.

An extensible constraint (`, ...`) admits every value of the parent type.
"""

from .terms import Leaf, Seq, Cho, Of, Ref, Tag, MIN, MAX, STRING_KINDS, all_members
from .cterms import layers

INSIDE, OUTSIDE, NA = 'inside', 'outside', 'na'

_PRINTABLE = ('ABCDEFGHIJKLMNOPQRSTUVWXYZabcdefghijklmnopqrstuvwxyz0123456789'
              " '()+,-./:=?")


def builtin_ok(kind, ch):
    """Is ch in the repertoire X.680 gives the restricted string type?  Only used
    to recognise values that are not values of the type (verdict 'na')."""
    o = ord(ch)
    if kind == 'NumericString':
        return ch in ' 0123456789'
    if kind == 'PrintableString':
        return ch in _PRINTABLE
    if kind == 'IA5String':
        return o < 128
    if kind == 'VisibleString':
        return 32 <= o <= 126
    if kind == 'BMPString':
        return o <= 0xffff
    return True


def in_rng(rng, n):
    if rng.lb != MIN and n < rng.lb:
        return False
    if rng.ub != MAX and n > rng.ub:
        return False
    return True


def _combine(a, b):
    if NA in (a, b):
        return NA
    if OUTSIDE in (a, b):
        return OUTSIDE
    return INSIDE


def violations(term, value, env, _steps=(), _depth=0):
    """List of (steps, layer | 'na:<why>') for every violated constraint / every
    place where the value is not a value of the type."""
    out = []
    if _depth > 40:
        return [(_steps, 'na:depth')]
    s, ls = layers(term, env)
    if isinstance(s, Leaf):
        k = s.kind
        if k == 'INTEGER':
            if isinstance(value, bool) or not isinstance(value, int):
                return [(_steps, 'na:shape')]
            for l in ls:
                if l.what == 'rng' and l.enforced() and not in_rng(l.rng, value):
                    out.append((_steps, l))
            return out
        if k in STRING_KINDS:
            if not isinstance(value, str):
                return [(_steps, 'na:shape')]
            if any(not builtin_ok(k, c) for c in value):
                return [(_steps, 'na:builtin-alphabet')]
            for l in ls:
                if l.what == 'size' and l.enforced() and not in_rng(l.rng, len(value)):
                    out.append((_steps, l))
                elif l.what == 'alpha' and any(c not in l.alpha for c in value):
                    out.append((_steps, l))
            return out
        if k == 'OCTETSTRING':
            if not isinstance(value, (bytes, bytearray)):
                return [(_steps, 'na:shape')]
            for l in ls:
                if l.what == 'size' and l.enforced() and not in_rng(l.rng, len(value)):
                    out.append((_steps, l))
            return out
        if k == 'BITSTRING':
            if not (isinstance(value, tuple) and len(value) == 2 and isinstance(value[0], (bytes, bytearray))
                    and isinstance(value[1], int) and not isinstance(value[1], bool)
                    and 0 <= value[1] <= 8 * len(value[0])):
                return [(_steps, 'na:shape')]
            n = value[1]
            for l in ls:
                if l.what == 'size' and l.enforced() and not in_rng(l.rng, n):
                    if s.named:
                        # X.680 22.7: with a named bit list trailing 0 bits may be
                        # added or removed to satisfy the size constraint
                        bits = ''.join('{:08b}'.format(b) for b in bytes(value[0]))[:n].rstrip('0')
                        if l.rng.ub == MAX or len(bits) <= l.rng.ub:
                            out.append((_steps, 'na:named-bits-trailing-zeros'))
                            continue
                    out.append((_steps, l))
            return out
        return out        # BOOLEAN, NULL, REAL, ENUMERATED, OID, times: no constraint interpreted
    if isinstance(s, Seq):
        if not isinstance(value, dict):
            return [(_steps, 'na:shape')]
        names = set()
        for m in all_members(s):
            names.add(m.name)
            if m.name in value:
                out += violations(m.t, value[m.name], env, _steps + (('m', m.name),), _depth + 1)
        if set(value) - names:
            out.append((_steps, 'na:unknown-member'))
        return out
    if isinstance(s, Cho):
        if not (isinstance(value, tuple) and len(value) == 2):
            return [(_steps, 'na:shape')]
        for m in all_members(s):
            if m.name == value[0]:
                return violations(m.t, value[1], env, _steps + (('c', m.name),), _depth + 1)
        return [(_steps, 'na:unknown-alternative')]
    if isinstance(s, Of):
        if not isinstance(value, list):
            return [(_steps, 'na:shape')]
        for l in ls:
            if l.what == 'size' and l.enforced() and not in_rng(l.rng, len(value)):
                out.append((_steps, l))
        seen = set()
        for i, x in enumerate(value):
            key = repr(x)
            if key in seen:
                continue
            seen.add(key)
            out += violations(s.elem, x, env, _steps + (('i', i),), _depth + 1)
        return out
    raise TypeError(s)


def verdict(term, value, env):
    v = violations(term, value, env)
    if any(isinstance(w, str) for _, w in v):
        return NA
    return OUTSIDE if v else INSIDE


# ---------------------------------------------------------------------------
# effective ranges and candidate values for one constrained position

def _eff(ls, what):
    """Intersection of the enforced layers of one sort -> (lo | None, hi | None)."""
    lo, hi = None, None
    for l in ls:
        if l.what == what and l.enforced():
            if l.rng.lb != MIN:
                lo = l.rng.lb if lo is None else max(lo, l.rng.lb)
            if l.rng.ub != MAX:
                hi = l.rng.ub if hi is None else min(hi, l.rng.ub)
    return lo, hi


def _bounds(ls, what):
    """Every finite bound mentioned by any layer of one sort (extensible ones too:
    the points just outside an extensible constraint must be accepted)."""
    out = []
    for l in ls:
        if l.what == what:
            for b in (l.rng.lb, l.rng.ub):
                if b not in (MIN, MAX) and b not in out:
                    out.append(b)
    return out


_TYPICAL = {
    'NumericString': '0123456789 ',
    'PrintableString': 'abcxyzABC019 ',
    'IA5String': 'abcxyz~ !',
    'VisibleString': 'abcxyz~ !',
    # kinds whose repertoire goes beyond ASCII: length is counted in characters,
    # not in octets of any encoding
    'BMPString': 'a\u00e9\u20acbxyz~ !',
    'UniversalString': 'a\u00e9\u20ac\U0001f600bxyz~ !',
    'UTF8String': 'a\u00e9\u20ac\U0001f600bxyz~ !',
}


def _chars(kind, ls):
    """(allowed characters in a canonical order, FROM alphabets stated)."""
    alphas = [l.alpha for l in ls if l.what == 'alpha']
    if alphas:
        allowed = [c for c in alphas[0] if all(c in a for a in alphas[1:])]
    else:
        allowed = list(_TYPICAL.get(kind, 'abcxyz~ !'))
    return allowed, alphas


def _outside_chars(kind, alphas):
    """Characters of the type's repertoire just outside the FROM alphabets."""
    out = []
    for a in alphas:
        os_ = sorted(ord(c) for c in a)
        cands = [os_[0] - 1, os_[-1] + 1]
        for x, y in zip(os_, os_[1:]):
            if y - x > 1:
                cands += [x + 1, y - 1]
        cands += [ord('z'), ord('9'), ord('A'), ord(' ')]
        for o in cands:
            if 0 <= o < 0x110000 and not 0xd800 <= o < 0xe000:
                c = chr(o)
                if c not in a and builtin_ok(kind, c) and c not in out:
                    out.append(c)
                    if len(out) >= 4:
                        break
    return out[:5]


def _mk(chars, n, rot=0):
    if not chars:
        return None if n else ''
    return ''.join(chars[(i + rot) % len(chars)] for i in range(n))


def lengths_for(ls, big=True):
    """bound-1, bound, bound+1 for every stated SIZE bound, and far."""
    bs = _bounds(ls, 'size')
    out = []
    for b in bs:
        for n in (b - 1, b, b + 1):
            if n >= 0 and n not in out:
                out.append(n)
    lo, hi = _eff(ls, 'size')
    far = [(max(bs) if bs else 0) + 7, (max(bs) if bs else 0) * 2 + 131]
    for n in far:
        if n not in out:
            out.append(n)
    if 0 not in out:
        out.append(0)
    if not big:
        out = [n for n in out if n <= 300]
    return out


def valid_length(ls, want=2):
    lo, hi = _eff(ls, 'size')
    lo = lo or 0
    n = max(lo, want)
    if hi is not None:
        n = min(n, hi)
    return n


def valid_leaf_value(s, ls, fallback):
    """A value of leaf `s` inside every enforced layer (`fallback` when the leaf
    is unconstrained)."""
    k = s.kind
    if not ls:
        return fallback
    if k == 'INTEGER':
        lo, hi = _eff(ls, 'rng')
        if lo is None and hi is None:
            return 0
        if lo is None:
            return min(0, hi)
        if hi is None:
            return max(0, lo)
        return min(max(0, lo), hi)
    n = valid_length(ls)
    if k in STRING_KINDS:
        allowed, _ = _chars(k, ls)
        return _mk(allowed, n)
    if k == 'OCTETSTRING':
        return bytes((i * 37 + 1) & 0xff for i in range(n))
    if k == 'BITSTRING':
        b = bytearray((n + 7) // 8)
        if n:
            b[(n - 1) // 8] |= 0x80 >> ((n - 1) % 8)
        return (bytes(b), n)
    return fallback


def leaf_candidates(s, ls, big=True):
    """Boundary candidates for a constrained leaf: [(value, note)].  In-range and
    out-of-range alike; the verdict is always computed by `verdict`, never assumed
    from how a candidate was made."""
    k = s.kind
    out = []
    if k == 'INTEGER':
        bs = _bounds(ls, 'rng')
        vals = []
        for b in bs:
            vals += [b - 1, b, b + 1]
        if bs:
            vals += [min(bs) - 1000, max(bs) + 1000, min(bs) - 2**33 - 5, max(bs) + 2**33 + 5]
        vals += [0, -(2**70), 2**70]
        seen = set()
        for v in vals:
            if v not in seen:
                seen.add(v)
                out.append((v, 'int'))
        return out
    if k in STRING_KINDS:
        allowed, alphas = _chars(k, ls)
        for n in lengths_for(ls, big):
            v = _mk(allowed, n)
            if v is not None:
                out.append((v, 'len'))
                if 0 < n <= 300 and len(allowed) > 1:
                    out.append((_mk(allowed, n, len(allowed) - 1), 'len'))
        if alphas:
            n = max(valid_length(ls), 0)
            if n == 0:
                n = 1
            good = _mk(allowed, n) if allowed else None
            for c in _outside_chars(k, alphas):
                if good is not None:
                    out.append((c + good[1:], 'from-first'))
                    out.append((good[:-1] + c, 'from-last'))
                    if n > 2:
                        out.append((good[:1] + c + good[2:], 'from-mid'))
                else:
                    out.append((c * n, 'from-only'))
            # first and last permitted character on their own
            for a in alphas:
                cs = sorted(a)
                for c in (cs[0], cs[-1]):
                    if all(c in b for b in alphas):
                        out.append((c * n, 'from-edge'))
        return _dedupe(out)
    if k == 'OCTETSTRING':
        for n in lengths_for(ls, big):
            out.append((bytes((i * 37 + 1) & 0xff for i in range(n)), 'len'))
        return out
    if k == 'BITSTRING':
        for n in lengths_for(ls, big):
            b = bytearray((n + 7) // 8)
            if n:
                b[(n - 1) // 8] |= 0x80 >> ((n - 1) % 8)
            out.append(((bytes(b), n), 'len'))
            if s.named and n:
                out.append(((bytes((n + 7) // 8), n), 'len-zero-bits'))
        return out
    return out


def list_lengths(ls, big):
    return lengths_for(ls, big)


def _dedupe(xs):
    seen = set()
    out = []
    for v, note in xs:
        key = repr(v)
        if key not in seen:
            seen.add(key)
            out.append((v, note))
    return out
