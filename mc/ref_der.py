"""Independent X.690 DER encoder driven by the framework's own term AST.

Nothing here imports asn1tools.  `encode(term, value, env, tags, ext_implied,
numeric=False)` returns the distinguished encoding of `value` (library
representation, see mc/terms.py) of type `term` inside a module whose tag
default is `tags` (EXPLICIT | IMPLICIT | AUTOMATIC).

Rules whose text I cannot pin down with certainty, or on which two editions of
X.690 differ, are *unasserted*: `encode_all` returns every admissible encoding
(the primary one first) and a check must accept any of them.  The ledger below
names every rule with its status and is copied into the evidence.

Exceptions:
  Illegal      the program is not legal ASN.1 (tag collision in SET / CHOICE,
               IMPLICIT tag written on an untagged CHOICE) - no encoding is defined
  Incomplete   the value lacks a mandatory component / names an unknown
               alternative or enumeration item - the encoder under test may reject it
  Unsupported  outside what the model covers (stated in the ledger)
"""

import math
import struct
import datetime

from . import tlv
from .tlv import Node
from .terms import (Leaf, Seq, Cho, Of, Ref, Tag, M, Rng, STRING_KINDS, TIME_KINDS,
                    all_members, enum_numbers)
from .tagging import UNIVERSAL as UNIVERSAL_TAGS
from . import absval
from .values import to_numeric

CLS = {'UNIVERSAL': 0, 'APPLICATION': 1, '': 2, 'CONTEXT': 2, 'PRIVATE': 3}

LEDGER = [
    {'rule': 'identifier octets: class bits 8-7, P/C bit 6, number < 31 in bits 5-1, else 0x1f then base-128 '
             'groups, most significant first, no leading 0x80', 'clause': 'X.690 8.1.2', 'status': 'certain'},
    {'rule': 'definite length only; short form up to 127, long form with the fewest octets',
     'clause': 'X.690 8.1.3, 10.1', 'status': 'certain'},
    {'rule': 'BOOLEAN: one contents octet, FALSE 00, TRUE FF', 'clause': 'X.690 8.2, 11.1', 'status': 'vector'},
    {'rule': 'INTEGER / ENUMERATED: two\'s complement, fewest octets, at least one',
     'clause': 'X.690 8.3, 8.4', 'status': 'vector'},
    {'rule': 'ENUMERATED item numbers: explicit numbers kept, others 0,1,2.. skipping used numbers; additions get '
             'the smallest unused value above the previous addition', 'clause': 'X.680 20', 'status': 'certain'},
    {'rule': 'REAL: zero = no contents octets; PLUS/MINUS-INFINITY 40 / 41; otherwise binary encoding base 2, '
             'F = 0, mantissa odd, exponent and mantissa in the fewest octets (exponent forms 00/01/10/11)',
     'clause': 'X.690 8.5, 11.3', 'status': 'vector'},
    {'rule': 'REAL -0.0 and NaN', 'clause': 'X.690 8.5.9', 'status': 'unasserted (not in the value domain)'},
    {'rule': 'BIT STRING: primitive; initial octet = number of unused bits 0-7; unused bits zero; empty string = '
             'one octet 00', 'clause': 'X.690 8.6, 11.2.1', 'status': 'vector'},
    {'rule': 'BIT STRING with a named bit list: all trailing 0 bits removed before encoding (also under a SIZE '
             'constraint; the decoder restores them)', 'clause': 'X.690 11.2.2 and its NOTE 1', 'status': 'certain'},
    {'rule': 'OCTET STRING and restricted character strings: primitive', 'clause': 'X.690 10.2', 'status': 'certain'},
    {'rule': 'NULL: no contents octets', 'clause': 'X.690 8.8', 'status': 'vector'},
    {'rule': 'SEQUENCE / SEQUENCE OF: constructed, component encodings in the order of the definition (root, '
             'extension additions, root components after the second marker); version brackets are transparent',
     'clause': 'X.690 8.9, 8.10', 'status': 'vector'},
    {'rule': 'a component equal to its DEFAULT value is not encoded (abstract equality: named-bit strings modulo '
             'trailing zeros, nested absent-DEFAULT = default, SET OF as multiset)',
     'clause': 'X.690 11.5', 'status': 'certain'},
    {'rule': 'SET: all components (root and extension additions alike) in ascending tag order: class UNIVERSAL < '
             'APPLICATION < context < PRIVATE, then number', 'clause': 'X.690 10.3, X.680 8.6', 'status': 'certain'},
    {'rule': 'SET: position of a component that is an untagged CHOICE with several possible tags: by the tag '
             'actually encoded (X.690 1997 10.3 NOTE) or by the smallest tag of the CHOICE type (X.690 2002+ 10.3)',
     'clause': 'X.690 10.3', 'status': 'unasserted (editions differ; both orders accepted)'},
    {'rule': 'SET OF: element encodings in ascending order compared as octet strings (shorter padded with '
             'trailing zero octets)', 'clause': 'X.690 11.6', 'status': 'certain'},
    {'rule': 'CHOICE: the encoding of the chosen alternative, no tag of its own', 'clause': 'X.690 8.13',
     'status': 'certain'},
    {'rule': 'EXPLICIT tag = constructed wrapper; IMPLICIT tag replaces the outermost tag and keeps P/C',
     'clause': 'X.690 8.14', 'status': 'vector'},
    {'rule': 'a tag written on an untagged CHOICE type (also through a type reference) is EXPLICIT whatever the '
             'module default; writing IMPLICIT there is illegal', 'clause': 'X.680 31.2.7', 'status': 'certain'},
    {'rule': 'module default IMPLICIT TAGS / AUTOMATIC TAGS: tags without keyword are IMPLICIT; EXPLICIT TAGS or '
             'no default: EXPLICIT', 'clause': 'X.680 31.2.7, 13.2', 'status': 'certain'},
    {'rule': 'AUTOMATIC TAGS: applies to a SEQUENCE / SET / CHOICE only when none of its component types is '
             'textually a tagged type; context tags 0,1,2.. IMPLICIT (EXPLICIT on an untagged CHOICE)',
     'clause': 'X.680 25.7-25.9, 29.2-29.5', 'status': 'certain'},
    {'rule': 'AUTOMATIC TAGS numbering when root components follow the second extension marker: textual order, or '
             'root components first and then the additions', 'clause': 'X.680 25.8',
     'status': 'unasserted (both numberings accepted)'},
    {'rule': 'OBJECT IDENTIFIER: first subidentifier 40*X+Y, each subidentifier base 128 with the fewest octets',
     'clause': 'X.690 8.19', 'status': 'vector'},
    {'rule': 'NumericString, PrintableString, IA5String, VisibleString: one octet per character (ISO 646); '
             'UTF8String: UTF-8; BMPString: two octets per character big-endian; UniversalString: four octets '
             'per character big-endian', 'clause': 'X.690 8.23', 'status': 'vector'},
    {'rule': 'GeneralString, GraphicString, TeletexString, ObjectDescriptor: characters of the ISO 646 G0 set as '
             'one octet each', 'clause': 'X.690 8.23.5',
     'status': 'certain for ASCII values; other characters (escape sequences) unasserted: not in the value domain'},
    {'rule': 'UTCTime: YYMMDDHHMMSSZ; GeneralizedTime: YYYYMMDDHHMMSS[.f..]Z without trailing zeros in the '
             'fraction and without a bare decimal point; UTC', 'clause': 'X.690 11.7, 11.8', 'status': 'vector'},
    {'rule': 'DATE / TIME-OF-DAY / DATE-TIME: UNIVERSAL 31 / 32 / 33, primitive, contents YYYYMMDD / HHMMSS / '
             'YYYYMMDDHHMMSS', 'clause': 'X.690 8.26', 'status': 'vector (test_codecs_consistency asserts the same octets)'},
    {'rule': 'EXTENSIBILITY IMPLIED and extension markers do not change a BER/DER encoding',
     'clause': 'X.690 8.9-8.13', 'status': 'certain'},
]


class ModelError(Exception):
    pass


class Illegal(ModelError):
    pass


class Incomplete(ModelError):
    pass


class Unsupported(ModelError):
    pass


DEFAULT_OPTS = {'auto_root2': 'textual', 'set_choice': 'smallest'}
ALT_OPTS = {'auto_root2': ('textual', 'root-first'), 'set_choice': ('smallest', 'encoded')}


# ---------------------------------------------------------------------------
# leaf contents

def int_octets(n):
    """Two's complement, fewest octets (X.690 8.3)."""
    if n >= 0:
        length = n.bit_length() // 8 + 1
    else:
        length = (-n - 1).bit_length() // 8 + 1
    return n.to_bytes(length, 'big', signed=True)


def base128(n):
    out = [n & 0x7f]
    n >>= 7
    while n:
        out.append(0x80 | (n & 0x7f))
        n >>= 7
    return bytes(reversed(out))


def oid_octets(s):
    try:
        arcs = [int(x) for x in s.split('.')]
    except (ValueError, AttributeError):
        raise Incomplete('not an OBJECT IDENTIFIER value: %r' % (s,))
    if len(arcs) < 2 or arcs[0] not in (0, 1, 2) or min(arcs) < 0:
        raise Incomplete('not an OBJECT IDENTIFIER value: %r' % (s,))
    if arcs[0] < 2 and arcs[1] > 39:
        raise Incomplete('second arc above 39 under arc %d' % arcs[0])
    return base128(40 * arcs[0] + arcs[1]) + b''.join(base128(a) for a in arcs[2:])


def real_octets(x):
    """X.690 8.5 with the DER restrictions of 11.3 for a base-2 value."""
    if isinstance(x, bool) or not isinstance(x, (int, float)):
        raise Incomplete('not a REAL value: %r' % (x,))
    x = float(x)
    if x != x:
        raise Unsupported('NaN')
    if x == 0.0:
        if math.copysign(1.0, x) < 0:
            raise Unsupported('minus zero')
        return b''
    if x == float('inf'):
        return b'\x40'
    if x == float('-inf'):
        return b'\x41'
    # exact: |x| = num / den with den a power of two
    num, den = abs(x).as_integer_ratio()
    exp = -(den.bit_length() - 1)
    while num % 2 == 0:
        num //= 2
        exp += 1
    e = int_octets(exp)
    first = 0x80 | (0x40 if x < 0 else 0)
    if len(e) <= 3:
        head = bytes([first | (len(e) - 1)]) + e
    else:
        head = bytes([first | 3, len(e)]) + e
    return head + num.to_bytes((num.bit_length() + 7) // 8, 'big')


def bitstring_octets(v, named):
    try:
        data, n = v
        data = bytes(data)
    except (TypeError, ValueError):
        raise Incomplete('not a BIT STRING value: %r' % (v,))
    if n < 0 or n > 8 * len(data):
        raise Incomplete('bit count exceeds the data')
    bits = int.from_bytes(data, 'big') >> (8 * len(data) - n) if n else 0
    if named:
        while n and not bits & 1:
            bits >>= 1
            n -= 1
    unused = -n % 8
    return bytes([unused]) + (bits << unused).to_bytes((n + 7) // 8, 'big')


_ASCII_KINDS = ('NumericString', 'PrintableString', 'IA5String', 'VisibleString')
_G0_KINDS = ('GeneralString', 'GraphicString', 'TeletexString', 'ObjectDescriptor')


def string_octets(kind, s):
    if not isinstance(s, str):
        raise Incomplete('not a character string: %r' % (s,))
    if kind in _ASCII_KINDS:
        if any(ord(c) > 127 for c in s):
            raise Incomplete('character outside ISO 646 in ' + kind)
        return bytes(ord(c) for c in s)
    if kind in _G0_KINDS:
        if any(ord(c) > 127 for c in s):
            raise Unsupported('non-ASCII character in ' + kind)
        return bytes(ord(c) for c in s)
    if kind == 'UTF8String':
        out = bytearray()
        for c in s:
            out += _utf8(ord(c))
        return bytes(out)
    if kind == 'BMPString':
        if any(ord(c) > 0xffff for c in s):
            raise Incomplete('character outside the BMP')
        return b''.join(struct.pack('>H', ord(c)) for c in s)
    if kind == 'UniversalString':
        return b''.join(struct.pack('>I', ord(c)) for c in s)
    raise Unsupported(kind)


def _utf8(cp):
    if cp < 0x80:
        return bytes([cp])
    if cp < 0x800:
        return bytes([0xc0 | cp >> 6, 0x80 | cp & 0x3f])
    if cp < 0x10000:
        if 0xd800 <= cp <= 0xdfff:
            raise Incomplete('surrogate code point')
        return bytes([0xe0 | cp >> 12, 0x80 | (cp >> 6) & 0x3f, 0x80 | cp & 0x3f])
    return bytes([0xf0 | cp >> 18, 0x80 | (cp >> 12) & 0x3f, 0x80 | (cp >> 6) & 0x3f, 0x80 | cp & 0x3f])


def _utc(dt):
    if not isinstance(dt, datetime.datetime):
        raise Incomplete('not a datetime: %r' % (dt,))
    if dt.tzinfo is not None:
        dt = (dt - dt.utcoffset()).replace(tzinfo=None)
    return dt


def time_octets(kind, v):
    if kind == 'UTCTime':
        dt = _utc(v)
        if dt.microsecond:
            raise Unsupported('UTCTime with a fraction of a second')
        return ('%02d%02d%02d%02d%02d%02dZ' % (dt.year % 100, dt.month, dt.day, dt.hour, dt.minute,
                                                dt.second)).encode('ascii')
    if kind == 'GeneralizedTime':
        dt = _utc(v)
        s = '%04d%02d%02d%02d%02d%02d' % (dt.year, dt.month, dt.day, dt.hour, dt.minute, dt.second)
        if dt.microsecond:
            s += '.' + ('%06d' % dt.microsecond).rstrip('0')
        return (s + 'Z').encode('ascii')
    if kind == 'DATE':
        if not isinstance(v, datetime.date) or isinstance(v, datetime.datetime):
            raise Incomplete('not a date')
        return ('%04d%02d%02d' % (v.year, v.month, v.day)).encode('ascii')
    if kind == 'TIME-OF-DAY':
        if not isinstance(v, datetime.time):
            raise Incomplete('not a time')
        if v.microsecond:
            raise Unsupported('TIME-OF-DAY with a fraction')
        return ('%02d%02d%02d' % (v.hour, v.minute, v.second)).encode('ascii')
    if kind == 'DATE-TIME':
        if not isinstance(v, datetime.datetime):
            raise Incomplete('not a datetime')
        if v.microsecond:
            raise Unsupported('DATE-TIME with a fraction')
        return ('%04d%02d%02d%02d%02d%02d' % (v.year, v.month, v.day, v.hour, v.minute, v.second)).encode('ascii')
    raise Unsupported(kind)


# ---------------------------------------------------------------------------
# the encoder

class Encoder(object):

    def __init__(self, env, tags='EXPLICIT', ext_implied=False, numeric=False, opts=None):
        if tags not in ('EXPLICIT', 'IMPLICIT', 'AUTOMATIC'):
            raise ValueError(tags)
        self.env = env or {}
        self.tags = tags
        self.numeric = numeric
        self.opts = dict(DEFAULT_OPTS)
        if opts:
            self.opts.update(opts)
        self.touched = set()         # names of unasserted options the last encoding depended on
        self._members_cache = {}
        self._tagset_cache = {}

    # -- tagging environment ------------------------------------------------

    def deref(self, t):
        n = 0
        while isinstance(t, Ref):
            if t.name not in self.env:
                raise Illegal('undefined type reference ' + t.name)
            t = self.env[t.name]
            n += 1
            if n > 64:
                raise Illegal('reference cycle')
        return t

    def untagged_choice(self, t):
        return isinstance(self.deref(t), Cho)

    def explicit(self, tag):
        if self.untagged_choice(tag.inner):
            if tag.mode == 'IMPLICIT':
                raise Illegal('IMPLICIT tag on an untagged CHOICE')
            return True
        if tag.mode == 'EXPLICIT':
            return True
        if tag.mode in ('IMPLICIT', 'AUTO'):
            return False
        return self.tags == 'EXPLICIT'

    def members(self, t):
        """[(M, effective type)] of a Seq / Cho in textual order, automatic tags applied."""
        key = (id(t), self.opts['auto_root2'])
        hit = self._members_cache.get(key)
        if hit is not None and hit[0] is t:
            if hit[2]:
                self.touched.add('auto_root2')
            return hit[1]
        ms = all_members(t)
        auto = self.tags == 'AUTOMATIC' and not any(isinstance(m.t, Tag) for m in ms)
        touched = False
        if not auto:
            out = [(m, m.t) for m in ms]
        else:
            order = list(range(len(ms)))
            if isinstance(t, Seq) and t.root2 and len(ms) > len(t.root) + len(t.root2):
                touched = True
                if self.opts['auto_root2'] == 'root-first':
                    nroot, nroot2 = len(t.root), len(t.root2)
                    nadd = len(ms) - nroot - nroot2
                    order = (list(range(nroot)) + list(range(nroot + nadd, len(ms)))
                             + list(range(nroot, nroot + nadd)))
            number = {idx: i for i, idx in enumerate(order)}
            out = [(m, Tag(number[i], m.t, '', 'AUTO')) for i, m in enumerate(ms)]
        if touched:
            self.touched.add('auto_root2')
        self._members_cache[key] = (t, out, touched)
        return out

    def tagset(self, t, _seen=()):
        """Every (class, number) the encoding of a value of t can start with."""
        if isinstance(t, Ref):
            if t.name in _seen:
                raise Illegal('CHOICE that contains itself without a tag')
            if t.name not in self.env:
                raise Illegal('undefined type reference ' + t.name)
            return self.tagset(self.env[t.name], _seen + (t.name,))
        if isinstance(t, Tag):
            self.explicit(t)         # legality of the tag itself
            return frozenset([(CLS[t.cls], t.num)])
        if isinstance(t, Leaf):
            return frozenset([(0, UNIVERSAL_TAGS[t.kind])])
        if isinstance(t, Seq):
            return frozenset([(0, 17 if t.is_set else 16)])
        if isinstance(t, Of):
            return frozenset([(0, 17 if t.is_set else 16)])
        if isinstance(t, Cho):
            out = set()
            for m, et in self.members(t):
                s = self.tagset(et, _seen)
                if out & s:
                    raise Illegal('CHOICE alternatives share the tag %s' % sorted(out & s))
                out |= s
            return frozenset(out)
        raise TypeError(t)

    # -- values -----------------------------------------------------------------

    def node(self, t, v):
        if isinstance(t, Ref):
            if t.name not in self.env:
                raise Illegal('undefined type reference ' + t.name)
            return self.node(self.env[t.name], v)
        if isinstance(t, Tag):
            inner = self.node(t.inner, v)
            cls = CLS[t.cls]
            if self.explicit(t):
                return Node(cls, True, t.num, children=[inner])
            if inner.constructed:
                return Node(cls, True, t.num, children=inner.children)
            return Node(cls, False, t.num, content=inner.content)
        if isinstance(t, Leaf):
            return Node(0, False, UNIVERSAL_TAGS[t.kind], content=self.leaf(t, v))
        if isinstance(t, Seq):
            return self.seq(t, v)
        if isinstance(t, Cho):
            if not (isinstance(v, tuple) and len(v) == 2):
                raise Incomplete('not a CHOICE value: %r' % (v,))
            self.tagset(t)           # distinct tags
            for m, et in self.members(t):
                if m.name == v[0]:
                    return self.node(et, v[1])
            raise Incomplete('unknown alternative %r' % (v[0],))
        if isinstance(t, Of):
            if not isinstance(v, (list, tuple)):
                raise Incomplete('not a list: %r' % (v,))
            kids = [self.node(t.elem, x) for x in v]
            if t.is_set:
                kids = self.order_set_of(kids)
            return Node(0, True, 17 if t.is_set else 16, children=kids)
        raise TypeError(t)

    def leaf(self, t, v):
        k = t.kind
        if k == 'BOOLEAN':
            if not isinstance(v, bool):
                raise Incomplete('not a BOOLEAN: %r' % (v,))
            return b'\xff' if v else b'\x00'
        if k == 'INTEGER':
            if isinstance(v, bool) or not isinstance(v, int):
                raise Incomplete('not an INTEGER: %r' % (v,))
            return int_octets(v)
        if k == 'ENUMERATED':
            root, adds = enum_numbers(t)
            table = dict(root + (adds or []))
            if self.numeric:
                if isinstance(v, bool) or not isinstance(v, int) or v not in table.values():
                    raise Incomplete('not an enumeration number: %r' % (v,))
                return int_octets(v)
            if not isinstance(v, str) or v not in table:
                raise Incomplete('not an enumeration item: %r' % (v,))
            return int_octets(table[v])
        if k == 'REAL':
            return self.real_octets(v)
        if k == 'NULL':
            if v is not None:
                raise Incomplete('not NULL: %r' % (v,))
            return b''
        if k == 'OID':
            return oid_octets(v)
        if k == 'BITSTRING':
            return self.bit_octets(t, v)
        if k == 'OCTETSTRING':
            if not isinstance(v, (bytes, bytearray)):
                raise Incomplete('not an OCTET STRING: %r' % (v,))
            return bytes(v)
        if k in STRING_KINDS:
            return string_octets(k, v)
        if k in TIME_KINDS:
            return time_octets(k, v)
        raise Unsupported(k)

    # -- hooks (the rules a deviating encoder would get wrong; overridden by mc/kp_c03.DevEncoder) --

    def order_set_of(self, kids):
        """X.690 11.6: ascending order of the element encodings."""
        return [k for _, k in sorted(((tlv.serialise(k), i), k) for i, k in enumerate(kids))]

    def bit_octets(self, t, v):
        return bitstring_octets(v, bool(t.named))

    def real_octets(self, v):
        return real_octets(v)

    def omits_default(self, m, x):
        """X.690 11.5: is value x of component m (which has a DEFAULT) equal to the default?"""
        d = to_numeric(m.t, m.default, self.env) if self.numeric else m.default
        return absval.eq(m.t, x, d, self.env, self.numeric)

    def order_sequence(self, t, present):
        """X.690 8.9.2: order of the definition (all_members is textual order)."""
        return present

    def order_set(self, t, ms, present):
        """X.690 10.3 (see the ledger for the untagged-CHOICE case)."""
        tagsets = [(m, self.tagset(et)) for m, et in ms]
        seen = {}
        for m, s in tagsets:
            for tg in s:
                if tg in seen:
                    raise Illegal('SET components %s and %s share the tag %s' % (seen[tg], m.name, tg))
                seen[tg] = m.name
        smallest = {m.name: min(s) for m, s in tagsets if s}
        multi = {m.name for m, s in tagsets if len(s) > 1}
        if len(present) > 1 and any(m.name in multi for m, _, _ in present):
            a = sorted(present, key=lambda p: smallest[p[0].name])
            b = sorted(present, key=lambda p: p[2].tag())
            if [p[0].name for p in a] != [p[0].name for p in b]:
                self.touched.add('set_choice')
            return a if self.opts['set_choice'] == 'smallest' else b
        return sorted(present, key=lambda p: p[2].tag())

    def seq(self, t, v):
        if not isinstance(v, dict):
            raise Incomplete('not a SEQUENCE / SET value: %r' % (v,))
        ms = self.members(t)
        known = {m.name for m, _ in ms}
        extra = set(v) - known
        if extra:
            raise Incomplete('unknown components %s' % sorted(extra))
        present = []
        for m, et in ms:
            if m.name not in v:
                if m.q == 'M':
                    raise Incomplete('mandatory component %s is missing' % m.name)
                continue
            x = v[m.name]
            if m.q == 'D' and self.omits_default(m, x):
                continue
            present.append((m, et, self.node(et, x)))
        if t.is_set:
            present = self.order_set(t, ms, present)
        else:
            present = self.order_sequence(t, present)
        return Node(0, True, 17 if t.is_set else 16, children=[n for _, _, n in present])


def encode_tree(term, value, env, tags='EXPLICIT', ext_implied=False, numeric=False, opts=None):
    return Encoder(env, tags, ext_implied, numeric, opts).node(term, value)


def encode(term, value, env, tags='EXPLICIT', ext_implied=False, numeric=False, opts=None):
    """The distinguished encoding (primary variant of the unasserted rules)."""
    return tlv.serialise(Encoder(env, tags, ext_implied, numeric, opts).node(term, value))


def encode_all(term, value, env, tags='EXPLICIT', ext_implied=False, numeric=False, Encoder=None):
    """Every admissible distinguished encoding: one element unless the case
    depends on an unasserted rule.  -> (list of distinct bytes, names of the
    unasserted rules involved).  `Encoder` may name a subclass (or factory)."""
    Encoder = Encoder or globals()['Encoder']
    e = Encoder(env, tags, ext_implied, numeric)
    first = tlv.serialise(e.node(term, value))
    out = [first]
    touched = set(e.touched)
    if touched:
        names = sorted(touched)
        combos = [{}]
        for nm in names:
            combos = [dict(c, **{nm: alt}) for c in combos for alt in ALT_OPTS[nm]]
        for c in combos:
            e2 = Encoder(env, tags, ext_implied, numeric, c)
            b = tlv.serialise(e2.node(term, value))
            # a choice of one option can expose a dependency on the other
            if e2.touched - touched:
                touched |= e2.touched
            if b not in out:
                out.append(b)
        if touched - set(names):
            combos = [{}]
            for nm in sorted(touched):
                combos = [dict(c, **{nm: alt}) for c in combos for alt in ALT_OPTS[nm]]
            for c in combos:
                b = tlv.serialise(Encoder(env, tags, ext_implied, numeric, c).node(term, value))
                if b not in out:
                    out.append(b)
    return out, sorted(touched)


# ---------------------------------------------------------------------------
# self test: X.690 worked examples, vectors asserted by the repository's tests
# (each one checked against the rule it exercises), pyasn1 cross-check

def _selftest_vectors():
    L = Leaf
    B, I, VS = L('BOOLEAN'), L('INTEGER'), L('VisibleString')
    h = bytes.fromhex
    dt = datetime.datetime
    v = []          # (label, term, value, env, tags, expected bytes)

    def add(label, term, value, expected, env=None, tags='EXPLICIT'):
        v.append((label, term, value, env or {}, tags, expected if isinstance(expected, bytes) else h(expected)))

    # ---- X.690 worked examples ------------------------------------------------
    add('X.690 8.2.2 BOOLEAN TRUE', B, True, '0101ff')
    add('X.690 8.6.4.2 BIT STRING 0A3B5F291CD', L('BITSTRING'), (h('0a3b5f291cd0'), 44), '0307040a3b5f291cd0')
    add('X.690 8.8.2 NULL', L('NULL'), None, '0500')
    add('X.690 8.9.3 SEQUENCE {name IA5String, ok BOOLEAN}', Seq((M('name', L('IA5String')), M('ok', B))),
        {'name': 'Smith', 'ok': True}, '300a1605536d6974680101ff')
    tenv = {'Type1': VS, 'Type2': Tag(3, Ref('Type1'), 'APPLICATION', 'IMPLICIT'), 'Type3': Tag(2, Ref('Type2')),
            'Type4': Tag(7, Ref('Type3'), 'APPLICATION', 'IMPLICIT'), 'Type5': Tag(2, Ref('Type2'), '', 'IMPLICIT')}
    for name, exp in [('Type1', '1a054a6f6e6573'), ('Type2', '43054a6f6e6573'), ('Type3', 'a20743054a6f6e6573'),
                      ('Type4', '670743054a6f6e6573'), ('Type5', '82054a6f6e6573')]:
        add('X.690 8.14.3 ' + name, Ref(name), 'Jones', exp, tenv)
    add('X.690 8.19.5 OID {2 100 3}', L('OID'), '2.100.3', '0603813403')
    add('X.690 8.21.5.4 VisibleString Jones', VS, 'Jones', '1a054a6f6e6573')
    # Annex A personnel record; Annex A shows a BER encoding with the SET in textual
    # order, the DER form below has the same TLVs in tag order (APPLICATION before context)
    penv = {
        'Name': Tag(1, Seq((M('givenName', VS), M('initial', VS), M('familyName', VS))), 'APPLICATION', 'IMPLICIT'),
        'EmployeeNumber': Tag(2, I, 'APPLICATION', 'IMPLICIT'),
        'Date': Tag(3, VS, 'APPLICATION', 'IMPLICIT'),
        'ChildInformation': Seq((M('name', Ref('Name')), M('dateOfBirth', Tag(0, Ref('Date')))), is_set=True),
        'PersonnelRecord': Tag(0, Seq((
            M('name', Ref('Name')), M('title', Tag(0, VS)), M('number', Ref('EmployeeNumber')),
            M('dateOfHire', Tag(1, Ref('Date'))), M('nameOfSpouse', Tag(2, Ref('Name'))),
            M('children', Tag(3, Of(Ref('ChildInformation')), '', 'IMPLICIT'), 'D', default=[])), is_set=True),
            'APPLICATION', 'IMPLICIT'),
    }
    rec = {'name': {'givenName': 'John', 'initial': 'P', 'familyName': 'Smith'}, 'title': 'Director', 'number': 51,
           'dateOfHire': '19710917', 'nameOfSpouse': {'givenName': 'Mary', 'initial': 'T', 'familyName': 'Smith'},
           'children': [{'name': {'givenName': 'Ralph', 'initial': 'T', 'familyName': 'Smith'},
                         'dateOfBirth': '19571111'},
                        {'name': {'givenName': 'Susan', 'initial': 'B', 'familyName': 'Jones'},
                         'dateOfBirth': '19590717'}]}
    name = '61101a044a6f686e1a01501a05536d697468'
    add('X.690 Annex A personnel record (DER order)', Ref('PersonnelRecord'), rec,
        '608185' + name + '420133' + 'a00a1a084469726563746f72' + 'a10a43083139373130393137'
        + 'a21261101a044d6172791a01541a05536d697468'
        + 'a342' + '311f61111a0552616c70681a01541a05536d697468a00a43083139353731313131'
        + '311f61111a05537573616e1a01421a054a6f6e6573a00a43083139353930373137', penv)
    add('Annex A record without children (DEFAULT {} omitted)', Ref('PersonnelRecord'), dict(rec, children=[]),
        '6041' + name + '420133' + 'a00a1a084469726563746f72' + 'a10a43083139373130393137'
        + 'a21261101a044d6172791a01541a05536d697468', penv)
    # ---- REAL (8.5 / 11.3) -------------------------------------------------------
    for x, exp in [(255.0, '09038000ff'), (16777215.0, '09058000ffffff'), (1e10, '0905800a9502f9'),
                   (0.0, '0900'), (1.0, '0903800001'), (2.0, '0903800101'), (0.5, '090380ff01'),
                   (-2.5, '0903c0ff05'), (100.0, '0903800219'), (-100.0, '0903c00219'),
                   (float('inf'), '090140'), (float('-inf'), '090141'),
                   (0.1, '090980c90ccccccccccccd'), (3.0, '0903800003'), (256.0, '0903800801'),
                   (2.0 ** -149, '090481ff6b01'), (2.0 ** 200, '09048100c801'), (2.0 ** -1074, '090481fbce01'),
                   (2.0 ** 127, '0903807f01'), (2.0 ** 128, '090481008001'), (2.0 ** -128, '0903808001'),
                   (2.0 ** -129, '090481ff7f01')]:
        add('REAL %r' % x, L('REAL'), x, exp)
    # ---- vectors asserted by /repo/tests/test_der.py (each checked against the rule) --
    for n, exp in [(32768, '0203008000'), (32767, '02027fff'), (256, '02020100'), (255, '020200ff'),
                   (128, '02020080'), (127, '02017f'), (1, '020101'), (0, '020100'), (-1, '0201ff'),
                   (-128, '020180'), (-129, '0202ff7f'), (-256, '0202ff00'), (-32768, '02028000'),
                   (-32769, '0203ff7fff')]:
        add('test_der.test_integer %d' % n, I, n, exp)
    add('test_der.test_integer 1<<2048', I, 1 << 2048, h('0282010101') + bytes(256))
    BS = L('BITSTRING')
    NB = L('BITSTRING', named=(('a', 0), ('b', 1), ('c', 2)))
    for term, val, exp in [(BS, (b'', 0), '030100'), (BS, (b'\x40', 4), '03020440'), (BS, (b'\x80', 1), '03020780'),
                           (BS, (b'\x00\x00', 9), '0303070000'), (NB, (b'\x80', 1), '03020780'),
                           (NB, (b'\xe0', 3), '030205e0'), (NB, (b'\x01', 8), '03020001'),
                           (BS, (b'\xff', 1), '03020780')]:
        add('test_der.test_bit_string %r' % (val,), term, val, exp)
    benv = {'A': BS, 'B': NB}
    C = Seq((M('a', Ref('B'), 'D', default=(b'\x60', 3)), M('b', Ref('B'), 'D', default=(b'\x60', 3)),
             M('c', Ref('B'), 'D', default=(b'\x60', 3))))
    add('test_der.test_bit_string C non-default', C, {'a': (b'\x40', 2), 'b': (b'\x40', 2), 'c': (b'\x40', 2)},
        '300c800206408102064082020640', benv, 'AUTOMATIC')
    add('test_der.test_bit_string C default', C, {'a': (b'\x60', 3), 'b': (b'\x60', 3), 'c': (b'\x60', 3)},
        '3000', benv, 'AUTOMATIC')
    add('test_der.test_bit_string C default with trailing zero bits', C,
        {'a': (b'\x60', 4), 'b': (b'\x60', 5), 'c': (b'\x60', 6)}, '3000', benv, 'AUTOMATIC')
    D = Seq((M('a', Ref('A'), 'D', default=(b'\x00', 2)), M('b', Ref('B'), 'D', default=(b'\x00', 2))))
    add('test_der.test_bit_string D', D, {'a': (b'\x00', 2), 'b': (b'\x00', 2)}, '3000', benv, 'AUTOMATIC')
    add('test_der.test_bit_string D 3 bits', D, {'a': (b'\x00', 3), 'b': (b'\x00', 3)}, '300480020500', benv,
        'AUTOMATIC')
    OS = L('OCTETSTRING')
    A2 = Seq((M('a', OS, 'D', default=b'\x00\x60'), M('b', OS, 'D', default=b'\x00\x06\x00')))
    add('test_der.test_octet_string default', A2, {'a': b'\x00\x60', 'b': b'\x00\x06\x00'}, '3000', None, 'AUTOMATIC')
    add('test_der.test_octet_string', A2, {'a': b'\xcc', 'b': b'\xdd'}, '30068001cc8101dd', None, 'AUTOMATIC')
    add('test_der.test_octet_string one', A2, {'a': b'\xcc'}, '30038001cc', None, 'AUTOMATIC')
    for tm in (Seq((M('a', Tag(0, I)), M('b', Tag(1, I))), is_set=True),
               Seq((M('b', Tag(1, I)), M('a', Tag(0, I))), is_set=True)):
        add('test_der.test_set (vector asserted there for ber; tag order)', tm, {'a': 3, 'b': 4},
            '3106800103810104', None, 'IMPLICIT')
    add('test_der.test_utf8_string', L('UTF8String'), 'aတc', '0c0561e1809063')
    add('test_der.test_graphic_string', L('GraphicString'), 'f', '190166')
    add('test_der.test_universal_string', L('UniversalString'), '\xe5\xe4\xf6', '1c0c000000e5000000e4000000f6')
    add('test_der.test_utc_time', L('UTCTime'), dt(2018, 1, 22, 13, 0), b'\x17\x0d180122130000Z')
    add('test_der.test_utc_time 2', L('UTCTime'), dt(2001, 2, 3, 4, 5, 6), b'\x17\x0d010203040506Z')
    add('test_der.test_generalized_time', L('GeneralizedTime'), dt(2018, 1, 22, 13, 29), b'\x18\x0f20180122132900Z')
    add('test_der.test_generalized_time 2', L('GeneralizedTime'), dt(2000, 12, 31, 23, 59, 59),
        b'\x18\x0f20001231235959Z')
    add('GeneralizedTime fraction without trailing zeros (X.690 11.7.3)', L('GeneralizedTime'),
        dt(2018, 1, 31, 5, 0, 47, 123000), b'\x18\x1320180131050047.123Z')
    add('test_der.test_all_types octets 127', OS, 127 * b'\x55', b'\x04\x7f' + 127 * b'\x55')
    add('test_der.test_all_types octets 128', OS, 128 * b'\xaa', b'\x04\x81\x80' + 128 * b'\xaa')
    add('test_der.test_all_types oid 1.2', L('OID'), '1.2', '06012a')
    add('test_der.test_all_types enumerated one', L('ENUMERATED', enum=(('one', 1),)), 'one', '0a0101')
    add('test_der.test_all_types Sequence2 default', Seq((M('a', I, 'D', default=0),)), {'a': 0}, '3000')
    add('test_der.test_all_types Sequence2', Seq((M('a', I, 'D', default=0),)), {'a': 1}, '3003020101')
    add('test_der.test_all_types Set2 default', Seq((M('a', I, 'D', default=1),), is_set=True), {'a': 1}, '3100')
    add('test_der.test_all_types Set2', Seq((M('a', I, 'D', default=1),), is_set=True), {'a': 2}, '3103020102')
    add('test_der.test_all_types bmp', L('BMPString'), 'bar', '1e06006200610072')
    add('test_der.test_all_types teletex', L('TeletexString'), 'fum', b'\x14\x03fum')
    add('test_der.test_all_types numeric', L('NumericString'), '123', b'\x12\x03123')
    add('test_der.test_all_types general', L('GeneralString'), 'bar', b'\x1b\x03bar')
    add('test_der.test_all_types SequenceOf []', Of(I), [], '3000')
    add('test_der.test_all_types SetOf []', Of(I, is_set=True), [], '3100')
    # Sequence13 ::= SEQUENCE { a [0] IMPLICIT List OPTIONAL, b [1] IMPLICIT List OPTIONAL }
    s13 = Seq((M('a', Tag(0, Ref('List'), '', 'IMPLICIT'), 'O'), M('b', Tag(1, Ref('List'), '', 'IMPLICIT'), 'O')))
    add('test_der.test_all_types Sequence13 a', s13, {'a': [1]}, '3005a003020101', {'List': Of(I)})
    add('test_der.test_all_types Sequence13 b', s13, {'b': [1]}, '3005a103020101', {'List': Of(I)})
    # ---- test_ber.test_module_tags_explicit / _implicit / _automatic (no SET, so BER output = DER) ----
    S1 = Seq((M('a', I), M('b', B, 'O')))
    menv = {'A': Tag(3, I), 'AI': Tag(3, I, '', 'IMPLICIT'), 'BA': Tag(4, Ref('A')),
            'BIA': Tag(4, Ref('A'), '', 'IMPLICIT'), 'BIAI': Tag(4, Ref('AI'), '', 'IMPLICIT'),
            'CBA': Tag(5, Ref('BA')), 'CBIAI': Tag(5, Ref('BIAI')), 'CIBIA': Tag(5, Ref('BIA'), '', 'IMPLICIT'),
            'CIBIAI': Tag(5, Ref('BIAI'), '', 'IMPLICIT'), 'S1': S1,
            'S2': Seq((M('a', I), M('b', Tag(2, Ref('S1'))), M('c', Cho((M('a', B),))))),
            'S3': Seq((M('a', I), M('b', Tag(2, Ref('S1'))), M('c', Tag(3, Cho((M('a', B),)), '', 'EXPLICIT')))),
            'S4': Seq((M('a', I), M('b', Tag(1, Ref('C1'))), M('c', Tag(2, Ref('S1'))), M('d', Cho((M('a', B),))))),
            'C1': Cho((M('a', Tag(0, Cho((M('a', Tag(0, I)),)))),))}
    v2 = {'a': 1, 'b': {'a': 3}, 'c': ('a', True)}
    v4 = {'a': 1, 'b': ('a', ('a', 2)), 'c': {'a': 3}, 'd': ('a', True)}
    for mode, rows in [
        ('EXPLICIT', [('CBA', 1, 'a507a405a303020101'), ('CBIAI', 1, 'a503840101'), ('CIBIA', 1, 'a503020101'),
                      ('CIBIAI', 1, '850101'), ('S2', v2, '300d020101a2053003020103' + '0101ff'),
                      ('S3', v2, '300f020101a2053003020103a3030101ff'),
                      ('S4', v4, '3016020101a107a005a003020102a20530030201030101ff')]),
        ('IMPLICIT', [('CBA', 1, '850101'), ('CBIAI', 1, '850101'), ('CIBIA', 1, '850101'), ('CIBIAI', 1, '850101'),
                      ('S2', v2, '300b020101a2030201030101ff'), ('S3', v2, '300d020101a203020103a3030101ff'),
                      ('S4', v4, '3012020101a105a003800102a2030201030101ff')]),
        ('AUTOMATIC', [('CBA', 1, '850101'), ('CIBIAI', 1, '850101'),
                       ('S2', v2, '300b020101a2038001038001ff'), ('S3', v2, '300d020101a203800103a3038001ff'),
                       ('S4', v4, '3012020101a105a003800102a2038001038001ff')])]:
        for tname, val, exp in rows:
            add('test_ber.test_module_tags_%s %s' % (mode.lower(), tname), Ref(tname), val, exp, menv, mode)
    add('test_der.test_long_tag A', Tag(31, I), 1, '9f1f0101', None, 'IMPLICIT')
    add('test_der.test_long_tag B', Tag(500, I), 1, '9f83740101', None, 'IMPLICIT')
    nenv = {'INNERSEQ': Seq((M('innernumber', Tag(21, I)),)), 'INNER': Tag(20, Ref('INNERSEQ'), 'APPLICATION'),
            'OUTERSEQ': Seq((M('outernumber', Tag(11, I)), M('inner', Tag(12, Ref('INNER'))))),
            'OUTER': Tag(10, Ref('OUTERSEQ'), 'APPLICATION')}
    add('test_ber.test_nested_explicit_tags', Ref('OUTER'), {'outernumber': 23, 'inner': {'innernumber': 42}},
        '6a123010ab03020117ac0974073005b50302012a', nenv)
    add('test_ber.test_boolean_explicit_tags', Tag(2, B), True, 'a2030101ff')
    add('test_ber.test_boolean_implicit_tags', Tag(2, B, '', 'IMPLICIT'), True, '8201ff')
    # ---- test_codecs_consistency vectors (ber and der) for the X.680 time types (8.26) --
    add('test_codecs_consistency DATE 1985-04-12', L('DATE'), datetime.date(1985, 4, 12), b'\x1f\x1f\x0819850412')
    add('test_codecs_consistency TIME-OF-DAY 15:27:46', L('TIME-OF-DAY'), datetime.time(15, 27, 46), b'\x1f\x20\x06152746')
    add('test_codecs_consistency DATE-TIME', L('DATE-TIME'), dt(1985, 4, 12, 15, 27, 46), b'\x1f\x21\x0e19850412152746')
    # ---- rules without a vector above, hand-derived ---------------------------------
    add('tag number 31', Tag(31, B, '', 'IMPLICIT'), True, '9f1f01ff')
    add('tag number 128 explicit', Tag(128, B, 'PRIVATE', 'EXPLICIT'), False, 'ff810003010100')
    add('SET OF sorted, duplicates kept', Of(I, is_set=True), [256, 1, 0, 1, -1],
        '3110' + '020100' + '020101' + '020101' + '0201ff' + '02020100')
    add('SET OF OCTET STRING: shorter first when a prefix', Of(OS, is_set=True), [b'\x01\x00', b'\x01', b''],
        '3109' + '0400' + '040101' + '04020100')
    add('named bits: trailing zeros removed', NB, (b'\xa0', 8), '030205a0')
    add('named bits: all zero', NB, (b'\x00', 3), '030100')
    add('named bits under SIZE: still trimmed', L('BITSTRING', named=(('a', 0),), size=Rng(8, 8)), (b'\x80', 8),
        '03020780')
    cho = Cho((M('x', I), M('y', B)))
    add('tag on a CHOICE is explicit under IMPLICIT TAGS', Seq((M('c', Tag(0, cho)),)), {'c': ('y', True)},
        '3005a0030101ff', None, 'IMPLICIT')
    add('AUTOMATIC: CHOICE member explicit, others implicit', Seq((M('a', I), M('c', cho))), {'a': 5, 'c': ('x', 7)},
        '3008800105a103800107', None, 'AUTOMATIC')
    add('AUTOMATIC is off when one member is tagged', Seq((M('a', Tag(5, I)), M('b', B))), {'a': 5, 'b': True},
        '30068501050101ff', None, 'AUTOMATIC')
    add('SET: universal < application < context < private',
        Seq((M('p', Tag(0, B, 'PRIVATE', 'IMPLICIT')), M('c', Tag(0, B, '', 'IMPLICIT')),
             M('a', Tag(0, B, 'APPLICATION', 'IMPLICIT')), M('u', B)), is_set=True),
        {'p': True, 'c': True, 'a': True, 'u': True}, '310c' + '0101ff' + '4001ff' + '8001ff' + 'c001ff')
    sd = Seq((M('s', Seq((M('i', I, 'D', default=1), M('j', B, 'O'))), 'D', default={'i': 1}),))
    for val, exp in [({'s': {}}, '3000'), ({'s': {'i': 1}}, '3000'), ({}, '3000'), ({'s': {'i': 2}}, '30053003020102'),
                     ({'s': {'j': True}}, '300530030101ff')]:
        add('structured DEFAULT, abstract equality (11.5) %r' % (val,), sd, val, exp)
    add('OID arcs', L('OID'), '2.999.3', '0603883703')
    add('OID 1.2.840.113549.1.1.11', L('OID'), '1.2.840.113549.1.1.11', '06092a864886f70d01010b')
    add('ENUMERATED numbering {a(1), b, c}', L('ENUMERATED', enum=(('a', 1), ('b', None), ('c', None))), 'c',
        '0a0102')
    add('SEQUENCE textual order with additions and root2',
        Seq((M('a', I),), ext=True, adds=(M('x', B),), root2=(M('r', L('NULL')),)), {'a': 1, 'x': True, 'r': None},
        '3008' + '020101' + '0101ff' + '0500')
    return v


def _pyasn1_crosscheck():
    """Build pyasn1 types dynamically for a handful of terms and compare with
    pyasn1's DER encoder.  Returns the number of comparisons."""
    from pyasn1.type import univ, char, namedtype, tag, namedval, useful
    from pyasn1.codec.der import encoder as der_encoder

    cls_map = {'': tag.tagClassContext, 'APPLICATION': tag.tagClassApplication, 'PRIVATE': tag.tagClassPrivate}
    leaf_map = {'BOOLEAN': univ.Boolean, 'INTEGER': univ.Integer, 'NULL': univ.Null, 'OID': univ.ObjectIdentifier,
                'OCTETSTRING': univ.OctetString, 'BITSTRING': univ.BitString, 'REAL': univ.Real,
                'IA5String': char.IA5String, 'VisibleString': char.VisibleString, 'UTF8String': char.UTF8String,
                'NumericString': char.NumericString, 'PrintableString': char.PrintableString,
                'BMPString': char.BMPString, 'UniversalString': char.UniversalString,
                'UTCTime': useful.UTCTime, 'GeneralizedTime': useful.GeneralizedTime}

    def is_choice(t, env):
        while isinstance(t, Ref):
            t = env[t.name]
        return isinstance(t, Cho)

    def build(t, env, mode):
        """-> pyasn1 schema object (module default `mode` in EXPLICIT / IMPLICIT)."""
        if isinstance(t, Ref):
            return build(env[t.name], env, mode)
        if isinstance(t, Tag):
            inner = build(t.inner, env, mode)
            form = tag.tagFormatSimple
            tg = tag.Tag(cls_map[t.cls], form, t.num)
            expl = is_choice(t.inner, env) or t.mode == 'EXPLICIT' or (t.mode == '' and mode == 'EXPLICIT')
            if expl:
                return inner.subtype(explicitTag=tag.Tag(cls_map[t.cls], tag.tagFormatConstructed, t.num))
            return inner.subtype(implicitTag=tg)
        if isinstance(t, Leaf):
            if t.kind == 'ENUMERATED':
                root, adds = enum_numbers(t)
                return univ.Enumerated(namedValues=namedval.NamedValues(*(root + (adds or []))))
            return leaf_map[t.kind]()
        if isinstance(t, Seq):
            nts = []
            for m in all_members(t):
                sub = build(m.t, env, mode)
                if m.q == 'O':
                    nts.append(namedtype.OptionalNamedType(m.name, sub))
                elif m.q == 'D':
                    nts.append(namedtype.DefaultedNamedType(m.name, fill(sub, m.t, m.default, env)))
                else:
                    nts.append(namedtype.NamedType(m.name, sub))
            base = univ.Set if t.is_set else univ.Sequence
            return base(componentType=namedtype.NamedTypes(*nts))
        if isinstance(t, Cho):
            return univ.Choice(componentType=namedtype.NamedTypes(
                *[namedtype.NamedType(m.name, build(m.t, env, mode)) for m in all_members(t)]))
        if isinstance(t, Of):
            base = univ.SetOf if t.is_set else univ.SequenceOf
            return base(componentType=build(t.elem, env, mode))
        raise TypeError(t)

    def fill(schema, t, v, env):
        """-> pyasn1 value object of `schema` holding v."""
        while isinstance(t, (Ref, Tag)):
            t = env[t.name] if isinstance(t, Ref) else t.inner
        if isinstance(t, Leaf):
            k = t.kind
            if k == 'BITSTRING':
                data, n = v
                bits = ''.join('{:08b}'.format(b) for b in data)[:n]
                return schema.clone(binValue=bits) if bits else schema.clone('')
            if k == 'NULL':
                return schema.clone('')
            if k == 'REAL' and v not in (0.0, float('inf'), float('-inf')):
                # hand pyasn1 an (un-normalised) base-2 triple; a bare float would be sent in decimal form
                num, den = abs(v).as_integer_ratio()
                return schema.clone(((-num if v < 0 else num) * 4, 2, -(den.bit_length() - 1) - 2))
            if k in ('UTCTime', 'GeneralizedTime'):
                return schema.clone(time_octets(k, v).decode('ascii'))
            if k == 'BMPString' or k == 'UniversalString' or k == 'UTF8String':
                return schema.clone(v)
            return schema.clone(v)
        if isinstance(t, Seq):
            out = schema.clone()
            for m in all_members(t):
                if m.name in v:
                    out[m.name] = fill(out.componentType[m.name].asn1Object, m.t, v[m.name], env)
            return out
        if isinstance(t, Cho):
            out = schema.clone()
            for m in all_members(t):
                if m.name == v[0]:
                    out[m.name] = fill(out.componentType[m.name].asn1Object, m.t, v[1], env)
            return out
        if isinstance(t, Of):
            out = schema.clone()
            for x in v:
                out.append(fill(out.componentType, t.elem, x, env))
            return out
        raise TypeError(t)

    L = Leaf
    B, I, OS = L('BOOLEAN'), L('INTEGER'), L('OCTETSTRING')
    cho = Cho((M('ci', I), M('cb', B), M('cs', L('IA5String'))))
    env = {'R': Seq((M('v', I), M('n', Ref('C'), 'O'))), 'C': cho}
    cases = []
    for mode in ('EXPLICIT', 'IMPLICIT'):
        terms = [
            (I, [0, 127, 128, -129, 2 ** 64]),
            (L('OID'), ['1.2', '2.999.3', '0.39', '2.40', '1.2.840.113549']),
            (L('BITSTRING'), [(b'', 0), (b'\xa5\x01', 9), (b'\xff', 3)]),
            (L('UTF8String'), ['', 'a\xe9€\U0001f600']),
            (L('BMPString'), ['a\xe9€']),
            (L('UniversalString'), ['a\U0001f600']),
            (L('ENUMERATED', enum=(('a', 5), ('b', None), ('c', -200))), ['a', 'b', 'c']),
            (L('UTCTime'), [datetime.datetime(2018, 6, 11, 11, 4, 59)]),
            (L('GeneralizedTime'), [datetime.datetime(2018, 1, 31, 5, 0, 47, 123000)]),
            (L('REAL'), [1.0, -2.5, 0.1, 2.0 ** 100, 1e-300, 5e-324, float('inf'),
                         255.0, 16777215.0, 1e10, 128.5]),   # mantissas whose bit length is a multiple of 8
            (Tag(31, OS), [b'', bytes(128), bytes(256)]),
            (Tag(16384, Tag(127, I, 'APPLICATION'), 'PRIVATE'), [5]),
            (Tag(3, cho), [('ci', 5), ('cs', 'x')]),
            (Seq((M('a', I), M('b', B, 'O'), M('c', I, 'D', default=7), M('d', Tag(0, OS), 'O'))),
             [{'a': 1}, {'a': 1, 'b': True, 'c': 7, 'd': b'x'}, {'a': -1, 'c': 8}]),
            (Seq((M('z', Tag(9, I)), M('y', Tag(2, B)), M('x', OS), M('w', Tag(1, I, 'APPLICATION'))), is_set=True),
             [{'z': 1, 'y': True, 'x': b'q', 'w': 3}]),
            (Seq((M('c', cho), M('t', Tag(0, I)), M('n', L('NULL'))), is_set=True),
             [{'c': ('cb', True), 't': 1, 'n': None}, {'c': ('cs', 'v'), 't': 1, 'n': None}]),
            (Of(I, is_set=True), [[3, 2, 1, 256, -1, 2]]),
            (Of(OS, is_set=True), [[b'\x01\x00', b'\x01', b'', b'\x00']]),
            (Of(Seq((M('a', I), M('b', B, 'D', default=False))), is_set=True),
             [[{'a': 2, 'b': False}, {'a': 1, 'b': True}, {'a': 1}]]),
            (Of(cho), [[('ci', 1), ('cb', False), ('cs', '')]]),
            (Ref('R'), [{'v': 1, 'n': ('cb', True)}, {'v': 2}]),
        ]
        for t, vals in terms:
            # pyasn1 orders SET components by their whole tag *sequence* (base tag first), which is not the
            # outermost tag when a component is EXPLICITly tagged; X.680 8.6 orders by the (outermost) tag.
            # SET terms with tagged components are therefore compared under IMPLICIT TAGS only.
            if mode == 'EXPLICIT' and isinstance(t, Seq) and t.is_set and any(isinstance(m.t, Tag) for m in t.root):
                continue
            for val in vals:
                cases.append((mode, t, val))
    n = 0
    for mode, t, val in cases:
        schema = build(t, env, mode)
        try:
            theirs = bytes(der_encoder.encode(fill(schema, t, val, env)))
        except Exception as e:          # pyasn1 cannot express the case: not a comparison
            raise AssertionError('pyasn1 failed on %r %r: %r' % (t, val, e))
        allmine, touched = encode_all(t, val, env, mode)
        if theirs not in allmine:
            raise AssertionError('pyasn1 disagreement (%s) on %r value %r: model %s pyasn1 %s'
                                 % (mode, t, val, allmine[0].hex(), theirs.hex()))
        n += 1
    return n


def selftest():
    n = 0
    for label, term, value, env, tags, expected in _selftest_vectors():
        got, _ = encode_all(term, value, env, tags)
        if expected not in got:
            raise AssertionError('%s: model %s, vector %s' % (label, got[0].hex(), expected.hex()))
        # every model output is a canonical TLV tree
        for g in got:
            tree = tlv.parse(g)
            assert not tlv.der_form_problems(tree) and tlv.serialise(tree) == g, label
        n += 1
    # illegal programs are refused, not encoded
    for term, value, tags in [
        (Tag(1, Cho((M('a', Leaf('INTEGER')),)), '', 'IMPLICIT'), ('a', 1), 'EXPLICIT'),
        (Seq((M('a', Leaf('INTEGER')), M('b', Leaf('INTEGER'))), is_set=True), {'a': 1, 'b': 2}, 'EXPLICIT'),
        (Cho((M('a', Leaf('INTEGER')), M('b', Leaf('INTEGER')))), ('a', 1), 'IMPLICIT'),
    ]:
        try:
            encode(term, value, {}, tags)
        except Illegal:
            n += 1
        else:
            raise AssertionError('illegal program encoded: %r' % (term,))
    # unasserted rules produce both variants
    cho = Cho((M('lo', Tag(0, Leaf('INTEGER'))), M('hi', Tag(9, Leaf('INTEGER')))))
    st = Seq((M('c', cho), M('m', Tag(5, Leaf('BOOLEAN')))), is_set=True)
    both, touched = encode_all(st, {'c': ('hi', 1), 'm': True}, {}, 'IMPLICIT')
    assert touched == ['set_choice'] and len(both) == 2, (both, touched)
    both, touched = encode_all(st, {'c': ('lo', 1), 'm': True}, {}, 'IMPLICIT')
    assert len(both) == 1
    r2 = Seq((M('a', Leaf('BOOLEAN')),), ext=True, adds=(M('x', Leaf('BOOLEAN')),),
             root2=(M('r', Leaf('BOOLEAN')),))
    both, touched = encode_all(r2, {'a': True, 'x': True, 'r': False}, {}, 'AUTOMATIC')
    assert touched == ['auto_root2'] and len(both) == 2
    n += 3
    n += _pyasn1_crosscheck()
    return n
