"""Abstract ASN.1 value equality, type-directed by the term.

absent DEFAULT component == its default; SET OF is a multiset; named-bit BIT
STRINGs are equal modulo trailing zero bits; BIT STRING unused bits (beyond the
bit count) are not part of the value; bytes == bytearray; floats compare by
IEEE-754 bits (0.0 and -0.0 are not distinguished on purpose, see DESIGN 1.3);
naive and aware datetimes compare as given.
"""

import struct
import datetime
from .terms import Leaf, Seq, Cho, Of, Ref, Tag, all_members, resolve


def norm(t, v, env, numeric=False, _depth=0):
    """Canonical, hashable form of value v of type t (raises ValueError if v is
    not of the right shape)."""
    t = resolve(t, env)
    if isinstance(t, Leaf):
        k = t.kind
        if k == 'BITSTRING':
            if not (isinstance(v, tuple) and len(v) == 2):
                raise ValueError('bit string shape')
            data, n = v
            data = bytes(data)
            if n > 8 * len(data) or n < 0:
                raise ValueError('bit string length')
            bits = ''.join('{:08b}'.format(b) for b in data)[:n]
            if t.named:
                bits = bits.rstrip('0')
            return ('bits', bits)
        if k == 'OCTETSTRING':
            if not isinstance(v, (bytes, bytearray)):
                raise ValueError('octet string shape')
            return ('octets', bytes(v))
        if k == 'REAL':
            if isinstance(v, bool) or not isinstance(v, (int, float)):
                raise ValueError('real shape')
            f = float(v)
            if f == 0.0:
                f = 0.0
            return ('real', struct.pack('>d', f))
        if k == 'BOOLEAN':
            if not isinstance(v, bool):
                raise ValueError('boolean shape')
            return ('bool', v)
        if k == 'INTEGER':
            if isinstance(v, bool) or not isinstance(v, int):
                raise ValueError('integer shape')
            return ('int', v)
        if k == 'NULL':
            if v is not None:
                raise ValueError('null shape')
            return ('null',)
        if k == 'ENUMERATED':
            return ('enum', v)
        if k == 'OID':
            if not isinstance(v, str):
                raise ValueError('oid shape')
            return ('oid', v)
        if k in ('UTCTime', 'GeneralizedTime', 'DATE-TIME'):
            if not isinstance(v, datetime.datetime):
                raise ValueError('datetime shape')
            return ('time', v.isoformat())
        if k == 'DATE':
            if not isinstance(v, datetime.date) or isinstance(v, datetime.datetime):
                raise ValueError('date shape')
            return ('date', v.isoformat())
        if k == 'TIME-OF-DAY':
            if not isinstance(v, datetime.time):
                raise ValueError('time shape')
            return ('tod', v.isoformat())
        if not isinstance(v, str):
            raise ValueError('string shape')
        return ('str', v)
    if isinstance(t, Seq):
        if not isinstance(v, dict):
            raise ValueError('sequence shape')
        out = []
        names = set()
        for m in all_members(t):
            names.add(m.name)
            if m.name in v:
                out.append((m.name, norm(m.t, v[m.name], env, numeric)))
            elif m.q == 'D':
                from .values import to_numeric
                d = to_numeric(m.t, m.default, env) if numeric else m.default
                out.append((m.name, norm(m.t, d, env, numeric)))
            else:
                out.append((m.name, ('absent',)))
        extra = set(v) - names
        if extra:
            raise ValueError('unknown members %s' % sorted(extra))
        return ('seq', tuple(out))
    if isinstance(t, Cho):
        if not (isinstance(v, tuple) and len(v) == 2):
            raise ValueError('choice shape')
        for m in all_members(t):
            if m.name == v[0]:
                return ('cho', v[0], norm(m.t, v[1], env, numeric))
        raise ValueError('unknown alternative %r' % (v[0],))
    if isinstance(t, Of):
        if not isinstance(v, list):
            raise ValueError('list shape')
        items = [norm(t.elem, x, env, numeric) for x in v]
        if t.is_set:
            items = sorted(items, key=repr)
        return ('of', tuple(items))
    raise TypeError(t)


def eq(t, a, b, env, numeric=False):
    try:
        return norm(t, a, env, numeric) == norm(t, b, env, numeric)
    except (ValueError, TypeError, KeyError, AttributeError):
        return False
