"""Check runner: shards work units over worker processes, merges results in a
fixed order, triages failures against known_findings.json, writes replays and
evidence, prints the verdict lines.

Exit status: 0 held (KNOWN-FINDING lines allowed), 1 at least one VIOLATION,
2 machinery failure.
"""

import os
import sys
import json
import time
import hashlib
import importlib
import traceback
import multiprocessing as mp

VERIF = os.path.dirname(os.path.dirname(os.path.abspath(__file__)))
NPROC = int(os.environ.get('VERIF_JOBS', '16'))


class Result:
    """What a work unit returns."""

    def __init__(self):
        self.stats = {}          # name -> int (summed over units)
        self.failures = []       # list of failure dicts (see new_failure)
        self.samples = []        # a few explored cases, written into the evidence
        self.outcomes = {}       # distinct observed outcome classes -> count
        self.states = set()      # optional: hashes of distinct states (merged by union)

    def count(self, key, n=1):
        self.stats[key] = self.stats.get(key, 0) + n

    def outcome(self, key, n=1):
        self.outcomes[key] = self.outcomes.get(key, 0) + n


def new_failure(prop, kind, sig, **fields):
    f = {'property': prop, 'kind': kind, 'sig': sig}
    f.update(fields)
    return f


def _worker(args):
    modname, unit = args
    try:
        mod = importlib.import_module(modname)
        r = mod.work(unit)
        return ('ok', r.stats, r.failures, r.samples, r.outcomes, list(r.states))
    except BaseException:
        return ('error', traceback.format_exc(), getattr(unit, 'label', repr(unit)[:200]))


def _shrink_worker(args):
    modname, rep = args
    mod = importlib.import_module(modname)
    try:
        return mod.shrink(rep)
    except BaseException:
        sys.stderr.write('shrink failed for %s:\n%s\n' % (rep.get('sig'), traceback.format_exc()))
        return rep


def _init_worker():
    os.environ['PYTHONHASHSEED'] = '0'
    sys.setrecursionlimit(3000)


def load_known():
    """known_findings.json is the committed list; known/*.json hold per-property
    parts that `python -m mc.consolidate` merges into it (both are read-only here)."""
    p = os.path.join(VERIF, 'known_findings.json')
    out = {'findings': [], 'fixed': []}
    if os.path.exists(p):
        with open(p) as f:
            out = json.load(f)
    seen = {k['id'] for k in out['findings']}
    kd = os.path.join(VERIF, 'known')
    if os.path.isdir(kd):
        for fn in sorted(os.listdir(kd)):
            if fn.endswith('.json'):
                with open(os.path.join(kd, fn)) as f:
                    part = json.load(f)
                for k in (part.get('findings', []) if isinstance(part, dict) else part):
                    if k['id'] not in seen:
                        seen.add(k['id'])
                        out['findings'].append(k)
    return out


def match_known(prop_id, failure, known):
    from . import known_preds
    for kf in known.get('findings', []):
        if prop_id not in kf['properties']:
            continue
        pred = getattr(known_preds, kf['predicate'], None)
        if pred is None:
            for pid in kf['properties']:
                try:
                    pm = importlib.import_module('mc.kp_' + pid.lower())
                except ImportError:
                    continue
                pred = getattr(pm, kf['predicate'], None)
                if pred is not None:
                    break
        if pred is None:
            raise RuntimeError('known finding %s names unknown predicate %s' % (kf['id'], kf['predicate']))
        try:
            if pred(failure):
                return kf
        except Exception:
            continue
    return None


def write_replay(prop_id, failure):
    d = os.path.join(VERIF, 'replays', prop_id)
    os.makedirs(d, exist_ok=True)
    body = {k: v for k, v in failure.items() if not k.startswith('_')}
    blob = json.dumps(body, sort_keys=True, default=repr, indent=1)
    h = hashlib.sha256(blob.encode()).hexdigest()[:12]
    path = os.path.join(d, h + '.json')
    with open(path, 'w') as f:
        f.write(blob)
    return path


def run(prop_id, tier, seed, jobs=None):
    t0 = time.time()
    modname = 'mc.props.' + prop_id.lower()
    mod = importlib.import_module(modname)
    from . import impl
    if hasattr(mod, 'setup'):
        mod.setup(tier)
    units = list(mod.units(tier))
    flt = os.environ.get('VERIF_UNIT_FILTER')
    if flt:      # development aid only: never set by the registered commands
        units = [u for u in units if flt in getattr(u, 'label', '')]
    n = len(units)
    # the seed only rotates the order in which units are handed out
    order = list(range(n))
    if n:
        r = seed % n
        order = order[r:] + order[:r]
    jobs = jobs or NPROC
    results = [None] * n
    errors = []
    if jobs <= 1 or n <= 1:
        _init_worker()
        for i in order:
            results[i] = _worker((modname, units[i]))
    else:
        ctx = mp.get_context('fork')
        with ctx.Pool(min(jobs, n), initializer=_init_worker) as pool:
            chunks = getattr(mod, 'CHUNK', 1)
            for i, res in zip(order, pool.imap(_worker, [(modname, units[i]) for i in order], chunks)):
                results[i] = res
    stats, failures, samples, outcomes, states = {}, [], [], {}, set()
    for i, res in enumerate(results):
        if res[0] == 'error':
            errors.append(res)
            continue
        _, st, fl, sm, oc, sts = res
        for k, v in st.items():
            stats[k] = stats.get(k, 0) + v
        failures.extend(fl)
        if len(samples) < 12:
            samples.extend(sm[:2])
        for k, v in oc.items():
            outcomes[k] = outcomes.get(k, 0) + v
        states.update(sts)
    if errors:
        for e in errors[:3]:
            sys.stderr.write('MACHINERY ERROR in unit %s\n%s\n' % (e[2], e[1]))
        sys.stderr.write('%d unit(s) failed in the machinery\n' % len(errors))
        return 2

    sys.stderr.write('phase 1 done: %d failures in %.1fs\n' % (len(failures), time.time() - t0))
    if os.environ.get('VERIF_DUMP_FAILURES'):
        import pickle
        with open(os.environ['VERIF_DUMP_FAILURES'], 'wb') as fh:
            pickle.dump((stats, failures, outcomes), fh)
        return 0
    # ---- triage ---------------------------------------------------------------
    known = load_known()
    if hasattr(mod, 'attribute'):
        stats['failures_attributed_to_leaf_failures'] = mod.attribute(failures)
    groups = {}
    for f in failures:
        groups.setdefault(f['sig'], []).append(f)
    violations = []
    known_hits = {}
    minimal = []
    for sig in sorted(groups):
        g = sorted(groups[sig], key=lambda f: (f.get('size', 0), json.dumps(f, sort_keys=True, default=repr)))
        rep = g[0]
        rep['group_size'] = len(g)
        minimal.append(rep)
    if hasattr(mod, 'shrink') and minimal:
        if jobs <= 1 or len(minimal) == 1:
            minimal = [_shrink_worker((modname, r)) for r in minimal]
        else:
            ctx = mp.get_context('fork')
            with ctx.Pool(min(jobs, len(minimal)), initializer=_init_worker) as pool:
                minimal = pool.map(_shrink_worker, [(modname, r) for r in minimal], 1)
    # distinct minimal cases only
    uniq = {}
    for rep in minimal:
        key = (rep['kind'], rep.get('codec'), rep.get('numeric'), rep.get('term'), rep.get('value'),
               rep.get('tags'), rep.get('ext_implied'), rep.get('steps_key'))
        if key in uniq and rep.get('term') is not None:
            uniq[key]['group_size'] += rep['group_size']
        else:
            uniq[key if rep.get('term') is not None else id(rep)] = rep
    minimal = list(uniq.values())
    for rep in minimal:
        kf = match_known(prop_id, rep, known)
        if kf is not None:
            ent = known_hits.setdefault(kf['id'], {'kf': kf, 'n': 0, 'groups': 0})
            ent['n'] += rep['group_size']
            ent['groups'] += 1
        else:
            violations.append(rep)
    for kid in sorted(known_hits):
        ent = known_hits[kid]
        print('KNOWN-FINDING: property=%s %s: %s (%d cases in %d groups)'
              % (prop_id, kid, ent['kf']['description'], ent['n'], ent['groups']))
    vpaths = []
    for rep in violations:
        path = write_replay(prop_id, rep)
        vpaths.append(path)
        print('VIOLATION property=%s replay=%s' % (prop_id, path))
        sys.stderr.write('  kind=%s sig=%s\n' % (rep['kind'], rep['sig']))

    # ---- evidence ---------------------------------------------------------------
    wall = time.time() - t0
    level = getattr(mod, 'LEVEL', 'model_checking')
    cov = mod.coverage(stats, tier) if hasattr(mod, 'coverage') else {}
    cov.setdefault('evaluations', stats.get('evaluations', 0))
    cov.setdefault('samples', samples[:8] or ['(none)'])
    cov['bounds'] = mod.bounds(tier) if hasattr(mod, 'bounds') else {}
    cov['stats'] = dict(sorted(stats.items()))
    cov['distinct_outcomes'] = dict(sorted(outcomes.items()))
    cov['known_finding_hits'] = {k: v['n'] for k, v in sorted(known_hits.items())}
    cov['units'] = n
    cov['repo_head'] = impl.git_head()
    cov['tree_hash'] = impl.tree_hash()
    if states:
        cov.setdefault('states', len(states))
    ev = {
        'property_id': prop_id,
        'tier': tier,
        'seed': seed,
        'level': level,
        'coverage': cov,
        'assumptions': getattr(mod, 'ASSUMPTIONS', []),
        'wall_s': round(wall, 2),
        'violations': len(violations),
    }
    if impl.REPO == '/repo' and not os.environ.get('VERIF_UNIT_FILTER'):
        os.makedirs(os.path.join(VERIF, 'evidence'), exist_ok=True)
        with open(os.path.join(VERIF, 'evidence', prop_id + '.json'), 'w') as f:
            json.dump(ev, f, indent=1, sort_keys=True, default=repr)
    else:
        # runs against a scratch tree (seeded changes) or a development filter never touch the evidence
        sys.stderr.write('evidence not written (VERIF_REPO=%s, filter=%s)\n'
                         % (impl.REPO, os.environ.get('VERIF_UNIT_FILTER')))
    sys.stderr.write('%s %s: units=%d evaluations=%d failures=%d groups=%d known=%d violations=%d wall=%.1fs\n'
                     % (prop_id, tier, n, cov.get('evaluations', 0), len(failures), len(groups),
                        len(known_hits), len(violations), wall))
    return 1 if violations else 0


def replay(prop_id, path):
    mod = importlib.import_module('mc.props.' + prop_id.lower())
    with open(path) as f:
        case = json.load(f)
    a = mod.replay(case)
    b = mod.replay(case)
    if json.dumps(a, sort_keys=True, default=repr) != json.dumps(b, sort_keys=True, default=repr):
        sys.stderr.write('replay is not deterministic: machinery error\n')
        return 2
    if a is None:
        print('replay: the case no longer fails')
        return 0
    print(json.dumps(a, indent=1, sort_keys=True, default=repr))
    print('VIOLATION property=%s replay=%s' % (prop_id, path))
    return 1
