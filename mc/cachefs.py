"""Cache-directory explorer helpers for C17 (the compile cache is transparent).

Everything that touches asn1tools' compile cache lives here:

* the source files of the explored world (f1, its edited version f1', f2, a pair of
  file lists with equal concatenation and different parse, a file that does not
  compile, a large module whose pickled Specification is stored as a value file);
* `do_call`         one compile_files call -> outcome (behaviour signature / error);
* `signature`       behaviour signature of a Specification;
* `reference`       the same call with cache_dir=None in a FRESH interpreter
                    (`python -m mc.cachefs ref ...`), memoised: the dict model;
* `canon`           canonical dump of a work directory (cache rows + source versions);
* `fork_records`    run a function in a forked child of a pristine process, collecting
                    incrementally written records (survives the death of the child);
* strace helpers    dry run (syscall census) and kill-at-nth-syscall runs;
* damage helpers    location of the stored pickle inside cache.db, pickle opcode map.

The parent processes (runner workers) never call into asn1tools' compiler themselves:
every library call happens in a forked child or in a fresh interpreter, so module
state is always that of a process that has only imported the library.
"""

import os
import re
import gc
import sys
import json
import time
import shutil
import signal
import pickle
import struct
import hashlib
import sqlite3
import tempfile
import resource
import traceback
import subprocess
import pickletools

VERIF = os.path.dirname(os.path.dirname(os.path.abspath(__file__)))
PY = sys.executable or '/venv/bin/python'

# --------------------------------------------------------------------------------------
# the explored world
# --------------------------------------------------------------------------------------

F1_V0 = (
    'M1 DEFINITIONS AUTOMATIC TAGS ::= BEGIN\n'
    'Color ::= ENUMERATED { red(0), green(1), blue(5) }\n'
    'Num ::= INTEGER (0..255)  \n'
    'Any ::= SEQUENCE { kind INTEGER, body ANY DEFINED BY kind }\n'
    'END\n')

# the edited f1: same type names, different meaning (BER: blue is 6; UPER: Num is 16 bits wide), the SAME
# byte length (two blanks after the range above), and toggle_f1 preserves the modification time: an edit
# that a cache keyed on file metadata instead of file contents cannot see
F1_V1 = (
    'M1 DEFINITIONS AUTOMATIC TAGS ::= BEGIN\n'
    'Color ::= ENUMERATED { red(0), green(1), blue(6) }\n'
    'Num ::= INTEGER (0..65535)\n'
    'Any ::= SEQUENCE { kind INTEGER, body ANY DEFINED BY kind }\n'
    'END\n')

# f2 redefines module M1, so [f1, f2] and [f2, f1] are different specifications
# (the module parsed last wins): the order of the file list is observable.
F2 = (
    'M2 DEFINITIONS AUTOMATIC TAGS ::= BEGIN\n'
    'Flag ::= BOOLEAN\n'
    'Num ::= INTEGER (0..15)\n'
    'Pair ::= SEQUENCE { a INTEGER (0..7), b Flag }\n'
    'END\n'
    'M1 DEFINITIONS AUTOMATIC TAGS ::= BEGIN\n'
    'Num ::= INTEGER (0..7)\n'
    'END\n'
    # Num is now defined in three modules of [f1, f2] / [f2, f1]: a name defined more than once is not
    # reachable through Specification.types, and the count (odd / even) must not matter
    'M3 DEFINITIONS AUTOMATIC TAGS ::= BEGIN\n'
    'Num ::= BOOLEAN\n'
    'END\n')

# file-boundary collision: compile_files parses '\n'.join-like concatenation (a newline is
# appended after every file) but keys on the plain concatenation.  CA ends inside a comment:
#   [ca, cb]  = CA \n CB1 CB2 \n   -> the comment is empty, T has members a and b
#   [cab, cc] = CA CB1 \n CB2 \n   -> CB1 is inside the comment, T has member a only
CA = 'C DEFINITIONS ::= BEGIN\nT ::= SEQUENCE { a INTEGER (0..255) --'
CB1 = ', b BOOLEAN'
CB2 = '\n}\nEND\n'

BAD = 'B DEFINITIONS ::= BEGIN\nX ::= SEQUENCE { y Missing }\nEND\n'

BIG_TYPES = 54


def big_text():
    """A module whose pickled Specification exceeds diskcache's 32 KiB inline limit, so that
    the value is stored in a separate .val file."""
    out = ['G DEFINITIONS AUTOMATIC TAGS ::= BEGIN']
    for i in range(BIG_TYPES):
        out.append('T%d ::= SEQUENCE { a%d INTEGER (0..%d), b%d BOOLEAN OPTIONAL, c%d OCTET STRING (SIZE(1..%d)), '
                   'd%d ENUMERATED { x%d(0), y%d(%d) } }' % (i, i, 200 + i, i, i, 2 + i % 5, i, i, i, 2 + i))
    out.append('END\n')
    return '\n'.join(out)


def sources(f1_version=0):
    return {
        'f1.asn': F1_V1 if f1_version else F1_V0,
        'f2.asn': F2,
        'ca.asn': CA,
        'cb.asn': CB1 + CB2,
        'cab.asn': CA + CB1,
        'cc.asn': CB2,
        'bad.asn': BAD,
    }


LISTS = {
    'L1': ('f1.asn',),
    'L12': ('f1.asn', 'f2.asn'),
    'L21': ('f2.asn', 'f1.asn'),
    'C1': ('ca.asn', 'cb.asn'),
    'C2': ('cab.asn', 'cc.asn'),
    'BAD': ('bad.asn',),
    'BIG': ('big.asn',),
}

ADB_MAP = {('M1', 'Any', 'body'): {1: 'INTEGER', 2: 'BOOLEAN'}}
CACHE = 'cache'


def write_sources(d, f1_version=0, big=False):
    for name, text in sources(f1_version).items():
        with open(os.path.join(d, name), 'w', newline='') as f:
            f.write(text)
    if big:
        with open(os.path.join(d, 'big.asn'), 'w', newline='') as f:
            f.write(big_text())


def f1_version_of(d):
    with open(os.path.join(d, 'f1.asn')) as f:
        return 1 if f.read() == F1_V1 else 0


def toggle_f1(d):
    v = 1 - f1_version_of(d)
    path = os.path.join(d, 'f1.asn')
    st = os.stat(path)
    with open(path, 'w', newline='') as f:
        f.write(F1_V1 if v else F1_V0)
    os.utime(path, ns=(st.st_atime_ns, st.st_mtime_ns))      # same size, same mtime, other contents
    return v


# --------------------------------------------------------------------------------------
# one absolute path for the working directory of every step of a history
# --------------------------------------------------------------------------------------
# States are materialised by copying directories, so the same logical working directory lives
# at a different absolute path in every transition.  Anything in the library keyed on absolute
# file names would then never meet its own earlier entries and the exploration would silently
# lose that behaviour.  Children therefore enter their copy through a private mount namespace
# in which it is bind-mounted at FIXED.  Where that is not permitted the plain chdir is used
# (and the evidence says so: stats.workdir_fixed_path / workdir_plain_path).

FIXED = '/tmp/asn1v-c17-workdir'     # (not tempfile.gettempdir(): that probes the directory with a random file)
_NS = {'state': None, 'libc': None}
_CLONE_NEWNS, _MS_BIND, _MS_REC, _MS_PRIVATE, _MNT_DETACH = 0x00020000, 0x1000, 0x4000, 1 << 18, 2


def enter(w):
    """chdir into directory w through the fixed absolute path; returns the path actually used.
    Only ever called in forked children."""
    if _NS['state'] is None:
        try:
            import ctypes
            libc = ctypes.CDLL(None, use_errno=True)
            if libc.unshare(_CLONE_NEWNS) != 0 or libc.mount(b'none', b'/', None, _MS_REC | _MS_PRIVATE, None) != 0:
                raise OSError('unshare')
            os.makedirs(FIXED, exist_ok=True)
            _NS['state'], _NS['libc'] = True, libc
        except Exception:
            _NS['state'] = False
    if _NS['state']:
        libc = _NS['libc']
        os.chdir('/')
        libc.umount2(FIXED.encode(), _MNT_DETACH)
        if libc.mount(os.fsencode(w), FIXED.encode(), None, _MS_BIND, None) == 0:
            os.chdir(FIXED)
            return FIXED
    os.chdir(w)
    return w


def leave(elsewhere):
    os.chdir(elsewhere)
    if _NS['state']:
        _NS['libc'].umount2(FIXED.encode(), _MNT_DETACH)


def fixed_path_available():
    """Probe (in a throw-away child) whether enter() can use the fixed path here."""
    pid = os.fork()
    if pid == 0:
        d = tempfile.mkdtemp(prefix='nsprobe-')
        try:
            ok = enter(d) == FIXED
            leave('/')
        except BaseException:
            ok = False
        finally:
            shutil.rmtree(d, ignore_errors=True)
        os._exit(0 if ok else 1)
    return os.waitpid(pid, 0)[1] == 0


def in_fixed(w, cmd):
    """Wrap a command line so that it runs with w bind-mounted at FIXED as its working directory."""
    return ['unshare', '-m', '--propagation', 'private', 'sh', '-c',
            'mkdir -p "$2" && mount --bind "$1" "$2" && cd "$2" && shift 2 && exec "$@"', 'sh', w, FIXED] + list(cmd)


def mkcall(lst, codec='ber', ne=False, adb=False):
    return {'list': lst, 'codec': codec, 'ne': bool(ne), 'adb': bool(adb)}


def call_label(c):
    if c.get('edit'):
        return 'edit-f1'
    return '%s/%s/ne=%d/adb=%d' % (c['list'], c['codec'], c['ne'], c['adb'])


def call_contents(call, f1_version):
    """What the dict model is keyed on: the contents of the listed files."""
    src = sources(f1_version)
    if call['list'] == 'BIG':
        return (big_text(),)
    return tuple(src[n] for n in LISTS[call['list']])


def model_key(call, f1_version):
    return (call['codec'], call_contents(call, f1_version), call['ne'], call['adb'])


# --------------------------------------------------------------------------------------
# behaviour signature
# --------------------------------------------------------------------------------------

VALUES = [
    0, 1, 5, 6, 7, 8, 255, 256, 65535, 65536, -1, True, False, None,
    'red', 'green', 'blue', 'x0', 'y3', b'\x01\x02',
    {'kind': 1, 'body': 5}, {'kind': 2, 'body': True}, {'kind': 3, 'body': 5},
    {'kind': 1, 'body': b'\x02\x01\x05'},
    {'a': 5, 'b': True}, {'a': 5}, {'a': 300, 'b': False}, {'a': 7, 'b': False},
]
BIG_VALUES = [{'a%d' % i: 200 + i, 'c%d' % i: b'\x01', 'd%d' % i: 'y%d' % i} for i in (0, 1, 35, 53)] + \
             [{'a%d' % i: 201 + i, 'b%d' % i: True, 'c%d' % i: b'\x01\x02', 'd%d' % i: 2 + i} for i in (0, 35, 53)]
DECODE_INPUTS = [b'', b'\x00', b'\x80', b'\xff\xff\xff', b'\x02\x01\x05', b'\x0a\x01\x05', b'\x0a\x01\x06',
                 b'\x01\x01\xff', b'\x30\x03\x80\x01\x05', b'\x30\x06\x80\x01\x05\x81\x01\xff',
                 b'\x30\x06\x80\x01\x01\x02\x01\x05', b'\x05\x80', b'\x00\x05']


def errtext(e):
    try:
        msg = str(e)[:160]
    except Exception as e2:             # a damaged object inside the error's location path
        msg = '<unprintable: %s>' % type(e2).__name__
    return '%s: %s' % (type(e).__name__, msg)


def _spec_class():
    from . import impl
    return impl.asn1tools.compiler.Specification


def signature(spec, big=False):
    """{key: ['ok', data] | ['err', text]} over every type x a fixed battery.  Keys are
    'types', '<type>|enc|<value>', '<type>|encnc|<value>' (constraints unchecked),
    '<type>|dec|<hex>'."""
    sig = {}
    try:
        names = sorted(spec.types)
    except BaseException as e:                                   # noqa: a damaged object may do anything
        if isinstance(e, (KeyboardInterrupt, SystemExit)) or type(e).__name__ == 'BudgetExceeded':
            raise
        return {'types': ['err', errtext(e)]}
    sig['types'] = ['ok', ','.join(map(str, names))]
    values = (BIG_VALUES + VALUES[:8]) if big else VALUES
    if big:
        names = [n for n in names if n in ("T0", "T1", "T35", "T53")]
    for name in names:
        inputs = list(DECODE_INPUTS)
        for v in values:
            for cc, tag in ((True, 'enc'), (False, 'encnc')):
                k = '%s|%s|%r' % (name, tag, v)
                try:
                    b = spec.encode(name, v, check_constraints=cc)
                    b = bytes(b)
                    sig[k] = ['ok', b.hex()]
                    if b not in inputs:
                        inputs.append(b)
                except Exception as e:
                    sig[k] = ['err', errtext(e)]
        for b in inputs:
            k = '%s|dec|%s' % (name, b.hex())
            try:
                sig[k] = ['ok', repr(spec.decode(name, b, check_constraints=True))]
            except Exception as e:
                sig[k] = ['err', errtext(e)]
    return sig


def digest(outcome):
    return hashlib.sha256(json.dumps(outcome, sort_keys=True).encode()).hexdigest()[:20]


SIG_LIMIT = 3000000      # deterministic step budget for one signature (a sane one takes < 60 000)


def do_call(call, cache_dir=CACHE, budget_sig=False):
    """One compile_files call in the current directory -> outcome:
    {'r': 'spec', 'sig': {...}} | {'r': 'raise', 'err': text} | {'r': 'other', 'type': name}
    | {'r': 'sig-budget'}.  Must run in a child process."""
    from . import impl
    files = list(LISTS[call['list']])
    adb = ADB_MAP if call['adb'] else None
    try:
        spec = impl.asn1tools.compile_files(files, call['codec'], any_defined_by_choices=adb,
                                            cache_dir=cache_dir, numeric_enums=call['ne'])
    except Exception as e:
        return {'r': 'raise', 'err': errtext(e)}
    if not isinstance(spec, _spec_class()):
        return {'r': 'other', 'type': type(spec).__name__}
    big = call['list'] == 'BIG'
    if budget_sig:
        from . import budget
        try:
            sig, _ = budget.run(SIG_LIMIT, signature, spec, big)
        except budget.BudgetExceeded:
            return {'r': 'sig-budget'}
        except RecursionError:
            return {'r': 'spec', 'sig': {'types': ['err', 'RecursionError']}}
    else:
        sig = signature(spec, big)
    return {'r': 'spec', 'sig': sig}


def release():
    """What a normal interpreter exit does to the cache: the diskcache.Cache object that
    compile_files leaves behind is collected, its SQLite connection closed (WAL checkpoint)."""
    gc.collect()


# --------------------------------------------------------------------------------------
# the dict model: uncached compile in a fresh interpreter
# --------------------------------------------------------------------------------------

_REF = {}


def child_env():
    env = dict(os.environ)
    env['PYTHONPATH'] = VERIF + (os.pathsep + env['PYTHONPATH'] if env.get('PYTHONPATH') else '')
    env['PYTHONHASHSEED'] = '0'
    env['PYTHONDONTWRITEBYTECODE'] = '1'
    return env


def reference_compute(call, f1_version):
    d = tempfile.mkdtemp(prefix='c17ref-')
    try:
        write_sources(d, f1_version, big=call['list'] == 'BIG')
        p = subprocess.run([PY, '-m', 'mc.cachefs', 'ref', json.dumps(call)], cwd=d, env=child_env(),
                           capture_output=True, text=True, timeout=3600)
        if p.returncode != 0 or not p.stdout.startswith('{'):
            raise RuntimeError('reference child failed: rc=%s %s' % (p.returncode, p.stderr[-600:]))
        return json.loads(p.stdout)
    finally:
        shutil.rmtree(d, ignore_errors=True)


def reference(call, f1_version):
    k = model_key(call, f1_version)
    if k not in _REF:
        _REF[k] = reference_compute(call, f1_version)
    return _REF[k]


def prime_references(pairs, jobs):
    """Fill the model for [(call, f1_version)] with `jobs` fresh interpreters at a time."""
    from concurrent.futures import ThreadPoolExecutor
    todo, seen = [], set()
    for call, v in pairs:
        k = model_key(call, v)
        if k not in _REF and k not in seen:
            seen.add(k)
            todo.append((k, call, v))
    if not todo:
        return 0
    with ThreadPoolExecutor(max(1, jobs)) as ex:
        for (k, _, _), out in zip(todo, ex.map(lambda t: reference_compute(t[1], t[2]), todo)):
            _REF[k] = out
    return len(todo)


# --------------------------------------------------------------------------------------
# canonical state of a work directory
# --------------------------------------------------------------------------------------

def read_rows(cache_dir):
    """Rows of the cache as [(key bytes, raw, mode, filename, value bytes)] read with sqlite3
    from a scratch copy (so that observing never changes the observed directory; a WAL left
    by a killed writer is recovered in the copy)."""
    if not os.path.isdir(cache_dir) or not os.path.exists(os.path.join(cache_dir, 'cache.db')):
        return []
    tmp = tempfile.mkdtemp(prefix='c17canon-')
    try:
        c = os.path.join(tmp, 'c')
        shutil.copytree(cache_dir, c)
        con = sqlite3.connect(os.path.join(c, 'cache.db'), timeout=5)
        try:
            rows = con.execute('SELECT key, raw, mode, filename, value FROM Cache ORDER BY rowid').fetchall()
        finally:
            con.close()
        out = []
        for key, raw, mode, filename, value in rows:
            if filename:
                try:
                    with open(os.path.join(c, filename), 'rb') as f:
                        value = f.read()
                except OSError:
                    value = b'<missing file>'
            if isinstance(key, str):
                key = key.encode()
            if isinstance(value, str):
                value = value.encode()
            out.append((bytes(key) if key is not None else b'', raw, mode, filename, bytes(value) if value is not None else b''))
        return out
    finally:
        shutil.rmtree(tmp, ignore_errors=True)


def canon(workdir):
    """Canonical state: sorted (key hash, mode, value hash) rows + versions of the sources."""
    try:
        rows = read_rows(os.path.join(workdir, CACHE))
        rows = sorted((hashlib.sha256(k).hexdigest()[:16], m, hashlib.sha256(v).hexdigest()[:16])
                      for k, _, m, _, v in rows)
    except sqlite3.Error as e:
        rows = [('unreadable', 0, type(e).__name__)]
    return json.dumps({'rows': rows, 'f1': f1_version_of(workdir)}, sort_keys=True)


def canon_hash(c):
    return hashlib.sha256(c.encode()).hexdigest()[:16]


# --------------------------------------------------------------------------------------
# forked children
# --------------------------------------------------------------------------------------

class Emitter:
    def __init__(self, path):
        self.f = open(path, 'ab', buffering=0)

    def __call__(self, rec):
        b = pickle.dumps(rec)
        self.f.write(struct.pack('<I', len(b)) + b)


def read_records(path):
    out = []
    try:
        with open(path, 'rb') as f:
            data = f.read()
    except OSError:
        return out
    i = 0
    while i + 4 <= len(data):
        n = struct.unpack('<I', data[i:i + 4])[0]
        if i + 4 + n > len(data):
            break
        out.append(pickle.loads(data[i + 4:i + 4 + n]))
        i += 4 + n
    return out


def fork_start(fn, args, outpath, wall=1800, mem=None):
    """Fork; the child runs fn(emit, *args) and leaves records in outpath.  Returns the pid."""
    sys.stdout.flush()
    sys.stderr.flush()
    pid = os.fork()
    if pid:
        return pid
    code = 0
    try:
        signal.signal(signal.SIGALRM, signal.SIG_DFL)
        signal.alarm(wall)
        if mem:
            resource.setrlimit(resource.RLIMIT_AS, (mem, mem))
        resource.setrlimit(resource.RLIMIT_CORE, (0, 0))
        emit = Emitter(outpath)
        fn(emit, *args)
    except BaseException:
        code = 3
        try:
            with open(outpath + '.err', 'w') as f:
                f.write(traceback.format_exc())
        except BaseException:
            pass
    finally:
        os._exit(code)


def fork_wait(pid):
    _, status = os.waitpid(pid, 0)
    return status_text(status)


def status_text(status):
    if os.WIFSIGNALED(status):
        try:
            return 'signal:' + signal.Signals(os.WTERMSIG(status)).name
        except ValueError:
            return 'signal:%d' % os.WTERMSIG(status)
    return 'exit:%d' % os.WEXITSTATUS(status)


def fork_records(fn, args, scratch, wall=1800, mem=None):
    """Run fn(emit, *args) in a forked child; returns (records, how the child ended)."""
    fd, outpath = tempfile.mkstemp(prefix='rec-', dir=scratch)
    os.close(fd)
    pid = fork_start(fn, args, outpath, wall, mem)
    how = fork_wait(pid)
    recs = read_records(outpath)
    err = None
    if os.path.exists(outpath + '.err'):
        with open(outpath + '.err') as f:
            err = f.read()
        os.unlink(outpath + '.err')
    os.unlink(outpath)
    if err is not None:
        raise RuntimeError('child raised in the machinery:\n' + err)
    if how == 'signal:SIGALRM':
        # the wall-clock backstop is never a verdict: stop the run as a machinery failure
        raise RuntimeError('a child process exceeded the %d s wall-clock backstop' % wall)
    return recs, how


def _calls_child(emit, workdir, calls, budget_sig):
    enter(workdir)
    for c in calls:
        out = do_call(c, budget_sig=budget_sig)
        release()
        emit(out)


def run_calls(workdir, calls, scratch, budget_sig=False, each_fresh=True, wall=1800, mem=None):
    """Run calls on workdir, each in its own forked child (each_fresh) -> list of outcomes.
    A child that dies yields {'r': 'died', 'how': ...} for its call."""
    outs = []
    if each_fresh:
        for c in calls:
            recs, how = fork_records(_calls_child, (workdir, [c], budget_sig), scratch, wall, mem)
            outs.append(recs[0] if recs else {'r': 'died', 'how': how})
        return outs
    recs, how = fork_records(_calls_child, (workdir, calls, budget_sig), scratch, wall, mem)
    outs = list(recs)
    while len(outs) < len(calls):
        outs.append({'r': 'died', 'how': how})
        rest = calls[len(outs):]
        if not rest:
            break
        recs, how = fork_records(_calls_child, (workdir, rest, budget_sig), scratch, wall, mem)
        outs.extend(recs)
    return outs


# --------------------------------------------------------------------------------------
# strace: census and kill-at-nth-syscall
# --------------------------------------------------------------------------------------

# every syscall that changes the file system, by the name strace uses
MUTATING = ['write', 'pwrite64', 'writev', 'pwritev', 'pwritev2', 'fdatasync', 'fsync', 'sync_file_range',
            'ftruncate', 'truncate', 'unlink', 'unlinkat', 'rename', 'renameat', 'renameat2', 'open', 'openat',
            'creat', 'mkdir', 'mkdirat', 'rmdir', 'link', 'linkat', 'symlink', 'symlinkat', 'fallocate',
            'chmod', 'fchmod', 'fchmodat', 'utimensat', 'copy_file_range', 'sendfile']
OPEN_LIKE = ('open', 'openat', 'creat')

_line = re.compile(r'^(\d+)\s+(\w+)\((.*)$')


def strace_available():
    try:
        return subprocess.run(['strace', '-V'], capture_output=True, timeout=20).returncode == 0
    except Exception:
        return False


def _strace_cmd(logpath, classes, inject, call):
    cmd = ['strace', '-f', '-o', logpath, '-s', '0', '-e', 'trace=' + ','.join(classes)]
    if inject:
        cmd += ['-e', 'inject=%s:signal=KILL:when=%d' % inject]
    cmd += [PY, '-m', 'mc.cachefs', 'call', json.dumps(call)]
    return cmd


_FIXED_OK = [None]


def _wrap(w, cmd):
    if _FIXED_OK[0] is None:
        _FIXED_OK[0] = fixed_path_available()
    return in_fixed(w, cmd) if _FIXED_OK[0] else cmd


def parse_strace(logpath):
    """-> [(pid, syscall, argument text)] in log order (resumed halves dropped)."""
    out = []
    with open(logpath, errors='replace') as f:
        for ln in f:
            m = _line.match(ln)
            if m and '<... ' not in ln:
                out.append((int(m.group(1)), m.group(2), m.group(3).rstrip()))
    return out


def interesting(sc, args):
    """Is this traced call a state-changing one (a crash point)?"""
    if sc in OPEN_LIKE:
        return sc == 'creat' or 'O_CREAT' in args or 'O_TRUNC' in args
    return True


def descriptor(sc, args):
    """What identifies the call independently of the run: the syscall and its path / size arguments."""
    a = re.sub(r'"/[^"]*/w/', '"', args).replace('"' + FIXED + '/', '"')
    a = re.sub(r'\s*=\s*[-?\w<>. ()]+$', '', a)
    a = re.sub(r'"[0-9a-f]{2}/[0-9a-f]{2}/[0-9a-f]+\.val"', '"<val>"', a)
    a = re.sub(r'[0-9a-f]{2}/[0-9a-f]{2}/[0-9a-f]{20,}\.val', '<val>', a)
    a = re.sub(r'cache/[0-9a-f]{2}(/[0-9a-f]{2})?"', 'cache/<valdir>"', a)
    return sc + '(' + a[:120]


def census(workdir, call, scratch):
    """Dry run of `call` under strace on a copy of workdir: every state-changing syscall of the
    populating process, as {class: [(n, descriptor)]} with n the per-class `when` ordinal."""
    d = tempfile.mkdtemp(prefix='census-', dir=scratch)
    try:
        w = os.path.join(d, 'w')
        shutil.copytree(workdir, w)
        log = os.path.join(d, 'log')
        p = subprocess.run(_wrap(w, _strace_cmd(log, MUTATING, None, call)), cwd=w, env=child_env(),
                           capture_output=True, text=True, timeout=3600)
        if p.returncode != 0 or not p.stdout.startswith('{'):
            raise RuntimeError('strace dry run failed rc=%s: %s' % (p.returncode, p.stderr[-500:]))
        calls = parse_strace(log)
        pids = sorted({pid for pid, _, _ in calls})
        if len(pids) != 1:
            raise RuntimeError('the populating process is expected to be single-threaded: pids %r' % pids)
        counters, points = {}, {}
        for _, sc, args in calls:
            counters[sc] = counters.get(sc, 0) + 1
            if interesting(sc, args):
                points.setdefault(sc, []).append((counters[sc], descriptor(sc, args)))
        return points, json.loads(p.stdout)
    finally:
        shutil.rmtree(d, ignore_errors=True)


def crash_run(w, call, sc, n, scratch):
    """Run `call` in directory w (modified in place) and SIGKILL the process on entry to its
    n-th `sc` syscall.  Returns (killed?, descriptor of the call it was killed on)."""
    fd, log = tempfile.mkstemp(prefix='strace-', dir=scratch)
    os.close(fd)
    try:
        subprocess.run(_wrap(w, _strace_cmd(log, [sc], (sc, n), call)), cwd=w, env=child_env(),
                       capture_output=True, text=True, timeout=3600)
        calls = parse_strace(log)
        with open(log, errors='replace') as f:
            killed = 'killed by SIGKILL' in f.read()
        last = descriptor(calls[-1][1], calls[-1][2]) if calls else None
        return killed, last, len(calls)
    finally:
        if os.path.exists(log):
            os.unlink(log)


# --------------------------------------------------------------------------------------
# damage helpers
# --------------------------------------------------------------------------------------

PATTERNS = (('xor01', lambda b: b ^ 0x01), ('xor80', lambda b: b ^ 0x80),
            ('set00', lambda b: 0x00), ('setff', lambda b: 0xFF))


def find_all(hay, needle):
    out, at = [], hay.find(needle)
    while at >= 0:
        out.append(at)
        at = hay.find(needle, at + 1)
    return out


def _follow(db, needle, start, local, page, usable):
    out = {start + i: i for i in range(local)}
    pos, ptr = local, start + local
    while pos < len(needle):
        if ptr + 4 > len(db):
            return None
        pg = struct.unpack('>I', db[ptr:ptr + 4])[0]
        if pg < 2 or pg * page > len(db):
            return None
        base = (pg - 1) * page
        take = min(usable - 4, len(needle) - pos)
        if db[base + 4:base + 4 + take] != needle[pos:pos + take]:
            return None
        for i in range(take):
            out[base + 4 + i] = pos + i
        pos += take
        ptr = base
    return out


def locate_value(db, needle, start=None):
    """Offsets in the SQLite file `db` of the bytes of the blob `needle`: the local part of the
    cell, then the overflow-page chain (4-byte next-page pointer, then content).  Returns
    {offset in db: offset in needle} or None."""
    page = struct.unpack('>H', db[16:18])[0]
    page = 65536 if page == 1 else page
    usable = page - db[20]
    head = needle[:min(len(needle), 32)]
    starts = [start] if start is not None else find_all(db, head)
    for s in starts:
        n = 0
        while n < len(needle) and s + n < len(db) and db[s + n] == needle[n]:
            n += 1
        if n == len(needle):
            return {s + i: i for i in range(n)}
        for local in range(n, 0, -1):
            m = _follow(db, needle, s, local, page, usable)
            if m is not None:
                return m
    return None


def pickle_map(data):
    """offset in pickle -> 'OPCODE:op' | 'OPCODE:arg'."""
    out = {}
    ops = list(pickletools.genops(data))
    for i, (op, arg, pos) in enumerate(ops):
        end = ops[i + 1][2] if i + 1 < len(ops) else len(data)
        out[pos] = op.name + ':op'
        for p in range(pos + 1, end):
            out[p] = op.name + ':arg'
    return out


def freeze_time():
    """Constant clock for populating a cache whose bytes must be reproducible (damage bases):
    diskcache stores time.time() in every row."""
    time.time = lambda: 1700000000.0


# --------------------------------------------------------------------------------------
# entry point of fresh interpreters
# --------------------------------------------------------------------------------------

def main(argv):
    mode = argv[1]
    call = json.loads(argv[2])
    if mode == 'ref':
        out = do_call(call, cache_dir=None)
        sys.stdout.write(json.dumps(out))
        return 0
    if mode == 'call':
        out = do_call(call)
        sys.stdout.write(json.dumps(out))
        return 0
    return 2


if __name__ == '__main__':
    sys.exit(main(sys.argv))
