"""Known-finding predicates for C15.  No genuine defect of the framing helpers was found
on the unchanged tree, so there is nothing to recognise."""
