"""Known-finding predicates for C19 (narrow structural tests over one edge a -> b
of the arrangement graph, re-established with the literal API by c19.shrink)."""

import re
from .terms import Leaf, Seq, Cho, Of, Ref, Tag, all_members
from .casefmt import parse_value
from . import arrange

INLINE_OPS = ('inline', 'extract', 'fold')


def _leaf_diffs(e, o, key=None):
    """(dict key, e, o) for every differing leaf of two decoded values of equal shape;
    key None = a difference in shape."""
    if isinstance(e, dict) and isinstance(o, dict) and set(e) == set(o):
        for k in e:
            yield from _leaf_diffs(e[k], o[k], k)
    elif isinstance(e, list) and isinstance(o, list) and len(e) == len(o):
        for x, y in zip(e, o):
            yield from _leaf_diffs(x, y, key)
    elif (isinstance(e, tuple) and isinstance(o, tuple) and len(e) == len(o) == 2 and isinstance(e[0], str)
          and e[0] == o[0] and not isinstance(e[1], int)):
        yield from _leaf_diffs(e[1], o[1], e[0])
    elif e != o or type(e) is not type(o):
        yield (key if not isinstance(e, (dict, list)) and not isinstance(o, (dict, list)) else None, e, o)


def _values_at(v, key):
    if isinstance(v, dict):
        for k, x in v.items():
            if k == key:
                yield x
            yield from _values_at(x, key)
    elif isinstance(v, (list, tuple)):
        for x in v:
            yield from _values_at(x, key)


def _sides(f):
    """(observation in the arrangement where the touched component is written as a
    type reference, observation where it is written inline)."""
    d = f['diff']
    if f['op']['op'] == 'inline':
        return d['expected'], d['observed']        # a has the reference, b the inline copy
    return d['observed'], d['expected']


def c19_default_converted_by_syntactic_type(f):
    """The edge inlines / extracts / folds exactly the type of a component that carries DEFAULT, and that type is
    (a) BOOLEAN: with the type written as a reference the default stays the string 'TRUE' / 'FALSE';
    (b) OBJECT IDENTIFIER: with a reference the default is lost (the component becomes mandatory);
    (c) INTEGER with a named number as the default: written inline the parser raises ValueError."""
    if f.get('kind') != 'arrangement-divergence' or f['op']['op'] not in INLINE_OPS:
        return False
    ctx = f['op']['ctx']
    if ctx.get('q') != 'D' or ctx.get('position') not in ('component', 'tag-inner') or not ctx.get('member'):
        return False
    d = f['diff']
    ref_side, inline_side = _sides(f)
    name = ctx['member']
    if ctx['shape'] == 'BOOLEAN' and ctx['default'] in ('TRUE', 'FALSE'):
        dflt = ctx['default'] == 'TRUE'
        if d['field'] == 'decode':
            try:
                r, i = parse_value(ref_side), parse_value(inline_side)
            except Exception:
                return False
            diffs = list(_leaf_diffs(r, i))
            return bool(diffs) and all(k == name and x == ctx['default'] and y is dflt for k, x, y in diffs)
        if d['field'] == 'encode':
            if not (ref_side.startswith('hex:') and inline_side.startswith('hex:')):
                return False
            return any(x is dflt for x in _values_at(f.get('_value'), name))
        return False
    if ctx['shape'] == 'OID' and re.fullmatch(r'\{[ 0-9]+\}', ctx['default'] or ''):
        if d['field'] != 'encode':
            return False
        return (ref_side.startswith('ERR ') and ("'%s' not found" % name) in ref_side
                and not inline_side.startswith('ERR') and not any(True for _ in _values_at(f.get('_value'), name)))
    if ctx['shape'] == 'INTEGER' and re.fullmatch(r'[a-z][A-Za-z0-9-]*', ctx['default'] or ''):
        return (d['field'] == 'compile' and 'ValueError: invalid literal for int()' in inline_side
                and ref_side == 'compiled')
    return False


def _reaches(env, frm, to, seen=None):
    seen = seen if seen is not None else set()
    for r in arrange.refs_in(env[frm]):
        if r == to:
            return True
        if r not in seen:
            seen.add(r)
            if _reaches(env, r, to, seen):
                return True
    return False


def c19_recursion_across_modules(f):
    """One arrangement of the edge is rejected with KeyError: '<T>' where T lies on a reference cycle and is
    referenced from a module other than the one that defines it; the other arrangement compiles."""
    if f.get('kind') != 'arrangement-divergence':
        return False
    d = f['diff']
    if d['field'] != 'compile':
        return False
    for text, arr, other in ((d['expected'], f.get('_arr_a'), d['observed']), (d['observed'], f.get('_arr_b'), d['expected'])):
        m = re.fullmatch(r"COMPILE ERR KeyError: '([A-Za-z0-9-]+)'", text)
        if not m or other != 'compiled' or arr is None:
            continue
        t = m.group(1)
        env, home = arrange.env_of(arr), arrange.home_of(arr)
        if t not in env:
            continue
        for x in env:
            if home[x] != home[t] and t in arrange.refs_in(env[x]) and _reaches(env, t, x):
                return True
    return False


def _choice_with_recursive_alternative(arr):
    """A CHOICE written in the definition of X has an untagged alternative that is a
    reference to a type N lying on a reference cycle through X (N is X, or N reaches X)."""
    env = arrange.env_of(arr)
    for x, t in env.items():
        for _, sub, _, _ in arrange.positions(t):
            if isinstance(sub, Cho):
                for m in all_members(sub):
                    if isinstance(m.t, Ref) and (m.t.name == x or _reaches(env, m.t.name, x)):
                        return True
    return False


def c19_oer_choice_alternative_is_recursive_reference(f):
    """OER only, tag default not AUTOMATIC: exactly one arrangement of the edge raises TypeError "object of type
    'NoneType' has no len()" on encode, and that arrangement has a CHOICE with an untagged alternative that refers
    to a type on a reference cycle through the CHOICE (the placeholder compiled for a recursive reference has no tag;
    whether the value meets the placeholder depends on which types are written inline)."""
    if f.get('kind') != 'arrangement-divergence' or f.get('codecs') != ['oer'] or f.get('tags') == 'AUTOMATIC':
        return False
    d = f['diff']
    msg = "TypeError: object of type 'NoneType' has no len()"
    a_bad, b_bad = msg in d['expected'], msg in d['observed']
    if a_bad == b_bad or d['field'] != 'encode':
        return False
    bad = f.get('_arr_a') if a_bad else f.get('_arr_b')
    return bad is not None and _choice_with_recursive_alternative(bad)
