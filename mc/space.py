"""Turn the layered term enumeration into work units: batches of top-level types
rendered into one module text under one environment."""

from dataclasses import dataclass, field
import itertools
from . import alphabet as A
from .terms import (Module, render_module, Leaf, Seq, Cho, Of, Ref, Tag, M, Grp, Rng, resolve,
                    subterms, all_members)
from .values import leaf_dom

BATCH = 60


@dataclass
class Unit:
    label: str
    spec: str
    tops: list                 # [(type name, term, label)]
    env: dict                  # name -> term (tops and helpers)
    tags: str = 'EXPLICIT'
    ext_implied: bool = False
    extra: dict = field(default_factory=dict)
    helpers: dict = field(default_factory=dict)


def make_unit(label, tops, helpers=None, tags='EXPLICIT', ext_implied=False, values=None, modname='M'):
    """tops: [(term, label)]; helpers: {name: term} placed after the tops."""
    from .tagging import legalize
    types = []
    out_tops = []
    henv = dict(helpers or {})
    for i, (t, lab) in enumerate(tops):
        name = 'T%d' % i
        t = legalize(t, henv, tags)
        types.append((name, t))
        out_tops.append((name, t, lab))
    for hn, ht in henv.items():
        types.append((hn, legalize(ht, henv, tags)))
    mod = Module(modname, types, tags=tags, ext_implied=ext_implied,
                 values=list(values if values is not None else A.VALUE_REFS))
    return Unit(label, render_module(mod), out_tops, dict(types), tags, ext_implied, helpers=henv)


def sub_unit(unit, indices):
    """A unit holding only the tops at `indices` (renamed T0..), same helpers and environment."""
    if not unit.helpers and any(n not in [x[0] for x in unit.tops] for n in unit.env):
        helpers = {n: t for n, t in unit.env.items() if n not in [x[0] for x in unit.tops]}
    else:
        helpers = unit.helpers
    if all(name.startswith('T') and name[1:].isdigit() for name, _, _ in unit.tops):
        return make_unit(unit.label + '/sub', [(unit.tops[i][1], unit.tops[i][2]) for i in indices],
                         helpers=helpers, tags=unit.tags, ext_implied=unit.ext_implied)
    return None


def batches(items, n=BATCH):
    for i in range(0, len(items), n):
        yield items[i:i + n]


def leaf_label(l):
    from .terms import render_type
    return render_type(l)


def default_for(leaf):
    """A DEFAULT value for the seq-def context: the second value of the domain
    (so that base != default), restricted to kinds that have value notation."""
    if leaf.kind in ('UTCTime', 'GeneralizedTime', 'DATE', 'TIME-OF-DAY', 'DATE-TIME'):
        return None
    d = leaf_dom(leaf, big=False)
    if leaf.kind in ('BITSTRING',):
        d = [v for v in d if v[1] <= 24]
    if leaf.kind in ('OCTETSTRING',) or leaf.is_string():
        d = [v for v in d if len(v) <= 8]
    if leaf.kind == 'REAL':
        d = [v for v in d if v == v and abs(v) != float('inf') and abs(v) < 1e9 and (v == 0 or abs(v) > 1e-3)]
    if leaf.kind == 'INTEGER':
        d = [v for v in d if abs(v) < 2**31]
    if leaf.is_string():
        d = [v for v in d if all(32 <= ord(c) < 127 for c in v)]
    if not d:
        return None
    return d[1] if len(d) > 1 else d[0]


def l0_units(thorough=False, envs=(('EXPLICIT', False),)):
    leaves = A.sigma_leaf(thorough)
    for tags, ei in envs:
        for bi, chunk in enumerate(batches(leaves)):
            yield make_unit('L0/%s%s/%d' % (tags, '+EI' if ei else '', bi),
                            [(l, 'L0:' + leaf_label(l)) for l in chunk], tags=tags, ext_implied=ei)


def l0c_units(thorough=False, envs=(('EXPLICIT', False),), leaves=None):
    leaves = leaves if leaves is not None else A.sigma_leaf(thorough)
    for tags, ei in envs:
        tops = []
        for l in leaves:
            for ctx, term in A.contexts(l, default_for(l)):
                tops.append((term, 'L0c:%s:%s' % (ctx, leaf_label(l))))
        for bi, chunk in enumerate(batches(tops)):
            yield make_unit('L0c/%s%s/%d' % (tags, '+EI' if ei else '', bi), chunk, tags=tags, ext_implied=ei)


def l1_units(W=2, K=2, envs=(('EXPLICIT', False),)):
    terms = A.l1_terms(W, K)
    for tags, ei in envs:
        for bi, chunk in enumerate(batches(terms)):
            yield make_unit('L1/%s%s/%d' % (tags, '+EI' if ei else '', bi),
                            [(t, 'L1') for t in chunk], helpers=A.REF_ENV, tags=tags, ext_implied=ei)


def l2_units(thorough=False, envs=(('EXPLICIT', False),)):
    terms = A.l2_terms(thorough)
    for tags, ei in envs:
        for bi, chunk in enumerate(batches(terms)):
            yield make_unit('L2/%s%s/%d' % (tags, '+EI' if ei else '', bi),
                            [(t, 'L2') for t in chunk], helpers=A.REF_ENV, tags=tags, ext_implied=ei)


def family_units(envs=(('EXPLICIT', False),)):
    for tags, ei in envs:
        for lab, types, tops in A.families():
            from .tagging import legalize
            types = {n: legalize(t, types, tags) for n, t in types.items()}
            mod = Module('M', list(types.items()), tags=tags, ext_implied=ei, values=list(A.VALUE_REFS))
            yield Unit('fam/%s/%s%s' % (lab, tags, '+EI' if ei else ''), render_module(mod),
                       [(n, types[n], 'fam:' + lab) for n in tops], dict(types), tags, ei)


def same_name_units(envs=(('EXPLICIT', False),)):
    """Components with the SAME identifier that refer to the SAME named type with different attributes
    (SIZE, OPTIONAL, DEFAULT, a tag, nothing) in different parent types.  The compiled-type cache of
    asn1tools/codecs/compiler.py is keyed (module, type name, component identifier), so all these parents
    get one cached object and each has to work on its own copy (the shallow-copy sites of compile_member).
    Plain parents come first AND last, so a leak shows whichever parent is compiled first.

    `Os (SIZE (2))` is a reference with a constraint applied to it.  The term language has no such node;
    it is represented as a Ref whose *name* is that text (printed verbatim by the renderer) and whose
    environment entry is the effective constrained type, so every model sees the right type.  Virtual
    entries are not rendered as assignments."""
    from .tagging import legalize
    B = Leaf('BOOLEAN')
    real = {
        'Iu': Leaf('INTEGER', rng=Rng(0, 255)),
        'Os': Leaf('OCTETSTRING'),
        'Ls': Of(B),
        'St': Leaf('IA5String'),
        'En': Leaf('ENUMERATED', enum=(('a', None), ('b', None), ('c', None))),
    }
    virtual = {
        'Os (SIZE (2))': Leaf('OCTETSTRING', size=Rng(2, 2, single=True)),
        'Os (SIZE (0..3))': Leaf('OCTETSTRING', size=Rng(0, 3)),
        'Os (SIZE (1))': Leaf('OCTETSTRING', size=Rng(1, 1, single=True)),
    }
    # (SIZE applied to a reference is used on OCTET STRING only: for BIT STRING, SEQUENCE OF and - in OER -
    # character strings the codecs ignore a SIZE given on a reference altogether, e.g. `l Ls (SIZE (1..3))` is
    # encoded with an unconstrained length; seen while building this family, see DESIGN 7.3)
    plain = Seq((M('x', Ref('Iu')), M('k', Ref('Os')), M('l', Ref('Ls')), M('s', Ref('St')), M('e', Ref('En')),
                 M('y', B)))
    parents = [
        ('P0', plain),
        ('P1', Seq((M('x', Ref('Iu'), 'O'), M('k', Ref('Os (SIZE (2))')), M('l', Ref('Ls')),
                    M('s', Ref('St')), M('e', Ref('En'), 'O'), M('y', B)))),
        ('P2', Seq((M('x', Ref('Iu'), 'D', default=7), M('k', Ref('Os (SIZE (0..3))')), M('l', Ref('Ls'), 'O'),
                    M('s', Ref('St'), 'O'), M('e', Ref('En'), 'D', default='b'), M('y', B)))),
        ('P3', Seq((M('x', Tag(3, Ref('Iu'))), M('k', Tag(4, Ref('Os'))), M('l', Ref('Ls'), 'O'),
                    M('s', Ref('St'), 'O'), M('e', Tag(6, Ref('En'))), M('y', B)))),
        ('P4', Cho((M('x', Ref('Iu')), M('k', Ref('Os (SIZE (1))')), M('e', Ref('En')), M('y', B)))),
        ('P5', plain),
    ]
    out = []
    for tags, ei in envs:
        env = dict(real)
        env.update(virtual)
        types = [(n, legalize(t, env, tags)) for n, t in parents]
        rendered = types + [(n, t) for n, t in real.items()]
        mod = Module('M', rendered, tags=tags, ext_implied=ei, values=list(A.VALUE_REFS))
        full = dict(rendered)
        full.update(virtual)
        out.append(Unit('fam/same-name/%s%s' % (tags, '+EI' if ei else ''), render_module(mod),
                        [(n, t, 'fam:same-name') for n, t in types], full, tags, ei))
    return out


ENVS_QUICK = (('EXPLICIT', False), ('AUTOMATIC', False))
ENVS_ALL = (('EXPLICIT', False), ('IMPLICIT', False), ('AUTOMATIC', False),
            ('EXPLICIT', True), ('AUTOMATIC', True))


def standard_units(tier):
    """The common program space of C01 and the checks that reuse it."""
    thorough = tier == 'thorough'
    out = []
    out += l0_units(thorough)
    out += l0c_units(thorough, envs=ENVS_QUICK if not thorough else ENVS_ALL)
    if thorough:
        out += l1_units(3, 2, envs=ENVS_ALL)
    else:
        # quick: every pair of deviations (K=2) under EXPLICIT TAGS, every single deviation under AUTOMATIC TAGS
        out += l1_units(2, 2, envs=(('EXPLICIT', False),))
        out += l1_units(2, 1, envs=(('AUTOMATIC', False),))
    out += l2_units(thorough, envs=ENVS_QUICK if not thorough else ENVS_ALL)
    out += family_units(envs=ENVS_QUICK if not thorough else ENVS_ALL)
    out += same_name_units(envs=ENVS_QUICK if not thorough else ENVS_ALL)
    return out


def special_string_units(strings, kinds=('UTF8String', 'IA5String')):
    """Character strings with syntax-significant content (quotes, markup, new-lines, blanks) in
    every standard context and inside nested lists / structures, for the text codecs: layout code
    (indentation, separators, escaping) sees the string at every depth.  The unit carries
    extra['string_values']; use values_of(unit, term) to get the value domain."""
    B = Leaf('BOOLEAN')
    tops = []
    for k in kinds:
        x = Leaf(k)
        for ctx, term in A.contexts(x, None):
            tops.append((term, 'Ls:%s:%s' % (ctx, k)))
        nested = [
            ('of-of', Of(Of(x))),
            ('seq-of', Seq((M('l', Of(x)), M('t', B)))),
            ('of-seq', Of(Seq((M('s', x), M('u', x, 'O'))))),
            ('of-cho', Of(Cho((M('p', B), M('x', x))))),
            ('seq-seq-of', Seq((M('i', Seq((M('l', Of(x)),))), M('t', x)))),
            ('cho-of', Cho((M('p', B), M('l', Of(x))))),
            ('set-of', Of(x, None, True)),
        ]
        for ctx, term in nested:
            tops.append((term, 'Ls:%s:%s' % (ctx, k)))
    out = []
    for bi, chunk in enumerate(batches(tops)):
        u = make_unit('Ls/%d' % bi, chunk)
        u.extra['string_values'] = list(strings)
        u.extra['all_indents'] = True
        out.append(u)
    return out


def values_of(unit, term):
    """Value domain of a top-level term of a unit (honours extra['values'] / extra['string_values'])."""
    from .values import dom, dom_with
    if unit.extra.get('values'):
        return unit.extra['values']
    sv = unit.extra.get('string_values')
    if sv:
        return dom_with(term, unit.env, lambda l: sv if l.is_string() else None)
    return dom(term, unit.env)
