"""Known-finding predicates for C11 (over shrunk failures: `_term`, `_value`, `_env`
are live objects).  Each predicate recognises one specific constraint shape."""

from .cterms import CRef, layers
from .terms import Tag
from .ref_constraints import violations
from .ref_paths import positions

OUTSIDE_KINDS = ('outside-value-encoded', 'outside-value-other-error', 'decode-accepts-outside-value')
INSIDE_KINDS = ('inside-value-rejected', 'decode-rejects-inside-value')
FLOATISH = ('inf', 'nan', 'infinity')


def _viol(f):
    """[(position, violated layer)] of the shrunk case (for the decode path: of the
    value the bytes carry)."""
    term, v, env = f['_term'], f.get('_judged', f['_value']), f['_env']
    pmap = {p.steps: p for p in positions(term, v, env, max_list=10**6)}
    out = []
    for steps, w in violations(term, v, env):
        if isinstance(w, str):
            return None
        out.append((pmap[steps], w))
    return out


def _declared_cref(pos):
    """The CRef that is directly the type of the component at pos (tags stripped), if any."""
    t = pos.term
    while isinstance(t, Tag):
        t = t.inner
    return t if isinstance(t, CRef) else None


def _is_component(pos):
    return bool(pos.steps) and pos.steps[-1][0] in ('m', 'c')


def _floatish_bound(l):
    return l.what == 'rng' and ((l.rng.lb_sym or '').lower() in FLOATISH or (l.rng.ub_sym or '').lower() in FLOATISH)


def from_on_reference_ignored(f):
    """FROM applied to a type reference: every violated constraint is such a FROM."""
    if f['kind'] not in OUTSIDE_KINDS:
        return False
    v = _viol(f)
    return bool(v) and all(l.what == 'alpha' and l.where == 'cref' for _, l in v)


def _size_handled_by_member(pos, l):
    """The one place where the library applies a SIZE written on a reference: the
    reference is directly the type of a SEQUENCE / SET component or CHOICE alternative."""
    c = _declared_cref(pos)
    return _is_component(pos) and c is not None and c.size is not None and c.size == l.rng


def size_on_reference_outside_member_ignored(f):
    """SIZE applied to a type reference that is a type assignment's right-hand side or
    the element type of SEQUENCE OF / SET OF (not directly a component): ignored."""
    if f['kind'] not in OUTSIDE_KINDS:
        return False
    v = _viol(f)
    return bool(v) and all(l.what == 'size' and l.where == 'cref' and not _size_handled_by_member(p, l)
                           for p, l in v)


def member_size_replaces_referenced_size(f):
    """`x T1 (SIZE (a..b))` where T1 has its own SIZE: the component's SIZE replaces
    T1's instead of intersecting with it; the violated constraint is T1's."""
    if f['kind'] not in OUTSIDE_KINDS:
        return False
    v = _viol(f)
    if not v:
        return False
    for p, l in v:
        c = _declared_cref(p)
        if not (_is_component(p) and c is not None and c.size is not None and not c.size.ext):
            return False
        if l.what != 'size' or (l.where == 'cref' and l.rng == c.size):
            return False
    return True


def bound_named_inf_or_nan(f):
    """A value-range bound given by a value reference spelled inf / nan / infinity
    is converted with float(): the range becomes 0..infinity or is never satisfied."""
    term, v, env = f['_term'], f['_value'], f['_env']
    if f['kind'] in OUTSIDE_KINDS:
        vv = _viol(f)
        return bool(vv) and all(_floatish_bound(l) for _, l in vv)
    if f['kind'] in INSIDE_KINDS:
        if 'nan' not in f.get('detail', '') and 'inf' not in f.get('detail', ''):
            return False
        for p in positions(term, v, env):
            if any(_floatish_bound(l) for l in layers(p.term, env)[1]):
                return True
    return False
