"""Known-finding predicates for C08 (minimal failing inputs)."""


def xer_internal_entity_expansion(f):
    """XER: the decoder hands the document to ElementTree, which expands internal
    entity definitions: a few hundred bytes become megabytes of text."""
    if f.get('codec') != 'xer' or f.get('kind') not in ('budget-size', 'budget-steps', 'budget-memory'):
        return False
    try:
        data = bytes.fromhex(f.get('input', '').rstrip('.'))
    except ValueError:
        return False
    return b'<!ENTITY' in data


def oer_quantity_of_zero_width_elements(f):
    """OER: SEQUENCE OF / SET OF whose elements encode to zero octets: the quantity
    field alone (up to 2^64) decides how long the decoder loops and how large the
    result is; nothing ties it to the input length."""
    if not (f.get('codec') == 'oer' and f.get('zero_width') and
            f.get('kind') in ('budget-steps', 'budget-size', 'budget-memory')):
        return False
    try:
        data = bytes.fromhex(f.get('input', '').rstrip('.'))
    except ValueError:
        return False
    # the input starts with a quantity of three or more octets
    return len(data) >= 1 and 3 <= data[0] <= 127 and len(data) >= 1 + data[0]
