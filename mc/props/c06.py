"""C06 OER encodings are byte-exact X.696.

Space: the standard program space (L0 leaf alphabet incl. REAL WITH COMPONENTS
binary32/64, L0c leaf-in-context, L1, L2, families) plus the C06 terms below
(CHOICE tags 62/63/64 and multi-octet, SET canonical order over multi-octet tags,
1..24 extension additions, groups, additions nested in SET and CHOICE, large and
negative ENUMERATED values next to preambles) x boundary values x numeric_enums,
codec oer only.

Oracle (mc.ref_oer, an independent model of X.696 that never imports asn1tools),
for every (term, value) the library's own check_types/check_constraints accept:
  E  the octets the implementation emits are an encoding Basic OER prescribes for
     the value: identical to the model's canonical octets, or accepted by the
     model's acceptance decoder as one of the forms Basic OER leaves to the
     encoder (DEFAULT-valued component present, ...) AND decoding to the value;
  D  the implementation decodes the model's canonical octets (and, where a
     DEFAULT-valued component is involved, also the variant that encodes it) to
     the value;
the pair (E, D) localises the deviating side: encoder-deviates / decoder-deviates
/ both-deviate / encode-raised.
"""

from .. import impl, space, budget, ref_oer
from ..runner import Result, new_failure
import re
from ..terms import Leaf, Rng, Seq, Cho, Of, Ref, Tag, M, Grp, MAX, has_kind, render_type, resolve, all_members
from ..values import dom, to_numeric
from .. import absval
from ..casefmt import vclass, errclass, valrepr, case_fields, rebuild_case, leafkeys, attribute_to_leaf_failures
from .. import shrink as shrinker

ID = 'C06'
LEVEL = 'model_checking'
CODEC = 'oer'
CHUNK = 2
ASSUMPTIONS = [
    'Inside constructors (L1/L2) members are drawn from the 12-letter reduced alphabet Sigma_r; the full leaf '
    'alphabet is tied to containers by the L0c context layer (every leaf in 13 contexts).',
    'Value domains are boundary sets (DESIGN 1.3), products are deviation-bounded (k<=2) above 48 elements; -0.0 and '
    'NaN are not in the REAL domain.',
    'Only (type, value) pairs accepted by the library\'s own check_types and check_constraints are judged.',
    'Encoder side: wherever Basic OER leaves the encoder an option the implementation\'s octets are accepted in any '
    'admissible form (longer length determinants, non-minimal variable-size integers, TRUE as any non-zero octet, '
    'DEFAULT-valued components present or absent, SET OF in the order given); the evidence counts how often the '
    'octets were byte-identical to the model\'s canonical form and how often merely admissible.',
    'Unasserted model rules (never reported): whether an encoder must use the DER form of REAL contents octets '
    '(any X.690 8.5 form with the same value is accepted); which character form of UTCTime / GeneralizedTime an '
    'encoder must choose; trailing-zero-bit handling of BIT STRINGs with named bits (encoded with the bit count '
    'given). GeneralString/GraphicString/TeletexString/ObjectDescriptor values are restricted to ASCII.',
    'Values the model itself cannot encode (counted as skipped_model_rejects with the reason) are not judged.',
    'The value a decoder substitutes for an ABSENT DEFAULT component is not judged here (it comes from the parser\'s '
    'handling of the value notation, C01\'s subject): components absent from the octets are removed before comparing.',
    'Types the OER compiler rejects (counted as types_rejected_by_compiler with the error class) are outside the '
    'property\'s quantifier ("supported types"); today: SET with an untagged CHOICE / DATE / TIME-OF-DAY / DATE-TIME '
    'component (TypeError while sorting tags), numeric_enums with DEFAULT on an extensible ENUMERATED.',
    'Per work unit one failure record (the smallest case) is kept per root-cause signature (kind, model rule at the '
    'first deviating octet, normalised reason, layer, outer constructor); the other cases are counted '
    '(deviating_cases, cases_in_unit). Shrinking is greedy on the failure kind.',
    'Decoder side is exercised with the model\'s canonical octets (plus the DEFAULT-present variant) only; rejection '
    'of malformed input belongs to C08/C16.',
    'Step budget constants: c0=20000, c1=4000 events per encoded byte.',
]

C0, C1 = 20000, 4000
B = Leaf('BOOLEAN')
U8 = Leaf('INTEGER', rng=Rng(0, 255))
INT = Leaf('INTEGER')


def bounds(tier):
    return {'tier': tier,
            'layers': ('L0,L0c,L2,families under EXPLICIT and AUTOMATIC; L1(W2,K2) EXPLICIT, L1(W2,K1) AUTOMATIC (C06 terms: 3 environments, incl. EXTENSIBILITY IMPLIED)' if tier == 'quick'
                       else 'L0,L0c,L1(W3,K2),L2,families; 5 environments') + '; C06 extra terms',
            'value_deviation_k': 2, 'codecs': [CODEC], 'numeric_enums': [False, True],
            'extra_additions_counts': list(ADD_COUNTS_THOROUGH if tier == 'thorough' else ADD_COUNTS_QUICK),
            'extra_tag_numbers': TAG_NUMBERS}


# ---------------------------------------------------------------------------
# C06's own terms

TAG_NUMBERS = [0, 30, 31, 62, 63, 64, 127, 128, 16383, 16384, 2097151, 2097152]
ADD_COUNTS_QUICK = [1, 2, 7, 8, 9, 16]
ADD_COUNTS_THOROUGH = [1, 2, 3, 7, 8, 9, 15, 16, 17, 24]
ENUM_WIDE = Leaf('ENUMERATED', enum=(('n1', -1), ('z', 0), ('p127', 127), ('p128', 128), ('p32767', 32767),
                                     ('p32768', 32768), ('m32769', -32769), ('p70000', 70000), ('m129', -129)))
ENUM_WIDE_X = Leaf('ENUMERATED', enum=(('z', 0), ('p127', 127)),
                   enum_adds=(('p128', 128), ('m1', -1), ('p40000', 40000)))


def extra_terms(tier):
    thorough = tier == 'thorough'
    out = []

    def add(t, lab):
        out.append((t, 'X:' + lab))

    # CHOICE: tag number boundaries in every class, root and extension alternatives
    alts = [M('c%d' % n, Tag(n, B)) for n in TAG_NUMBERS]
    add(Cho(tuple(alts)), 'cho-tags-context')
    add(Cho(tuple(M('a%d' % n, Tag(n, U8, cls='APPLICATION')) for n in TAG_NUMBERS)), 'cho-tags-application')
    add(Cho(tuple(M('p%d' % n, Tag(n, U8, cls='PRIVATE')) for n in TAG_NUMBERS)), 'cho-tags-private')
    add(Cho((M('r', Tag(62, B)),), ext=True,
            adds=tuple(M('x%d' % n, Tag(n, INT)) for n in (63, 64, 128, 16384))), 'cho-tags-ext')
    add(Cho((M('r', Tag(1, B)), M('s', Tag(63, Cho((M('i', Tag(64, U8)), M('j', Tag(0, B))))))), ext=True,
            adds=(M('x', Tag(200, Seq((M('q', U8, 'O'),), ext=True, adds=(M('w', B, 'O'),)))),)), 'cho-tags-nested')
    for n in (62, 63, 64, 128, 16384):
        add(Cho((M('a', Tag(n, B)), M('b', Tag(n + 1, U8, cls='APPLICATION')))), 'cho-tag-%d' % n)
    # universal tags of every built-in type as CHOICE alternatives (EXPLICIT environment decides)
    kinds = ['BOOLEAN', 'INTEGER', 'BITSTRING', 'OCTETSTRING', 'NULL', 'OID', 'ObjectDescriptor', 'REAL',
             'UTF8String', 'NumericString', 'PrintableString', 'TeletexString', 'IA5String', 'UTCTime',
             'GeneralizedTime', 'GraphicString', 'VisibleString', 'GeneralString', 'UniversalString', 'BMPString',
             'DATE', 'TIME-OF-DAY', 'DATE-TIME']
    for k in kinds:
        add(Cho((M('a', Leaf(k)), M('e', Leaf('ENUMERATED', enum=(('u', None), ('v', None)))))), 'cho-universal-' + k)
    add(Cho((M('s', Seq((M('a', B),))), M('t', Seq((M('a', B),), is_set=True)), M('b', B))), 'cho-universal-seq-set')
    add(Cho((M('g', Leaf('GraphicString')), M('h', Leaf('GeneralString')))), 'cho-graphic-general')
    add(Cho((M('o', Cho((M('i', INT), M('b', B)))), M('n', Leaf('NULL')))), 'cho-untagged-cho')
    add(Cho((M('o', Cho((M('i', INT), M('b', B)))),), ext=True,
            adds=(M('x', Cho((M('s', Leaf('IA5String')), M('n', Leaf('NULL'))))),)), 'cho-untagged-cho-ext')

    # SET: canonical order over multi-octet tags, classes, untagged universal and untagged CHOICE
    def small(i):
        return Leaf('INTEGER', rng=Rng(0, 255))
    add(Seq((M('a', Tag(16384, U8)), M('b', Tag(256, U8)), M('c', Tag(16383, U8)), M('d', Tag(128, U8)),
             M('e', Tag(127, U8)), M('f', Tag(63, U8)), M('g', Tag(5, U8)), M('h', Tag(5, U8, cls='APPLICATION')),
             M('i', Tag(1, U8, cls='PRIVATE')), M('j', B)), is_set=True), 'set-order-all')
    for x, y in ((16384, 256), (16384, 16383), (128, 127), (64, 63), (2097152, 16384), (300, 200)):
        add(Seq((M('a', Tag(x, U8)), M('b', Tag(y, U8))), is_set=True), 'set-order-%d-%d' % (x, y))
    add(Seq((M('a', Tag(1, U8, cls='PRIVATE')), M('b', Tag(9, U8)), M('c', Tag(70, U8, cls='APPLICATION')),
             M('d', U8)), is_set=True), 'set-order-classes')
    add(Seq((M('d', Tag(5, U8)), M('c', Cho((M('x', Tag(7, B)), M('y', Tag(2, U8)))))), is_set=True),
        'set-untagged-cho')
    add(Seq((M('b', Tag(9, U8), 'O'), M('a', Tag(3, B), 'D', default=True)), ext=True,
            adds=(M('z', Tag(1, U8), 'O'), M('y', Tag(0, B))), is_set=True), 'set-order-preamble-adds')

    # SEQUENCE / SET with n extension additions (bitmap length and unused-bits octet)
    for n in (ADD_COUNTS_THOROUGH if thorough else ADD_COUNTS_QUICK):
        adds = tuple(M('x%d' % i, U8, 'O') for i in range(n))
        add(Seq((M('r', B),), ext=True, adds=adds), 'seq-adds-%d' % n)
        if n in (1, 8, 9, 16):
            add(Seq((M('r', B, 'O'),), ext=True, adds=tuple(M('x%d' % i, B) for i in range(n))), 'seq-adds-mand-%d' % n)
            add(Seq((M('r', B), M('s', U8)), ext=True, adds=adds, is_set=True), 'set-adds-%d' % n)
    # groups: one bit and one SEQUENCE per [[ ]]
    g2 = Grp((M('g0', U8), M('g1', B)))
    g2o = Grp((M('g0', U8, 'O'), M('g1', B, 'O')))
    g1d = Grp((M('g0', U8, 'D', default=7),))
    add(Seq((M('r', B),), ext=True, adds=(g2,)), 'seq-group-2')
    add(Seq((M('r', B),), ext=True, adds=(g2o,)), 'seq-group-2opt')
    add(Seq((M('r', B),), ext=True, adds=(g1d,)), 'seq-group-1default')
    add(Seq((M('r', B),), ext=True, adds=(Grp((M('g0', U8),)),)), 'seq-group-1')
    add(Seq((M('r', B),), ext=True, adds=(M('x0', B, 'O'), g2, M('x1', U8, 'O'))), 'seq-add-group-add')
    add(Seq((M('r', B),), ext=True, adds=tuple(M('x%d' % i, B, 'O') for i in range(6)) + (g2,)), 'seq-6adds-group2')
    add(Seq((M('r', B),), ext=True, adds=tuple(M('x%d' % i, B, 'O') for i in range(7)) + (Grp((M('g0', U8),)),)),
        'seq-7adds-group1')
    add(Seq((M('r', B),), ext=True, adds=(g2,), root2=(M('t', U8),)), 'seq-group-root2')
    add(Seq((M('r', Tag(0, B)),), ext=True, adds=(Grp((M('g0', Tag(1, U8)), M('g1', Tag(2, B), 'O'))),), is_set=True),
        'set-group')
    add(Cho((M('r', B),), ext=True, adds=(Grp((M('g0', U8), M('g1', Leaf('NULL')))),)), 'cho-group')

    # additions nested in SET and CHOICE
    inner = Seq((M('p', B),), ext=True, adds=(M('q', U8, 'O'), M('w', INT, 'O')))
    inner_set = Seq((M('p', Tag(0, B)), M('o', Tag(1, U8), 'O')), ext=True, adds=(M('q', Tag(2, U8)),), is_set=True)
    inner_cho = Cho((M('p', Tag(0, B)),), ext=True, adds=(M('q', Tag(1, U8)), M('w', Tag(2, inner))))
    add(Seq((M('a', Tag(0, B)),), ext=True, adds=(M('x', Tag(1, inner)), M('y', Tag(2, inner_set), 'O')), is_set=True),
        'set-adds-nested')
    add(Cho((M('a', Tag(0, B)),), ext=True, adds=(M('x', Tag(1, inner)), M('y', Tag(2, inner_set)),
                                                  M('z', Tag(3, inner_cho)))), 'cho-adds-nested')
    add(Seq((M('a', B),), ext=True, adds=(M('x', inner_cho), M('y', Of(inner, size=Rng(0, 2)), 'O'))),
        'seq-adds-nested-cho-of')
    add(Of(inner_cho, size=Rng(0, 2)), 'of-cho-adds')
    # inline SEQUENCE / SET as the element of SEQUENCE OF (EXTENSIBILITY IMPLIED reaches nested definitions)
    add(Of(Seq((M('a', B), M('b', U8, 'O'))), size=Rng(0, 2)), 'of-inline-seq')
    add(Seq((M('l', Of(Seq((M('a', Tag(0, U8)), M('b', Tag(1, B))), is_set=True), is_set=True)),)), 'seq-of-inline-set')

    # ENUMERATED values < 0, 127/128, > 32767 next to preambles and inside additions
    add(Seq((M('o', B, 'O'), M('e', ENUM_WIDE), M('t', U8)), ext=True, adds=(M('f', ENUM_WIDE, 'O'),)),
        'seq-enum-wide')
    add(Seq((M('e', ENUM_WIDE, 'D', default='p128'), M('f', ENUM_WIDE_X, 'O')), ext=True,
            adds=(Grp((M('g', ENUM_WIDE_X), M('h', ENUM_WIDE, 'O'))),)), 'seq-enum-wide-default-group')
    add(Of(ENUM_WIDE, size=Rng(0, 3)), 'of-enum-wide')
    add(Cho((M('e', ENUM_WIDE),), ext=True, adds=(M('f', ENUM_WIDE_X),)), 'cho-enum-wide')
    add(ENUM_WIDE_X, 'enum-wide-ext')

    # extensible INTEGER constraints and multi-byte UTF-8 under SIZE inside containers with preambles
    for rng in (Rng(0, 255, ext=True), Rng(-1, 1, ext=True), Rng(0, MAX, ext=True), Rng(1, 65536, ext=True)):
        add(Seq((M('o', B, 'O'), M('i', Leaf('INTEGER', rng=rng))), ext=True,
                adds=(M('j', Leaf('INTEGER', rng=rng), 'O'),)), 'seq-int-ext-%s' % rng.text().replace(' ', ''))
    for size in (Rng(2, 2, single=True), Rng(1, 3), Rng(2, 2, ext=True, single=True)):
        add(Seq((M('o', B, 'O'), M('s', Leaf('UTF8String', size=size)), M('t', U8))), 'seq-utf8-%s' % size.text())
    return out


def extra_units(tier):
    terms = extra_terms(tier)
    # the C06 terms are few: EXTENSIBILITY IMPLIED is exercised on them in the quick tier as well
    envs = space.ENVS_ALL if tier == 'thorough' else space.ENVS_QUICK + (('EXPLICIT', True),)
    out = []
    for tags, ei in envs:
        for bi, chunk in enumerate(space.batches(terms, 40)):
            out.append(space.make_unit('X/%s%s/%d' % (tags, '+EI' if ei else '', bi), chunk, tags=tags, ext_implied=ei))
    return out


def units(tier):
    return space.standard_units(tier) + extra_units(tier)


def setup(tier):
    from .. import values
    values.set_tier(tier)


def has_enum(t, env):
    return has_kind(t, env, lambda s: isinstance(s, Leaf) and s.kind == 'ENUMERATED')


# ---------------------------------------------------------------------------
# oracle

def _sizeof(v):
    if isinstance(v, (bytes, bytearray, str)):
        return len(v)
    if isinstance(v, (list, tuple)):
        return 1 + sum(_sizeof(x) for x in v)
    if isinstance(v, dict):
        return 1 + sum(_sizeof(x) for x in v.values())
    return 1


def _hx(b, n=60):
    if b is None:
        return 'None'
    h = bytes(b).hex()
    return h if len(h) <= 2 * n else h[:2 * n] + '..(%d octets)' % len(b)


def strip_substituted_defaults(t, val, refv, env, _depth=0):
    """Remove from a decoded value the DEFAULT components that were absent from
    the octets (refv is the model's decoding of the same octets, which keeps such
    components absent).  What the decoder substitutes for an absent DEFAULT
    component comes from the parser's value notation handling, not from OER."""
    if _depth > 40:
        return val
    t = resolve(t, env)
    if isinstance(t, Seq) and isinstance(val, dict) and isinstance(refv, dict):
        out = dict(val)
        for m in all_members(t):
            if m.name not in val:
                continue
            if m.name not in refv:
                if m.q == 'D':
                    del out[m.name]
            else:
                out[m.name] = strip_substituted_defaults(m.t, val[m.name], refv[m.name], env, _depth + 1)
        return out
    if isinstance(t, Cho) and isinstance(val, tuple) and isinstance(refv, tuple) and len(val) == 2 \
            and len(refv) == 2 and val[0] == refv[0]:
        for m in all_members(t):
            if m.name == val[0]:
                return (val[0], strip_substituted_defaults(m.t, val[1], refv[1], env, _depth + 1))
    if isinstance(t, Of) and isinstance(val, list) and isinstance(refv, list) and len(val) == len(refv):
        return [strip_substituted_defaults(t.elem, a, b, env, _depth + 1) for a, b in zip(val, refv)]
    return val


_NUM = re.compile(r'-?\d+')


def _norm(msg):
    msg = re.sub(r"'[^']*'", "'_'", msg)
    return _NUM.sub('N', msg)[:90]


def check_value(ct, term, env, tags, ei, v, numeric, res):
    """Judge one (type, value). Returns None or (kind, detail, impl_octets)."""
    pv = to_numeric(term, v, env) if numeric else v
    try:
        ct.check_types(pv)
        ct.check_constraints(pv)
    except (impl.asn1tools.EncodeError, impl.asn1tools.ConstraintsError):
        res.count('values_rejected_by_checks')
        return None
    except Exception as e:
        # a foreign exception from the checks is C11/C12's subject, not an OER deviation
        res.count('values_rejected_by_checks')
        res.outcome('check-raised-foreign:' + errclass(e)[:40])
        return None
    try:
        ref_b, chunks, info = ref_oer.encode_traced(term, pv, env, tags, ei, numeric, True)
    except ref_oer.RefError as e:
        res.count('skipped_model_rejects')
        res.outcome('model-rejects:' + errclass(e)[:60])
        return None
    res.count('evaluations')
    for r, n in info.rules.items():
        res.count('rule:' + r, n)
    # model self-consistency (a failure here is a bug of the model: machinery error)
    back, binfo = ref_oer.decode_checked(term, ref_b, env, tags, ei, numeric)
    if not absval.eq(term, pv, back, env, numeric) or any(n.startswith('option') for n in binfo.notes):
        raise AssertionError('ref_oer is not self-consistent on %s value %r: %s -> %r %s'
                             % (render_type(term, env), pv, ref_b.hex(), back, sorted(binfo.notes)))
    variants = [(ref_b, back)]
    if 'default-equal' in info.notes:
        vb2 = ref_oer.encode(term, pv, env, tags, ei, numeric, False)
        variants.append((vb2, ref_oer.decode(term, vb2, env, tags, ei, numeric)))
        res.count('default_variants')

    # E: the implementation's encoder
    size = _sizeof(pv)
    enc = None
    enc_state = 'ok'
    enc_detail = ''
    at = '-'
    why = ''
    res.count('transitions')
    try:
        enc, _ = budget.run(C0 + C1 * 64 + 60 * size, ct.encode, pv)
        enc = bytes(enc)
    except budget.BudgetExceeded:
        enc_state, enc_detail = 'raised', 'BudgetExceeded'
        why = 'encoder raised BudgetExceeded'
    except Exception as e:
        enc_state, enc_detail = 'raised', errclass(e)
        why = 'encoder raised ' + errclass(e)[:60]
    if enc is not None:
        if any(enc == vb for vb, _ in variants):
            res.count('encodings_byte_identical')
        else:
            res.count('transitions')
            bad = None
            try:
                d, dinfo = ref_oer.decode_checked(term, enc, env, tags, ei, numeric)
                if not absval.eq(term, pv, d, env, numeric):
                    bad = 'octets denote another value'
                    enc_detail = 'model decodes the octets to %s' % valrepr(d)[:120]
            except ref_oer.RefError as e:
                bad = 'not an encoding of the type: %s' % _norm(str(e))
                enc_detail = str(e)[:160]
            if bad is None:
                res.count('encodings_admissible_not_canonical')
                for n in dinfo.notes:
                    res.outcome('accepted-' + n)
                    if n.startswith('unasserted:'):
                        res.count('rule:' + n.split(':', 1)[1])
            else:
                enc_state = 'bad'
                why = bad
                off, at = ref_oer.divergence(chunks, enc)
                enc_detail = 'octet %s: %s' % (off, enc_detail)
    # D: the implementation's decoder on the model's octets
    dec_state = 'ok'
    dec_detail = ''
    for vb, vback in variants:
        res.count('transitions')
        try:
            dec, _ = budget.run(C0 + C1 * (len(vb) + 1) + 60 * size, ct.decode, vb)
        except budget.BudgetExceeded:
            dec_state, dec_detail = 'raised', 'BudgetExceeded'
            break
        except Exception as e:
            dec_state, dec_detail = 'raised', errclass(e)
            break
        if not absval.eq(term, pv, strip_substituted_defaults(term, dec, vback, env), env, numeric):
            dec_state, dec_detail = 'bad', 'decodes %s to %s' % (_hx(vb, 24), valrepr(dec)[:120])
            break
    if enc_state == 'ok' and dec_state == 'ok':
        res.outcome('ok')
        return None
    if enc_state == 'raised':
        kind = 'encode-raised'
    elif enc_state == 'bad':
        kind = 'both-deviate' if dec_state != 'ok' else 'encoder-deviates'
    else:
        kind = 'decoder-deviates'
    if kind == 'decoder-deviates':
        why = 'decoder raised ' + dec_detail[:60] if dec_state == 'raised' else 'decoder yields another value'
    detail = 'at=%s; why=%s; encoder %s %s; decoder %s %s; model=%s impl=%s' % (
        at, why, enc_state, enc_detail, dec_state, dec_detail, _hx(ref_b), _hx(enc))
    return (kind, detail, enc)


def _rule_of(detail):
    return detail.split('; ', 1)[0][3:]


def _cause(kind, detail):
    """Root-cause key used to group failures before shrinking: the model rule that
    emitted the first octet the implementation departs from, and why the
    implementation's octets were not accepted (numbers and names normalised)."""
    parts = detail.split('; ')
    return parts[0] + '|' + parts[1]


def _tshape(term, lab, env):
    if lab.startswith('L0c:'):
        return lab.split(':')[1]
    t = resolve(term, env)
    if isinstance(t, Leaf):
        return t.kind
    if isinstance(t, Seq):
        return 'SET' if t.is_set else 'SEQUENCE'
    if isinstance(t, Of):
        return 'OF'
    return 'CHOICE'


def work(unit):
    res = Result()
    best = {}
    any_enum = any(has_enum(t, unit.env) for _, t, _ in unit.tops)
    compiled = impl.compile_tops(unit, (CODEC,), (False, True) if any_enum else (False,))
    for i, (name, term, lab) in enumerate(unit.tops):
        res.count('types')
        res.states.add(hash((unit.tags, unit.ext_implied, term)))
        values = dom(term, unit.env)
        if not values:
            res.count('types_without_values')
            continue
        res.count('values', len(values))
        enum = has_enum(term, unit.env)
        if i in (len(unit.tops) // 2, len(unit.tops) - 1):
            mid = values[len(values) // 2]
            try:
                mb = ref_oer.encode(term, mid, unit.env, unit.tags, unit.ext_implied).hex()[:80]
            except ref_oer.RefError as e:
                mb = 'model rejects: %s' % e
            res.samples.append({'type': render_type(term, unit.env)[:200], 'env': [unit.tags, unit.ext_implied],
                                'value': valrepr(mid)[:120], 'model_octets': mb})
        for numeric in ((False, True) if enum else (False,)):
            c = compiled[(numeric, CODEC)][i]
            if isinstance(c, BaseException):
                res.count('types_rejected_by_compiler')
                res.outcome('compile-rejected:%s' % errclass(c)[:50])
                continue
            spec, tname = c
            ct = spec.types[tname]
            shape = _tshape(term, lab, unit.env)
            for v in values:
                r = check_value(ct, term, unit.env, unit.tags, unit.ext_implied, v, numeric, res)
                if r is not None:
                    kind, detail, enc = r
                    layer = lab.split(':')[0]
                    sig = '|'.join([kind, 'ne' if numeric else '', _cause(kind, detail), layer, shape])
                    res.outcome(kind)
                    res.count('deviating_cases')
                    size = len(render_type(term, unit.env)) + len(valrepr(v))
                    old = best.get(sig)
                    if old is not None and old[0] <= size:
                        old[2] += 1
                        continue
                    best[sig] = [size, (kind, detail, enc, numeric, name, term, v, layer), 1 + (old[2] if old else 0)]
    # one record (the smallest case) per root-cause signature and unit; the others are counted
    for sig in sorted(best):
        size, (kind, detail, enc, numeric, name, term, v, layer), n = best[sig]
        res.failures.append(new_failure(
            ID, kind, sig, codec=CODEC, numeric=numeric, detail=detail, rule=_rule_of(detail),
            encoded=enc.hex()[:400] if enc is not None else None, size=size, layer=layer, cases_in_unit=n,
            **case_fields(unit, name, term, v)))
    return res


def coverage(stats, tier):
    ev = stats.get('evaluations', 0)
    ledger = {}
    ledger_detail = {}
    for rule, (status, text) in sorted(ref_oer.LEDGER.items()):
        ledger[rule] = status
        ledger_detail[rule] = {'status': status, 'rule': text, 'exercised': stats.get('rule:' + rule, 0)}
    return {
        'states': stats.get('types', 0) + stats.get('values', 0),
        'transitions': stats.get('transitions', 0),
        'traces_validated_against_impl': ev,
        'evaluations': ev,
        'distinct_nontrivial': ev,
        'rule': 'every (environment, type term, boundary value, numeric_enums) tuple is enumerated once; a case is '
                'non-trivial when the value passed the library\'s own checks, the model encoded it, and the '
                'implementation\'s encoder output and its decoding of the model\'s octets were both compared with '
                'the model; states = type terms + values enumerated, transitions = implementation encode / decode '
                'calls and model acceptance-decodes of implementation output',
        'exhaustive': True,
        'ledger': ledger,
        'ledger_detail': ledger_detail,
        'encodings_byte_identical': stats.get('encodings_byte_identical', 0),
        'encodings_admissible_not_canonical': stats.get('encodings_admissible_not_canonical', 0),
        'deviating_cases': stats.get('deviating_cases', 0),
        'model_vectors': _selftest_count(),
    }


def _selftest_count():
    try:
        return ref_oer.selftest()
    except Exception as e:           # reported, and fails closed through ./check --selftest
        return 'FAILED: %r' % (e,)


# ---------------------------------------------------------------------------
# shrinking / replay

def run_case(failure, unit, name, term, v):
    res = Result()
    try:
        spec = impl.compile_parsed(unit.spec, [CODEC], failure['numeric'])[CODEC]
    except Exception:
        return None
    try:
        return check_value(spec.types[name], term, unit.env, unit.tags, unit.ext_implied, v, failure['numeric'], res)
    except AssertionError:
        return None


def shrink(failure):
    # greedy on the failure kind only: the root-cause signature already separated the groups, and a
    # projection onto the deviating component legitimately changes the point of divergence
    out = shrinker.shrink_failure(failure, run_case)
    out['rule'] = _rule_of(out['detail'])
    return out


def replay(case):
    unit, name, term, v = rebuild_case(case)
    r = run_case(case, unit, name, term, v)
    if r is None:
        return None
    return {'kind': r[0], 'detail': r[1], 'encoded': r[2].hex() if r[2] is not None else None}
