"""C19 Encodings do not depend on how the specification text is organised.

Explicit-state BFS over the ARRANGEMENTS of one specification (mc/arrange.py):
swap two assignments, swap two modules, move a definition to another module of
the same tagging environment and import it, inline one reference, extract one
inline sub-type, fold an inline sub-type into an existing equal definition.
Every transition preserves the meaning of every named type by construction.

Oracle (differential, no expected values): on every edge a -> b of the explored
arrangement graph the behaviour signature of every start type over all 8 codecs
(x numeric_enums when an ENUMERATED is involved) is the same in a and in b.
swap / swapmod / move compare everything exactly.  inline / extract / fold
compare everything exactly except XER bytes, where element names that are type
names (upper-case initial: SEQUENCE OF items are named after the element's type,
X.693) are replaced by a placeholder first.  GSER prints only the top-level type
name, which no transition changes.
"""

import re
import pickle
import base64
from dataclasses import dataclass, field

from .. import impl, space, budget, alphabet as A
from ..runner import Result, new_failure
from ..terms import (Leaf, Rng, Seq, Cho, Of, Ref, Tag, M, Grp, render_type, has_kind)
from ..tagging import legalize
from ..casefmt import valrepr, parse_value, referenced, errclass
from .. import behave, hist, arrange
from ..arrange import Arr, Mod

ID = 'C19'
LEVEL = 'model_checking'
CODECS = impl.ALL_CODECS
EXACT_OPS = ('swap', 'swapmod', 'move')
ASSUMPTIONS = [
    'Arrangement texts are parsed with one grammar object per worker process (what parse_string builds on every '
    'call) to avoid 0.2 s of grammar construction per arrangement; the start arrangement and every 16th arrangement '
    'of each start are also parsed with the literal asn1tools.parse_string and the dictionaries compared, and every '
    'divergence is re-established with literal asn1tools.compile_string calls on both texts before it is reported.',
    'Each codec is compiled from an unpickled copy of the one parsed dictionary of the arrangement.',
    'Behaviour is observed on <= 8 boundary values per start type (mc.values.dom over the start arrangement) and on '
    'the decode of the encoder\'s own output.',
    'Under inline/extract/fold, XER bytes are compared after replacing upper-case-initial element names by a '
    'placeholder (the built-in naming exception) and dropping such an element\'s own tags when it has element '
    'content (unasserted: asn1tools wraps a SEQUENCE OF item whose type is a *reference* to a CHOICE in an element '
    'named after the reference and does not wrap an inline CHOICE; which one X.693 requires was not established); '
    'decoded values, errors and all other codecs are compared exactly.',
    'All modules of an arrangement share one tag default and EXTENSIBILITY IMPLIED setting; IMPORTS are derived from '
    'the placement; at most 3 modules; type names are unique across modules.',
    'Starts with `[n] IMPLICIT` written on a CHOICE (illegal ASN.1, present in the L2 alphabet) are left out.',
    'Arrangements whose module is rejected by the compiler for every codec in both a and b compare equal whatever '
    'the message.',
]

R = Rng
B = Leaf('BOOLEAN')
NULL = Leaf('NULL')
I3 = Leaf('INTEGER', rng=R(0, 7))
U8 = Leaf('INTEGER', rng=R(0, 255))


@dataclass
class Start:
    label: str
    arr: object
    tops: list                 # type names compared
    depth: int
    cap: int                   # max arrangements evaluated for this start
    layer: str = 'fam'
    extra: dict = field(default_factory=dict)


# ---------------------------------------------------------------------------
# start states

def own_families():
    """Families aimed at the anchors of C19: the compiled-type cache key (module,
    type, member name), copy-on-attribute in compile_member, DEFAULT conversion by
    syntactic type, tags on references to CHOICE, nested automatic tagging."""
    en = Leaf('ENUMERATED', enum=(('a', None), ('b', None), ('c', None)))
    bits = Leaf('BITSTRING', named=(('a', 0), ('b', 1), ('c', 5)))
    nint = Leaf('INTEGER', named=(('one', 1), ('two', 2)))
    cc = Cho((M('a', B), M('b', I3)))
    fams = []
    fams.append(('same-member-two-parents',
                 {'Iu': U8,
                  'Pa': Seq((M('x', Ref('Iu'), 'D', default=7), M('y', B))),
                  'Pb': Seq((M('x', Ref('Iu')), M('y', B))),
                  'Pc': Seq((M('x', Ref('Iu'), 'D', default=9),)),
                  'Pd': Seq((M('x', Ref('Iu'), 'O'), M('s', Of(Ref('Iu'), size=R(0, 2)))))},
                 ['Pa', 'Pb', 'Pc', 'Pd']))
    fams.append(('same-member-tags',
                 {'Iu': U8,
                  'Pe': Seq((M('x', Tag(3, Ref('Iu'))), M('y', Tag(4, Ref('Iu')), 'O'))),
                  'Pf': Cho((M('x', Tag(1, Ref('Iu'))), M('y', Tag(2, B)))),
                  'Pg': Seq((M('x', Ref('Iu')), M('z', NULL)), is_set=True)},
                 ['Pe', 'Pf', 'Pg']))
    fams.append(('default-boolean-by-ref',
                 {'Bt': B, 'Sb': Seq((M('x', Ref('Bt'), 'D', default=True), M('y', B, 'D', default=False), M('z', U8)))},
                 ['Sb']))
    fams.append(('default-oid-by-ref',
                 {'Ot': Leaf('OID'), 'So': Seq((M('x', Ref('Ot'), 'D', default='1.2.3'), M('y', B)))}, ['So']))
    fams.append(('default-named-number-by-ref',
                 {'Nt': nint, 'Sn': Seq((M('x', Ref('Nt'), 'D', default=2, default_txt='two'), M('y', B)))}, ['Sn']))
    fams.append(('defaults-by-ref',
                 {'En': en, 'Bs': bits, 'Os': Leaf('OCTETSTRING', size=R(0, 3)), 'Is': I3,
                  'Ia': Leaf('IA5String', size=R(0, 2)),
                  'Sd': Seq((M('e', Ref('En'), 'D', default='b'), M('f', Ref('Bs'), 'D', default=(b'\x80', 1)),
                             M('g', Ref('Os'), 'D', default=b'\x01\x02'), M('h', Ref('Is'), 'D', default=3),
                             M('i', Ref('Ia'), 'D', default='ab'), M('l', Of(Ref('En'), size=R(0, 2)))))},
                 ['Sd']))
    fams.append(('choice-under-tags',
                 {'Cc': cc,
                  'Sc': Seq((M('x', Tag(0, Ref('Cc'))), M('y', Tag(1, Ref('Cc')), 'O'), M('z', Tag(2, Of(Ref('Cc'), size=R(0, 2)))))),
                  'Tc': Cho((M('p', Tag(0, Ref('Cc'))), M('q', Tag(1, B))))},
                 ['Sc', 'Tc']))
    # a tag on a reference to an ALIAS of a CHOICE: the forced EXPLICIT tagging has to follow the alias through
    # every module it passes (three definitions: two moves put each in a module of its own)
    fams.append(('choice-alias-under-tags',
                 {'Cc': cc, 'Ca': Ref('Cc'),
                  'Sa': Seq((M('x', Tag(0, Ref('Ca'))), M('y', B)))},
                 ['Sa']))
    fams.append(('nested-constructors',
                 {'Lf': Seq((M('c', I3), M('d', B)), is_set=True),
                  'In': Seq((M('a', B), M('b', Ref('Lf'), 'O')), ext=True, adds=(M('e', U8, 'O'),)),
                  'Ou': Seq((M('i', Ref('In')), M('j', Ref('Lf')), M('k', Cho((M('l', Ref('In')), M('m', NULL))))))},
                 ['In', 'Ou']))
    return fams


def _fam_starts(envs, depth, cap, fams):
    out = []
    for tags, ei in envs:
        for lab, types, tops in fams:
            types = {n: legalize(t, types, tags) for n, t in types.items()}
            if any(arrange.implicit_on_choice(t, types) for t in types.values()):
                continue
            arr = Arr((Mod('M0', tuple(types.items())),), tags, ei)
            out.append(Start('fam/%s/%s%s' % (lab, tags, '+EI' if ei else ''), arr, list(tops), depth, cap, 'fam'))
    return out


def _term_starts(layer, terms, envs, depth, cap):
    out = []
    for tags, ei in envs:
        for i, t in enumerate(terms):
            t = legalize(t, A.REF_ENV, tags)
            if arrange.implicit_on_choice(t, A.REF_ENV):
                continue
            helpers = referenced(t, A.REF_ENV)
            types = arrange.extracted_form(t, helpers)
            if len(types) < 2:
                continue                      # nothing is named: no arrangement besides itself
            arr = Arr((Mod('M0', tuple(types)),), tags, ei)
            out.append(Start('%s/%s%s/%d' % (layer, tags, '+EI' if ei else '', i), arr, ['T0'], depth, cap, layer))
    return out


_KEEP_SIZES = (None, '0..3', '1..2, ...')


def _l1_single(thorough):
    """L1 over one member position: every Sigma_r letter x qualifier x extension
    shape for SEQUENCE (thorough: and SET), every CHOICE shape, SEQUENCE OF
    (thorough: and SET OF) over every letter with three SIZE shapes."""
    out = []
    for t in A.l1_terms(1, 1):
        if isinstance(t, Of):
            if (None if t.size is None else t.size.text()) not in _KEEP_SIZES:
                continue
            if t.is_set and not thorough:
                continue
        if isinstance(t, Seq) and t.is_set and not thorough:
            continue
        out.append(t)
    return out


def units(tier):
    fams = A.families() + own_families()
    if tier == 'thorough':
        out = _fam_starts(space.ENVS_ALL, 3, 300, fams)
        out += _term_starts('L1', _l1_single(True), (('EXPLICIT', False), ('IMPLICIT', False), ('AUTOMATIC', False)), 2, 150)
        out += _term_starts('L1', _l1_single(False), (('AUTOMATIC', True),), 2, 150)
        out += _term_starts('L2', A.l2_terms(False), space.ENVS_QUICK, 2, 100)
    else:
        out = _fam_starts(space.ENVS_QUICK, 2, 80, fams)
        out += _term_starts('L1', _l1_single(False), space.ENVS_QUICK, 2, 150)
    return out


def bounds(tier):
    if tier == 'thorough':
        return {'tier': tier, 'starts': 'families (7 shared + 8 own) x 5 environments: depth 3, cap 300 arrangements '
                'per start; L1(W1,K1; 3 SIZE shapes) x {EXPLICIT, IMPLICIT, AUTOMATIC}, the SEQUENCE/CHOICE/SEQUENCE OF '
                'part x {AUTOMATIC+EI}: depth 2, cap 150; L2 pairs x {EXPLICIT, AUTOMATIC}: depth 2, cap 100; all in '
                'extracted form', 'max_modules': arrange.MAX_MODULES, 'values_per_type': 8, 'codecs': list(CODECS)}
    return {'tier': tier, 'starts': 'families (7 shared + 8 own) x {EXPLICIT, AUTOMATIC}: depth 2, cap 80 '
            'arrangements per start; L1(W1,K1) SEQUENCE / CHOICE / SEQUENCE OF part x {EXPLICIT, AUTOMATIC} in '
            'extracted form: depth 2, cap 150', 'max_modules': arrange.MAX_MODULES, 'values_per_type': 8,
            'codecs': list(CODECS)}


# ---------------------------------------------------------------------------
# evaluating one arrangement

_grammar = [None]


def fast_parse(text):
    """parse_string with the grammar object kept between calls."""
    from asn1tools import parser
    if _grammar[0] is None:
        _grammar[0] = parser.create_grammar()
    try:
        return _grammar[0].parseString(parser.ignore_comments(text)).asList()[0]
    except Exception:
        return impl.asn1tools.parse_string(text)        # the literal call produces the real error


def compile_one(d, codec, ne):
    try:
        spec, _ = budget.run(behave.COMPILE_BUDGET, impl.asn1tools.compile_dict, d, codec, None, ne)
        return spec
    except budget.BudgetExceeded:
        return RuntimeError('BudgetExceeded in compile_dict')
    except Exception as e:
        return e


_xer_names = re.compile(rb'<(/?)[A-Z][A-Za-z0-9_-]*')
_xer_open_wrapper = re.compile(rb'<_>(?=<)')
_xer_close_wrapper = re.compile(rb'(?<=>)</_>')


def normalise_xer(enc):
    """Element names that are type names (upper-case initial) become `_`; then a
    `_` element that has element content loses its own start and end tag.  The
    second step makes `<RT><leaf>1</leaf></RT>` (list item whose type is a reference
    to a CHOICE) equal to `<leaf>1</leaf>` (the same CHOICE written inline): which
    of the two X.693 asks for could not be established here, so it is not asserted."""
    enc = _xer_names.sub(rb'<\1_', enc)
    enc = _xer_open_wrapper.sub(b'', enc)
    return _xer_close_wrapper.sub(b'', enc)


def normalise(codec, sig):
    if codec != 'xer' or behave.is_compile_error(sig):
        return sig
    out = []
    for t in sig:
        if t == ('missing',):
            out.append(t)
            continue
        out.append(tuple((e[0], e[1], normalise_xer(e[2]) if isinstance(e[2], bytes) else e[2], e[3])
                         for e in t))
    return tuple(out)


def evaluate(text, tops, nes, literal=False):
    """{(codec, ne): signature} of one arrangement text."""
    try:
        d = impl.asn1tools.parse_string(text) if literal else fast_parse(text)
    except Exception as e:
        s = ('COMPILE PARSE ' + behave.err(e),)
        return {(c, ne): s for ne in nes for c in CODECS}
    blob = pickle.dumps(d, 4)
    out = {}
    for ne in nes:
        for c in CODECS:
            out[(c, ne)] = behave.signature(compile_one(pickle.loads(blob), c, ne), tops, ne)
    return out


is_compile_error = behave.is_compile_error


def compare(op, sa, sb, tops):
    """Differences between the signatures of a and b on edge `op`: [(codec, ne, diff)]."""
    out = []
    for key in sa:
        a, b = sa[key], sb[key]
        if a == b:
            continue
        if is_compile_error(a) and is_compile_error(b):
            continue
        if op['op'] not in EXACT_OPS:
            a, b = normalise(key[0], a), normalise(key[0], b)
            if a == b:
                continue
        out.append((key[0], key[1], behave.pick_diff(a, b, tops)))
    return out


def op_text(op):
    o = op['op']
    if o == 'swap':
        return 'swap assignments %s and %s in module %s' % (op['a'], op['b'], op['module'])
    if o == 'swapmod':
        return 'swap modules %s and %s' % (op['a'], op['b'])
    if o == 'move':
        return 'move %s from module %s to module %s and import it' % (op['type'], op['from'], op['to'])
    if o == 'inline':
        return 'inline the reference to %s at %s in %s' % (op['ref'], op['path'], op['in'])
    if o == 'extract':
        return 'extract the sub-type at %s in %s into new type %s' % (op['path'], op['in'], op['ref'])
    return 'replace the sub-type at %s in %s by a reference to the equal definition %s' % (op['path'], op['in'], op['ref'])


def op_class(op):
    if op['op'] in ('inline', 'extract', 'fold'):
        c = op['ctx']
        return '%s:%s:%s:%s%s' % (op['op'], c['position'], c['shape'], c['q'] or '-', ':tagged-def' if c['definition_tagged'] else '')
    if op['op'] == 'move':
        return 'move:' + op['shape']
    return op['op']


def _has_enum(t, env):
    return has_kind(t, env, lambda s: isinstance(s, Leaf) and s.kind == 'ENUMERATED')


def work(start):
    res = Result()
    res.count('starts')
    arr0 = start.arr
    env0 = arrange.env_of(arr0)
    tops = [(n, env0[n], env0, behave.small_dom(env0[n], env0)) for n in start.tops]
    nes = (False, True) if any(_has_enum(env0[n], env0) for n in start.tops) else (False,)
    res.count('types', len(tops))
    res.count('values', sum(len(t[3]) for t in tops))
    sigs = {}
    order = []

    def sig_of(arr):
        key = arrange.render(arr)
        if key not in sigs:
            sigs[key] = evaluate(key, tops, nes)
            order.append(key)
            res.count('arrangements')
            res.count('signatures', len(sigs[key]))
            if all(is_compile_error(s) for s in sigs[key].values()):
                res.count('arrangements_rejected_for_every_codec')
                res.outcome('rejected:' + str(next(iter(sigs[key].values()))[0])[:80])
            if (len(order) - 1) % 16 == 0:
                # binding of the fast path to the literal parse
                try:
                    same = hist.canon(impl.asn1tools.parse_string(key)) == hist.canon(fast_parse(key))
                except Exception:
                    same = True        # both raise (evaluate used the literal error already)
                res.count('fastpath_bindings')
                if not same:
                    res.failures.append(new_failure(ID, 'fastpath-unfaithful', 'fastpath-unfaithful', spec_a=key,
                                                    label=start.label, size=len(key)))
        return key, sigs[key]

    k0, _ = sig_of(arr0)
    seen = {k0}
    frontier = [(arr0, 0)]
    cap_hit = False
    maxdepth = 0
    seen_fail = set()
    edges = 0
    while frontier:
        arr, depth = frontier.pop(0)
        if depth >= start.depth:
            continue
        ka, sa = sig_of(arr)
        for op, arr2 in arrange.transitions(arr):
            kb = arrange.render(arr2)
            if kb not in sigs and len(sigs) >= start.cap:
                cap_hit = True
                continue
            kb, sb = sig_of(arr2)
            edges += 1
            res.count('transitions')
            res.count('op:' + op['op'])
            if kb not in seen:
                seen.add(kb)
                maxdepth = max(maxdepth, depth + 1)
                frontier.append((arr2, depth + 1))
            diffs = compare(op, sa, sb, tops)
            res.count('signatures_compared', len(sa))
            if not diffs:
                continue
            res.outcome('divergence:' + op['op'])
            codec, ne, d = diffs[0]
            fsig = '|'.join(['arrangement-divergence', op_class(op), behave.diffclass(d), start.layer])
            if fsig in seen_fail:
                res.count('failures_folded_in_start')
                continue
            seen_fail.add(fsig)
            res.failures.append(make_failure(start, tops, op, ka, kb, diffs, fsig, arr, arr2))
    res.count('cap_hit' if cap_hit else 'component_explored_to_depth')
    res.count('evaluations', edges)
    res.outcome('arrangements-per-start:%s' % ('<=10' if len(sigs) <= 10 else '<=100' if len(sigs) <= 100
                                               else '<=1000' if len(sigs) <= 1000 else '>1000'))
    if len(res.samples) < 1:
        res.samples.append({'start': start.label, 'arrangements': len(sigs), 'edges': edges, 'depth': maxdepth,
                            'cap_hit': cap_hit, 'text': k0[:300]})
    return res


def make_failure(start, tops, op, ka, kb, diffs, fsig, arr_a, arr_b):
    codec, ne, d = diffs[0]
    ti = [t[0] for t in tops].index(d['type']) if d.get('type') else 0
    name, term, env, vals = tops[ti]
    v = vals[d['index']] if d.get('index') is not None and vals else (vals[0] if vals else None)
    return new_failure(
        ID, 'arrangement-divergence', fsig, codec=codec, numeric=ne, codecs=sorted({c for c, _, _ in diffs}),
        op=op, step=op_text(op), steps_key=op_class(op), spec_a=ka, spec_b=kb, type=name,
        term=render_type(term, env), value=valrepr(v), diff=d, label=start.label, layer=start.layer,
        tags=start.arr.tags, ext_implied=start.arr.ei,
        detail='%s: in a %s, in b %s' % (d['field'], d['expected'][:200], d['observed'][:200]),
        size=len(ka) + len(kb) + len(valrepr(v)),
        blob=base64.b64encode(pickle.dumps((term, env, v, arr_a, arr_b))).decode())


def coverage(stats, tier):
    return {
        'states': stats.get('arrangements', 0),
        'transitions': stats.get('transitions', 0),
        'traces_validated_against_impl': stats.get('signatures_compared', 0),
        'evaluations': stats.get('transitions', 0),
        'distinct_nontrivial': stats.get('arrangements', 0) - stats.get('arrangements_rejected_for_every_codec', 0),
        'starts': stats.get('starts', 0),
        'starts_explored_to_depth_bound': stats.get('component_explored_to_depth', 0),
        'starts_where_arrangement_cap_was_hit': stats.get('cap_hit', 0),
        'transitions_by_kind': {k[3:]: v for k, v in sorted(stats.items()) if k.startswith('op:')},
        'rule': 'states = distinct arrangement texts evaluated (parse + 8 or 16 compiles + behaviour signature over '
                'the start types); transitions = edges of the arrangement graph applied (BFS from each start to the '
                'depth bound or the arrangement cap, whichever comes first); traces_validated = per edge, one '
                'signature comparison per (codec, numeric_enums); an arrangement is non-trivial when at least one '
                'codec compiled it',
        'exhaustive': True,
    }


# ---------------------------------------------------------------------------
# confirming / replaying one edge with the literal public API

def run_edge(case):
    """Re-establish a divergence with literal compile_string calls on both texts.
    Returns None | dict(kind, detail)."""
    term, env, v = pickle.loads(base64.b64decode(case['blob']))[:3]
    tops = [(case['type'], term, env, [v])]
    codec, ne = case['codec'], case['numeric']
    sigs = []
    for text in (case['spec_a'], case['spec_b']):
        try:
            spec = impl.asn1tools.compile_string(text, codec, None, ne)
        except Exception as e:
            spec = e
        s = behave.signature(spec, tops, ne)
        if isinstance(spec, BaseException):
            s = ('COMPILE ' + behave.err(spec),)
        sigs.append(s)
    a, b = sigs
    if a == b or (is_compile_error(a) and is_compile_error(b)):
        return None
    if case['op']['op'] not in EXACT_OPS:
        a, b = normalise(codec, a), normalise(codec, b)
        if a == b:
            return None
    d = behave.pick_diff(a, b, tops)
    return {'kind': 'arrangement-divergence', 'diff': d,
            'detail': '%s: in a %s, in b %s' % (d['field'], d['expected'][:200], d['observed'][:200])}


def shrink(failure):
    """An edge is already a one-step counterexample; the representative of a group
    is the smallest (texts + value).  Here it is re-established with the literal
    API and the live objects the predicates need are attached."""
    if failure['kind'] != 'arrangement-divergence':
        return failure
    out = dict(failure)
    r = run_edge(failure)
    if r is None:
        out['kind'] = 'fastpath-unfaithful'
        out['detail'] = 'not reproduced with literal compile_string calls: ' + failure['detail']
        return out
    out['diff'], out['detail'] = r['diff'], r['detail']
    term, env, v, arr_a, arr_b = pickle.loads(base64.b64decode(failure['blob']))
    out['_term'], out['_env'], out['_value'] = term, env, v
    out['_arr_a'], out['_arr_b'] = arr_a, arr_b
    return out


def replay(case):
    if case['kind'] != 'arrangement-divergence':
        return None
    r = run_edge(case)
    if r is None:
        return None
    return {'kind': r['kind'], 'detail': r['detail'], 'step': case.get('step')}
