"""C13 Compiling is independent of what was compiled before from the same dictionary.

Explicit-state BFS over operation histories on the *real* parsed dictionary of
each module of a family (DESIGN 2 C13, Appendix B, E.4).

Operations: compile_dict(d, codec, None, numeric_enums) for 8 codecs x {F, T};
d := the object a `.py` specification file holds (`SPECIFICATION = pformat(d)`
executed as Python source, exactly what `asn1tools parse` writes and
`_import_module` loads); d := copy.deepcopy(d).

Invariant on EVERY transition that returns a Specification: its behaviour
signature (type-check verdict, constraint-check verdict, encoded bytes or error
text, decoded value of those bytes or error text, for every top-level type and
every value of a small boundary domain) equals the signature of a compile of a
fresh parse of the original text with the same codec and numeric_enums.  The
BFS runs to the fixpoint of the dictionary-state space (depth cap 6).
"""

import copy
import pickle
import pprint

from .. import impl, space, budget, alphabet as A
from ..runner import Result, new_failure
from ..terms import Leaf, Seq, Ref, Tag, render_type, resolve, all_members, has_kind, subterms
from ..casefmt import valrepr, parse_value, case_fields, rebuild_case, errclass
from .. import shrink as shrinker
from .. import behave, hist
from ..c13_modules import hand_units

ID = 'C13'
LEVEL = 'model_checking'
CODECS = impl.ALL_CODECS
MAX_DEPTH = 6
OPS = ([('compile', c, ne) for ne in (False, True) for c in CODECS] + [('pformat',), ('deepcopy',)])
ASSUMPTIONS = [
    'The fresh reference compile_string(text, c, None, ne) is computed as compile_dict(unpickled copy of one '
    'parse_string(text), c, None, ne); per module the check asserts that a second parse_string(text) yields a '
    'dictionary with the same canonical form and that a literal compile_string(text, ...) has the same signature '
    '(parse determinism is what allows parsing once instead of 16 times).',
    'States are identified by an order- and aliasing-aware serialisation of the dictionary, which is finer than '
    '"repr with keys sorted"; the coarser count is reported too.  Every transition is executed by replaying the '
    'history that first reached the state (breadth-first, so a shortest one) plus the operation on ONE dictionary '
    'object, so state the library keeps about the object (identity-keyed memo, module-level slot) is carried '
    'through the history as it is for a caller; other histories reaching the same dictionary state are not '
    'replayed.',
    'Behaviour is observed on a small boundary domain per type (<= 8 values from mc.values.dom, base value first) '
    'and on the decode of the bytes the encoder produced; other byte strings are not decoded.',
    'L1 modules hold 12 top-level types over the reduced member alphabet Sigma_r; hand-written modules carry '
    'equivalent terms that are used only to generate values.',
    'any_defined_by_choices is always None.',
    'When both the fresh compile and the history compile raise, the error texts are not compared (unasserted: '
    'the property is about resulting codec objects); success versus failure is a violation.',
    'Terms with a DEFAULT of an extensible ENUMERATED are placed in modules of their own (labels L1x/L0dx): '
    'compile_dict(numeric_enums=True) raises TypeError for them even on a fresh parse, which is not a C13 matter.',
]

TYPES_PER_MODULE = 12


def bounds(tier):
    return {'tier': tier, 'max_depth': MAX_DEPTH, 'operations': len(OPS),
            'family': ('L1(W2,K1) x {EXPLICIT, AUTOMATIC}, leaf DEFAULT contexts (all leaves) x {EXPLICIT, AUTOMATIC}, '
                       'reference/recursive families, 12 hand-written modules (COMPONENTS OF, DEFAULT notations, nested AUTOMATIC '
                       'tags with and without EXTENSIBILITY IMPLIED, IMPORTS between an AUTOMATIC and an IMPLICIT module in '
                       'both input orders, a parameterised type, extensible ENUMERATED defaults, order-sensitive sharing)')
            if tier == 'quick' else
            ('L1(W2,K2) x {EXPLICIT, AUTOMATIC} + L1(W2,K1) x {IMPLICIT, EXPLICIT+EI, AUTOMATIC+EI}, leaf DEFAULT '
             'contexts x 5 environments, L2 pairs x {EXPLICIT, AUTOMATIC}, families x 5 environments, '
             '15 hand-written modules'),
            'types_per_module': TYPES_PER_MODULE, 'values_per_type': 8}


def _chunks(items, n):
    for i in range(0, len(items), n):
        yield items[i:i + n]


def ext_enum_default(t):
    """The term has a DEFAULT component whose type is an extensible ENUMERATED.
    compile_dict(..., numeric_enums=True) raises TypeError for such a module all by
    itself (fresh parse included), so these terms get modules of their own: they
    are explored, but do not turn the numeric_enums=True transitions of their
    neighbours into compile errors."""
    for s in subterms(t):
        if isinstance(s, Seq):
            for m in all_members(s):
                if m.q == 'D':
                    r = m.t
                    while isinstance(r, Tag):
                        r = r.inner
                    if isinstance(r, Ref):
                        r = A.REF_ENV.get(r.name)
                    if isinstance(r, Leaf) and r.kind == 'ENUMERATED' and r.enum_adds is not None:
                        return True
    return False


def _term_units(label, terms, envs, lab):
    out = []
    plain = [t for t in terms if not ext_enum_default(t)]
    apart = [t for t in terms if ext_enum_default(t)]
    for tags, ei in envs:
        for part, sub in (('', plain), ('x', apart)):
            for bi, chunk in enumerate(_chunks(sub, TYPES_PER_MODULE)):
                out.append(space.make_unit('%s%s/%s%s/%d' % (label, part, tags, '+EI' if ei else '', bi),
                                           [(t, lab) for t in chunk], helpers=A.REF_ENV, tags=tags, ext_implied=ei))
    return out


def units(tier):
    thorough = tier == 'thorough'
    out = list(hand_units(tier))
    out += list(space.family_units(envs=space.ENVS_ALL if thorough else space.ENVS_QUICK))
    # every leaf shape that has value notation, as a DEFAULT component
    defs = []
    for l in A.sigma_leaf(thorough):
        d = space.default_for(l)
        if d is not None:
            defs.append(dict(A.contexts(l, d))['seq-def'])
    out += _term_units('L0d', defs, space.ENVS_ALL if thorough else space.ENVS_QUICK, 'L0d')
    if thorough:
        out += _term_units('L1', A.l1_terms(2, 2), space.ENVS_QUICK, 'L1')
        out += _term_units('L1', A.l1_terms(2, 1), (('IMPLICIT', False), ('EXPLICIT', True), ('AUTOMATIC', True)), 'L1')
        out += _term_units('L2', A.l2_terms(False), space.ENVS_QUICK, 'L2')
    else:
        out += _term_units('L1', A.l1_terms(2, 1), space.ENVS_QUICK, 'L1')
    return out


# ---------------------------------------------------------------------------
# operations on the real dictionary

def apply_op(op, d):
    """-> (d', result).  result: Specification | exception for compile steps,
    None | exception for the two copy steps."""
    if op[0] == 'compile':
        try:
            spec, _ = budget.run(behave.COMPILE_BUDGET, impl.asn1tools.compile_dict, d, op[1], None, op[2])
        except budget.BudgetExceeded as e:
            spec = RuntimeError('BudgetExceeded in compile_dict')
        except Exception as e:
            spec = e
        return d, spec
    if op[0] == 'pformat':
        try:
            ns = {}
            exec('SPECIFICATION = {}'.format(pprint.pformat(d)), ns)
            return ns['SPECIFICATION'], None
        except Exception as e:
            return d, e
    if op[0] == 'deepcopy':
        return copy.deepcopy(d), None
    raise ValueError(op)


def op_text(op):
    if op[0] == 'compile':
        return 'compile_dict(d, %r, None, %r)' % (op[1], op[2])
    return {'pformat': 'd = eval(pformat(d))', 'deepcopy': 'd = deepcopy(d)'}[op[0]]


def shape(hist_ops):
    """History abstracted to what can matter for the root cause: the numeric_enums
    flag of each compile step and the copy steps, codecs dropped, repeats collapsed."""
    out = []
    for op in hist_ops:
        s = ('c+' if op[2] else 'c-') if op[0] == 'compile' else op[0][:2]
        if not out or out[-1] != s:
            out.append(s)
    return ' '.join(out)


is_compile_error = behave.is_compile_error


def same_behaviour(a, b):
    """Signature equality; two failed compiles are equal whatever their message
    (the property speaks of the resulting codec objects; with none on either
    side there is nothing to compare)."""
    return a == b or (is_compile_error(a) and is_compile_error(b))


def _tops(unit):
    return [(name, term, unit.env, behave.small_dom(term, unit.env)) for name, term, _ in unit.tops]


def _fresh_signature(blob, tops, codec, ne):
    _, spec = apply_op(('compile', codec, ne), pickle.loads(blob))
    return behave.signature(spec, tops, ne)


def work(unit):
    res = Result()
    res.count('modules')
    asn1tools = impl.asn1tools
    try:
        parsed = asn1tools.parse_string(unit.spec)
    except Exception as e:
        res.count('modules_rejected_by_parser')
        res.outcome('parse-rejected:' + errclass(e)[:60])
        return res
    blob = pickle.dumps(parsed, 4)
    tops = _tops(unit)
    res.count('types', len(tops))
    res.count('values', sum(len(t[3]) for t in tops))
    hand = bool(unit.extra.get('hand'))

    fresh = {}
    for op in OPS:
        if op[0] == 'compile':
            fresh[(op[1], op[2])] = _fresh_signature(blob, tops, op[1], op[2])
            res.count('fresh_compiles')
            res.outcome('fresh:' + ('compile-error' if len(fresh[(op[1], op[2])]) == 1 and
                                    str(fresh[(op[1], op[2])][0]).startswith('COMPILE') else 'compiled'))
    # binding of the shortcut "parse once" to the property's literal reference:
    # compile_string(text, c, adb, ne) is by definition compile_dict(parse_string(text), c, adb, ne)
    # (asn1tools/compiler.py), so a second parse + compile_dict *is* the literal call.
    try:
        again = asn1tools.parse_string(unit.spec)
        same_parse = hist.canon(again) == hist.canon(pickle.loads(blob))
        _, lit = apply_op(('compile', 'uper', True), again)
    except Exception as e:
        same_parse, lit = False, e
    if not same_parse or not same_behaviour(behave.signature(lit, tops, True), fresh[('uper', True)]):
        res.failures.append(new_failure(ID, 'fresh-reference-unstable', 'fresh-reference-unstable|' + unit.label,
                                        spec=unit.spec, label=unit.label, size=len(unit.spec)))
        return res
    res.count('signatures_compared')

    seen_sigs = set()

    def invariant(op, result, hist_ops):
        if op[0] != 'compile':
            if isinstance(result, BaseException):
                return {'kind': 'pformat-unreadable', 'diff': {'type': None, 'index': None, 'field': 'pformat',
                                                               'expected': 'readable python source',
                                                               'observed': behave.err(result)}}
            return None
        sig = behave.signature(result, tops, op[2])
        res.count('signatures_compared')
        ref = fresh[(op[1], op[2])]
        if same_behaviour(sig, ref):
            if sig != ref:
                res.outcome('compile-error-text-differs (no codec object on either side: not asserted)')
            return None
        return {'kind': 'history-divergence', 'diff': behave.pick_diff(ref, sig, tops)}

    ex = hist.explore(pickle.loads(blob), OPS, apply_op, invariant, MAX_DEPTH)
    res.count('states', ex.states)
    res.count('states_keys_sorted', ex.states_sorted)
    res.count('transitions', ex.transitions)
    res.count('history_steps_replayed_on_the_same_object', ex.replayed_steps)
    res.count('evaluations', ex.transitions)
    res.count('fixpoint_reached' if ex.fixpoint else 'depth_cap_hit')
    res.count('max_new_state_depth_%d' % ex.depth)
    res.outcome('states-per-module:%d' % ex.states)
    if len(res.samples) < 1:
        res.samples.append({'module': unit.label, 'types': len(tops), 'states': ex.states,
                            'transitions': ex.transitions, 'fixpoint': ex.fixpoint,
                            'first_type': render_type(tops[0][1], unit.env)[:120] if tops else None})
    for hist_ops, op, bad in ex.violations:
        res.outcome(bad['kind'])
        d = bad['diff']
        steps = [list(o) for o in hist_ops] + [list(op)]
        sig = '|'.join([bad['kind'], shape(hist_ops + (op,)), behave.diffclass(d),
                        unit.tops[0][2].split(':')[0] if not hand else unit.label])
        if sig in seen_sigs:
            res.count('failures_folded_in_module')
            continue
        seen_sigs.add(sig)
        f = new_failure(ID, bad['kind'], sig, codec=op[1] if op[0] == 'compile' else None,
                        numeric=op[2] if op[0] == 'compile' else None,
                        steps=steps, steps_key=shape(hist_ops + (op,)), diff=d, label=unit.label,
                        detail='%s: expected %s observed %s' % (d['field'], d['expected'][:200], d['observed'][:200]),
                        size=len(steps) * 1000 + (0 if hand else 500), hand=hand)
        ti = [n for n, _, _ in unit.tops].index(d['type']) if d.get('type') else 0
        name, term, _ = unit.tops[ti]
        vals = tops[ti][3]
        v = vals[d['index']] if d.get('index') is not None and vals else (vals[0] if vals else None)
        if hand:
            f.update({'spec': unit.spec, 'type': name, 'term': render_type(term, unit.env), 'value': valrepr(v),
                      'tags': unit.tags, 'ext_implied': unit.ext_implied,
                      'blob': _b64((unit.env, term, v))})
        else:
            f.update(case_fields(unit, name, term, v))
            f['spec'] = None
        res.failures.append(f)
    return res


def _b64(x):
    import base64
    return base64.b64encode(pickle.dumps(x)).decode()


def _unb64(s):
    import base64
    return pickle.loads(base64.b64decode(s))


def coverage(stats, tier):
    return {
        'states': stats.get('states', 0),
        'states_with_dict_keys_sorted': stats.get('states_keys_sorted', 0),
        'transitions': stats.get('transitions', 0),
        'traces_validated_against_impl': stats.get('signatures_compared', 0),
        'evaluations': stats.get('transitions', 0),
        'distinct_nontrivial': stats.get('signatures_compared', 0),
        'modules': stats.get('modules', 0),
        'modules_at_fixpoint': stats.get('fixpoint_reached', 0),
        'modules_depth_cap_hit': stats.get('depth_cap_hit', 0),
        'fixpoint': stats.get('depth_cap_hit', 0) == 0,
        'rule': 'per module: states = distinct dictionary states reached by BFS (identity = serialisation keeping '
                'key order and aliasing), transitions = operations applied (every one of the 18 operations to every '
                'state), traces_validated = behaviour signatures of returned Specifications compared with the fresh '
                'reference (one per compile transition, plus the binding comparison with a literal compile_string); '
                'a signature covers every top-level type x <= 8 values x {check_types, check_constraints, encode, '
                'decode}',
        'exhaustive': True,
    }


# ---------------------------------------------------------------------------
# replaying one case: (module text, steps, type, value)

def run_steps(text, steps, name, term, env, v):
    """Replay `steps` on a fresh parse of `text`; the last step must be a compile.
    Returns None when the entry of (name, v) equals the fresh reference, else
    (kind, detail, None, diff)."""
    asn1tools = impl.asn1tools
    d = asn1tools.parse_string(text)
    blob = pickle.dumps(d, 4)
    result = None
    for op in steps:
        d, result = apply_op(tuple(op), d)
        if tuple(op)[0] != 'compile' and isinstance(result, BaseException):
            return ('pformat-unreadable', behave.err(result), None,
                    {'field': 'pformat', 'expected': 'readable python source', 'observed': behave.err(result)})
    last = tuple(steps[-1])
    if last[0] != 'compile':
        return None
    tops = [(name, term, env, [v])]
    ref = _fresh_signature(blob, tops, last[1], last[2])
    sig = behave.signature(result, tops, last[2])
    if same_behaviour(sig, ref):
        return None
    d = behave.pick_diff(ref, sig, tops)
    return ('history-divergence', '%s: expected %s observed %s' % (d['field'], d['expected'][:200], d['observed'][:200]),
            None, d)


def _shrink_steps(steps, fails):
    """Greedy deletion of steps (the last step, the compile under test, stays),
    then replacement of codecs by 'ber' where the failure persists."""
    steps = [list(s) for s in steps]
    progress = True
    while progress:
        progress = False
        for i in range(len(steps) - 1):
            cand = steps[:i] + steps[i + 1:]
            if fails(cand):
                steps, progress = cand, True
                break
    for i in range(len(steps) - 1):
        if steps[i][0] == 'compile' and steps[i][1] != 'ber':
            cand = [list(s) for s in steps]
            cand[i][1] = 'ber'
            if fails(cand):
                steps = cand
    return steps


def shrink(failure):
    if failure['kind'] == 'fresh-reference-unstable':
        return failure
    kind = failure['kind']
    if failure.get('hand'):
        env, term, v = _unb64(failure['blob'])
        text, name = failure['spec'], failure['type']

        def fails(steps):
            try:
                r = run_steps(text, steps, name, term, env, v)
            except Exception:
                return False
            return r is not None and r[0] == kind
        out = dict(failure)
        out['steps'] = _shrink_steps(failure['steps'], fails)
        r = run_steps(text, out['steps'], name, term, env, v)
        if r is not None:
            out['detail'], out['diff'] = r[1], r[3]
        out['steps_key'] = shape([tuple(s) for s in out['steps']])
        out['history'] = [op_text(tuple(s)) for s in out['steps']]
        out['_term'], out['_value'], out['_env'] = term, v, env
        return out
    unit, name, term, v = rebuild_case(failure)

    def fails(steps):
        try:
            r = run_steps(unit.spec, steps, name, term, unit.env, v)
        except Exception:
            return False
        return r is not None and r[0] == kind
    f2 = dict(failure)
    if fails(failure['steps']):
        f2['steps'] = _shrink_steps(failure['steps'], fails)
    out = shrinker.shrink_failure(f2, run_case)
    u, n2, t2, v2 = rebuild_case(out)
    try:
        r = run_steps(u.spec, out['steps'], n2, t2, u.env, v2)
    except Exception:
        r = None
    if r is not None:
        out['detail'], out['diff'] = r[1], r[3]
    out['steps_key'] = shape([tuple(s) for s in out['steps']])
    out['history'] = [op_text(tuple(s)) for s in out['steps']]
    return out


def run_case(failure, unit, name, term, v):
    r = run_steps(unit.spec, failure['steps'], name, term, unit.env, v)
    return None if r is None else r[:3]


def replay(case):
    if case['kind'] == 'fresh-reference-unstable':
        a = impl.asn1tools.parse_string(case['spec'])
        b = impl.asn1tools.parse_string(case['spec'])
        return None if hist.canon(a) == hist.canon(b) else {'kind': case['kind']}
    if case.get('hand'):
        env, term, v = _unb64(case['blob'])
        r = run_steps(case['spec'], case['steps'], case['type'], term, env, v)
    else:
        unit, name, term, v = rebuild_case(case)
        r = run_steps(unit.spec, case['steps'], name, term, unit.env, v)
    if r is None:
        return None
    return {'kind': r[0], 'detail': r[1], 'history': [op_text(tuple(s)) for s in case['steps']]}
