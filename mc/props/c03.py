"""C03 DER output is the unique X.690 distinguished encoding.

Space: the standard program space (L0, L0c, L1, L2, families) plus the
tag-moving environment letters of this module (descending textual tag order in
SET, tag numbers >= 31, EXPLICIT around CHOICE, AUTOMATIC with one tagged
member, untagged CHOICE inside SET, tagged SEQUENCE OF / SET OF elements,
structured / referenced DEFAULT values) x boundary values x codec der x
numeric_enums (only for terms with ENUMERATED).

Oracle, per (type, value):
 (1) impl.encode(v) is byte-for-byte one of ref_der.encode_all(v) (one element
     unless the case touches an unasserted rule of the ledger);
 (2) mc.tlv re-reads the output: only definite minimal lengths, minimal
     identifier octets, every UNIVERSAL string / time node primitive, and
     serialise(parse(x)) == x;
 (3) asn1crypto's parser re-reads every node of the output and must see the
     same tree; primitive UNIVERSAL nodes it knows are loaded to native values,
     and for top-level leaf types the native value must be the encoded one;
 (4) abstractly equal inputs (permuted SET OF lists, explicit DEFAULT value vs
     absent component, garbage in the unused bits, extra trailing zero bits of a
     named-bit string) encode to the same bytes.
A disagreement in (1)/(4) is attributed by mc.der_dev: if the implementation's
bytes are reproduced exactly by the model under a set of known deviations the
failure is grouped under those deviations; everything else is `unexplained`.
"""

import datetime
import itertools

from .. import impl, space, budget, tlv, ref_der, der_dev
from ..runner import Result, new_failure
from ..terms import (Leaf, Seq, Cho, Of, Ref, Tag, M, Grp, Rng, STRING_KINDS, has_kind, render_type,
                     all_members)
from ..values import dom, to_numeric
from .. import absval
from ..casefmt import vclass, errclass, valrepr, case_fields, rebuild_case
from .. import shrink as shrinker

ID = 'C03'
LEVEL = 'model_checking'
CODEC = 'der'
ASSUMPTIONS = [
    'Inside constructors (L1/L2) members are drawn from the 12-letter reduced alphabet Sigma_r; the full leaf '
    'alphabet is tied to containers by the L0c context layer; this module adds the tag-moving letters '
    '(X:* families) under EXPLICIT, IMPLICIT and AUTOMATIC TAGS.',
    'Value domains are boundary sets (DESIGN 1.3), products are deviation-bounded (k<=2).',
    '-0.0 and NaN are not in the REAL domain; GeneralString / GraphicString / TeletexString / ObjectDescriptor '
    'values are ASCII only (escape sequences are unasserted).',
    'Unasserted rules (both behaviours accepted): position of an untagged CHOICE with several possible tags '
    'inside a SET (X.690 1997 vs 2002 text of 10.3); AUTOMATIC tag numbering when root components follow the '
    'second extension marker.',
    'Programs the model finds illegal (IMPLICIT written on an untagged CHOICE, tag collisions in SET / CHOICE) '
    'are skipped and counted (stats.illegal_programs): no distinguished encoding is defined for them.',
    'A value the library\'s own check_types / check_constraints reject, or on which encode raises, is not a C03 '
    'case (C01 owns "valid values encode"); they are counted under stats / distinct_outcomes.',
    'asn1crypto is used as a BER reader (it does not enforce DER); native-value comparison is limited to '
    'primitive UNIVERSAL types it implements and to contents of at most 64 octets.',
    'Step budget constants: c0=20000, c1=4000 events.',
]

C0, C1 = 20000, 4000
AC_NATIVE_MAX = 64
KEEP_PER_UNIT = 2


# ---------------------------------------------------------------------------
# program space: the standard units plus tag-moving letters

B = Leaf('BOOLEAN')
I = Leaf('INTEGER')
I8 = Leaf('INTEGER', rng=Rng(0, 255))
OS = Leaf('OCTETSTRING', size=Rng(0, 3))
NUL = Leaf('NULL')
IA5 = Leaf('IA5String', size=Rng(0, 2))
NBITS = Leaf('BITSTRING', named=(('a', 0), ('b', 1), ('c', 5)))

class HDict(dict):
    """A dict / list that can sit in a (hashable, frozen) term as a DEFAULT value."""
    def __hash__(self):
        return hash(repr(sorted(self.items())))


class HList(list):
    def __hash__(self):
        return hash(repr(self))


HELPERS = {
    'ChoT': Cho((M('ca', B), M('cb', I8))),
    'ChoTagged': Cho((M('lo', Tag(0, I8)), M('hi', Tag(9, B)))),
    'BoolT': B,
    'IntT': I8,
    'RealT': Leaf('REAL'),
    'SeqT': Seq((M('sa', I8), M('sb', B, 'O'))),
    'SeqD': Seq((M('da', I8, 'D', default=1), M('db', B, 'O'))),
    'ListT': Of(I8, size=Rng(0, 3)),
    'TaggedT': Tag(7, I8, 'APPLICATION'),
    'ChoTag2': Tag(2, Ref('ChoT')),
}

ENVS_X_QUICK = (('EXPLICIT', False), ('IMPLICIT', False), ('AUTOMATIC', False))
ENVS_X_THOROUGH = ENVS_X_QUICK + (('EXPLICIT', True), ('AUTOMATIC', True))


def tag_number_terms(thorough):
    out = []
    nums = [0, 30, 31, 127, 128, 16383, 16384] + ([2 ** 21 - 1, 2 ** 21, 2 ** 32] if thorough else [])
    inners = [('bool', B), ('oct', OS), ('seq', Seq((M('a', B),))), ('cho', Ref('ChoT')), ('of', Of(B, size=Rng(0, 2))),
              ('tagged', Ref('TaggedT'))]
    for num in nums:
        for cls in ('', 'APPLICATION', 'PRIVATE'):
            for mode in ('', 'IMPLICIT', 'EXPLICIT'):
                for lab, inner in inners:
                    if lab == 'cho' and mode == 'IMPLICIT':
                        continue        # illegal ASN.1 (X.680 31.2.7)
                    out.append((Tag(num, inner, cls, mode), 'X:tagnum:%s' % lab))
    # tags on the element type of SEQUENCE OF / SET OF, and double tags
    for num in (0, 31, 128):
        for cls in ('', 'APPLICATION', 'PRIVATE'):
            for mode in ('', 'IMPLICIT', 'EXPLICIT'):
                for is_set in (False, True):
                    out.append((Of(Tag(num, I8, cls, mode), size=Rng(0, 3), is_set=is_set), 'X:elemtag'))
                out.append((Of(Tag(num, Ref('SeqT'), cls, mode), size=Rng(0, 2)), 'X:elemtag'))
                out.append((Seq((M('a', Tag(num, I8, cls, mode)), M('b', Tag(num + 1, B, cls, mode), 'O'))), 'X:membertag'))
        for mode in ('', 'EXPLICIT'):
            out.append((Of(Tag(num, Ref('ChoT'), '', mode), size=Rng(0, 2)), 'X:elemtag'))
            out.append((Of(Tag(num, Ref('ChoT'), '', mode), size=Rng(0, 2), is_set=True), 'X:elemtag'))
    return out


SET_LETTERS = [
    ('ub', B), ('uo', OS), ('a1', Tag(1, I8, 'APPLICATION')), ('c0', Tag(0, B)), ('c31', Tag(31, I8)),
    ('p0', Tag(0, OS, 'PRIVATE')),
]


def set_order_terms(thorough):
    """SET with every textual order of every 2- and 3-subset of six letters that
    span the four tag classes, plus OPTIONAL / DEFAULT / extension variants."""
    out = []
    for k in (2, 3):
        for sub in itertools.combinations(SET_LETTERS, k):
            for perm in itertools.permutations(sub):
                ms = tuple(M('m%d' % i, t) for i, (lab, t) in enumerate(perm))
                out.append((Seq(ms, is_set=True), 'X:setorder'))
    base = (M('z', Tag(9, B)), M('y', Tag(5, I8)), M('x', Tag(1, OS)))
    out.append((Seq((M('z', Tag(9, B), 'O'), M('y', Tag(5, I8), 'D', default=3), M('x', Tag(1, OS))), is_set=True),
                'X:setorder'))
    out.append((Seq(base[:2], ext=True, adds=(M('w', Tag(0, B)),), is_set=True), 'X:setorder'))
    out.append((Seq(base[:2], ext=True, adds=(M('w', Tag(7, B), 'O'), M('v', Tag(0, I8), 'O')), is_set=True),
                'X:setorder'))
    out.append((Seq(base[:1], ext=True, adds=(Grp((M('w', Tag(0, B)), M('v', Tag(12, I8), 'O'))),),
                    root2=(M('r', Tag(3, I8)),), is_set=True), 'X:setorder'))
    out.append((Seq((M('o', OS), M('i', I8), M('b', B), M('n', NUL)), is_set=True), 'X:setorder'))
    out.append((Seq((M('s', Ref('SeqT')), M('l', Of(B, is_set=True)), M('e', Leaf('ENUMERATED', enum=(('p', None), ('q', None)))),
                     M('b', B)), is_set=True), 'X:setorder'))
    # untagged CHOICE inside SET: its tags straddle / do not straddle the neighbour
    out.append((Seq((M('c', Ref('ChoTagged')), M('m', Tag(5, OS))), is_set=True), 'X:setchoice'))
    out.append((Seq((M('m', Tag(5, OS)), M('c', Ref('ChoTagged'))), is_set=True), 'X:setchoice'))
    out.append((Seq((M('m', Tag(12, OS)), M('c', Ref('ChoTagged'))), is_set=True), 'X:setchoice'))
    out.append((Seq((M('c', Cho((M('i', I8), M('s', IA5)))), M('o', OS), M('b', B)), is_set=True), 'X:setchoice'))
    out.append((Seq((M('n', NUL), M('c', Cho((M('i', I8), M('inner', Cho((M('s', IA5), M('b', B))))))),), is_set=True),
                'X:setchoice'))
    # SEQUENCE with components after the second extension marker
    out.append((Seq((M('a', I8),), ext=True, adds=(M('x', B),), root2=(M('r', NUL),)), 'X:root2'))
    out.append((Seq((M('a', I8),), ext=True, adds=(M('x', B, 'O'), M('y', OS, 'O')), root2=(M('r', IA5),)), 'X:root2'))
    out.append((Seq((M('a', I8),), ext=True, adds=(Grp((M('x', B), M('y', OS, 'O'))),), root2=(M('r', NUL), M('s', IA5, 'O'))),
                'X:root2'))
    return out


def choice_terms(thorough):
    out = []
    inline = Cho((M('p', B), M('q', OS)))
    for num in (0, 3, 31):
        for cls in ('', 'APPLICATION'):
            for mode in ('', 'EXPLICIT'):
                out.append((Tag(num, Ref('ChoT'), cls, mode), 'X:choice'))
                out.append((Tag(num, inline, cls, mode), 'X:choice'))
                out.append((Seq((M('c', Tag(num, Ref('ChoT'), cls, mode)), M('t', B)),), 'X:choice'))
                out.append((Seq((M('t', B), M('c', Tag(num, inline, cls, mode), 'O')),), 'X:choice'))
                out.append((Cho((M('c', Tag(num, Ref('ChoT'), cls, mode)), M('t', NUL))), 'X:choice'))
    # (the library's parser rejects two tags in a row, so double tags go through a reference)
    out.append((Tag(1, Ref('ChoTag2'), '', 'IMPLICIT'), 'X:choice'))           # legal: ChoTag2 is a tagged type
    out.append((Tag(1, Ref('ChoTag2'), '', 'EXPLICIT'), 'X:choice'))
    out.append((Tag(1, Ref('ChoTag2')), 'X:choice'))
    out.append((Cho((M('b', NUL), M('inner', Cho((M('i', I8), M('s', IA5)))))), 'X:choice'))
    out.append((Cho((M('b', NUL), M('inner', Ref('ChoTagged')))), 'X:choice'))
    out.append((Seq((M('c', Ref('ChoT')), M('d', Ref('ChoTagged'), 'O'), M('e', OS)),), 'X:choice'))
    out.append((Of(Ref('ChoT'), size=Rng(0, 3)), 'X:choice'))
    out.append((Of(Ref('ChoTagged'), size=Rng(0, 3), is_set=True), 'X:choice'))
    return out


def automatic_terms(thorough):
    """One textually tagged member switches AUTOMATIC tagging off for that constructor only."""
    out = []
    letters = [B, I8, OS]
    for pos in range(3):
        ms = tuple(M('m%d' % i, Tag(5, t) if i == pos else t) for i, t in enumerate(letters))
        out.append((Seq(ms), 'X:auto1'))
        out.append((Seq(ms, is_set=True), 'X:auto1'))
        out.append((Cho(ms), 'X:auto1'))
        ms2 = tuple(M('m%d' % i, Tag(5, t, '', 'EXPLICIT') if i == pos else t, 'O' if i == 1 else 'M')
                    for i, t in enumerate(letters))
        out.append((Seq(ms2), 'X:auto1'))
    inner_auto = Seq((M('x', B), M('y', B, 'O')))
    inner_tagged = Seq((M('x', Tag(1, B)), M('y', I8)))
    out.append((Seq((M('a', Tag(5, B)), M('b', inner_auto)),), 'X:auto1'))
    out.append((Seq((M('a', B), M('b', inner_tagged), M('c', I8)),), 'X:auto1'))
    out.append((Seq((M('a', B), M('b', Ref('ChoT')), M('c', Ref('ChoTagged'))),), 'X:auto1'))
    out.append((Seq((M('a', Ref('TaggedT')), M('b', I8)),), 'X:auto1'))       # a reference to a tagged type is not a textual tag
    out.append((Seq((M('a', B), M('b', Ref('ChoTag2')), M('c', Ref('ChoT'))),), 'X:auto1'))
    out.append((Cho((M('a', Ref('TaggedT')), M('b', I8), M('c', Ref('ChoT')))), 'X:auto1'))
    out.append((Seq((M('a', B),), ext=True, adds=(M('x', I8), Grp((M('y', B), M('z', OS, 'O')))), root2=(M('r', B),)),
                'X:auto1'))
    out.append((Seq((M('a', B), M('l', Of(Seq((M('p', B), M('q', B, 'O')))))),), 'X:auto1'))
    return out


def default_terms(thorough):
    """Structured and referenced DEFAULT values (value notation rendered by mc.terms)."""
    out = []
    cases = [
        (Seq((M('a', I8), M('b', B))), HDict({'a': 1, 'b': True})),
        (Ref('SeqT'), HDict({'sa': 1})),
        (Ref('SeqD'), HDict()),
        (Ref('SeqD'), HDict({'da': 1})),
        (Ref('SeqD'), HDict({'da': 2, 'db': True})),
        (Of(I8, size=Rng(0, 3)), HList([1, 2])),
        (Of(I8, size=Rng(0, 3)), HList()),
        (Of(I8, size=Rng(0, 3), is_set=True), HList([2, 1])),
        (Ref('ListT'), HList([7])),
        (Cho((M('a', I8), M('b', B))), ('a', 5)),
        (Ref('ChoT'), ('ca', True)),
        (Ref('BoolT'), True),
        (Ref('BoolT'), False),
        (Ref('IntT'), 7),
        (Ref('RealT'), 1.5),
        (Leaf('REAL'), 1.5),
        (Leaf('REAL'), 0.0),
        (Leaf('OID'), '1.2.3'),
        (Tag(4, Leaf('OID')), '2.999.3'),
        (Leaf('NumericString'), '12'),
        (Leaf('IA5String'), '7'),
        (Leaf('IA5String'), 'x7'),
        (NBITS, (b'\x40', 2)),
        (Leaf('ENUMERATED', enum=(('p', None), ('q', None))), 'q'),
        (Tag(2, B, '', 'EXPLICIT'), True),
    ]
    for t, d in cases:
        out.append((Seq((M('pad', B), M('x', t, 'D', default=d), M('tail', I8, 'O'))), 'X:default'))
    out.append((Seq((M('x', NUL, 'D', default=None, default_txt='NULL'), M('tail', B))), 'X:default'))
    out.append((Seq((M('x', Ref('SeqD'), 'D', default=HDict({'da': 1})), M('y', Of(I8, size=Rng(0, 3)), 'D', default=HList([1, 2]))),
                    is_set=True), 'X:default'))
    return out


def extra_terms(thorough):
    return (tag_number_terms(thorough) + set_order_terms(thorough) + choice_terms(thorough)
            + automatic_terms(thorough) + default_terms(thorough))


def extra_units(tier):
    thorough = tier == 'thorough'
    terms = extra_terms(thorough)
    out = []
    for tags, ei in (ENVS_X_THOROUGH if thorough else ENVS_X_QUICK):
        for bi, chunk in enumerate(space.batches(terms)):
            out.append(space.make_unit('X/%s%s/%d' % (tags, '+EI' if ei else '', bi), chunk, helpers=HELPERS,
                                       tags=tags, ext_implied=ei))
    return out


def units(tier):
    out = space.standard_units(tier)
    if tier != 'thorough':
        # the quick standard space has EXPLICIT and AUTOMATIC TAGS only; tags are this property's subject,
        # so the same layers are also explored under IMPLICIT TAGS (the thorough space already has them)
        env = (('IMPLICIT', False),)
        out += list(space.l0c_units(False, envs=env)) + list(space.l1_units(2, 2, envs=env))
        out += list(space.l2_units(False, envs=env)) + list(space.family_units(envs=env))
    return out + extra_units(tier)


def bounds(tier):
    return {'tier': tier,
            'layers': ('L0,L0c,L2,families under EXPLICIT,AUTOMATIC,IMPLICIT; L1(W2,K2) under EXPLICIT,IMPLICIT; L1(W2,K1) under AUTOMATIC' if tier == 'quick'
                       else 'L0,L0c,L1(W3,K2),L2,families under 5 environments')
            + '; X:tagnum/elemtag/membertag/setorder/setchoice/root2/choice/auto1/default under '
            + ('EXPLICIT,IMPLICIT,AUTOMATIC' if tier == 'quick' else 'EXPLICIT,IMPLICIT,AUTOMATIC,EXPLICIT+EI,AUTOMATIC+EI'),
            'tag_numbers': [0, 30, 31, 127, 128, 16383, 16384] + ([2 ** 21 - 1, 2 ** 21, 2 ** 32] if tier != 'quick' else []),
            'value_deviation_k': 2, 'codec': CODEC, 'numeric_enums': [False, True],
            'variants_per_value': 'every applicable class of equal-value rewrite, applied at all sites at once'}


def setup(tier):
    from .. import values
    values.set_tier(tier)


def has_enum(t, env):
    return has_kind(t, env, lambda s: isinstance(s, Leaf) and s.kind == 'ENUMERATED')


# ---------------------------------------------------------------------------
# abstractly equal rewrites of a value

def _rewrite(t, v, env, f_leaf, f_of, f_seq, depth=0):
    if depth > 24:
        return v
    if isinstance(t, Ref):
        return _rewrite(env[t.name], v, env, f_leaf, f_of, f_seq, depth + 1)
    if isinstance(t, Tag):
        return _rewrite(t.inner, v, env, f_leaf, f_of, f_seq, depth + 1)
    if isinstance(t, Leaf):
        return f_leaf(t, v)
    if isinstance(t, Seq) and isinstance(v, dict):
        out = {}
        for m in all_members(t):
            if m.name in v:
                out[m.name] = _rewrite(m.t, v[m.name], env, f_leaf, f_of, f_seq, depth + 1)
        return f_seq(t, out)
    if isinstance(t, Cho) and isinstance(v, tuple) and len(v) == 2:
        for m in all_members(t):
            if m.name == v[0]:
                return (v[0], _rewrite(m.t, v[1], env, f_leaf, f_of, f_seq, depth + 1))
        return v
    if isinstance(t, Of) and isinstance(v, list):
        return f_of(t, [_rewrite(t.elem, x, env, f_leaf, f_of, f_seq, depth + 1) for x in v])
    return v


def _ident(t, v):
    return v


def variants(term, v, env, numeric):
    """[(class, value')] with value' abstractly equal to v and written differently."""
    out = []

    def add(cls, v2):
        if repr(v2) != repr(v):
            out.append((cls, v2))

    add('setof-reversed', _rewrite(term, v, env, _ident, lambda t, x: x[::-1] if t.is_set else x, _ident))
    add('setof-rotated', _rewrite(term, v, env, _ident, lambda t, x: x[1:] + x[:1] if t.is_set else x, _ident))

    def defaults_in(t, d):
        d = dict(d)
        for m in all_members(t):
            if m.q == 'D' and m.name not in d:
                d[m.name] = to_numeric(m.t, m.default, env) if numeric else m.default
        return d

    def defaults_out(t, d):
        d = dict(d)
        for m in all_members(t):
            if m.q == 'D' and m.name in d:
                dv = to_numeric(m.t, m.default, env) if numeric else m.default
                if absval.eq(m.t, d[m.name], dv, env, numeric):
                    del d[m.name]
        return d

    add('default-explicit', _rewrite(term, v, env, _ident, _ident, defaults_in))
    add('default-absent', _rewrite(term, v, env, _ident, _ident, defaults_out))

    def garbage(t, x):
        if t.kind == 'BITSTRING' and isinstance(x, tuple) and len(x) == 2 and x[1] % 8 and len(x[0]) * 8 >= x[1]:
            data = bytearray(x[0])
            idx = x[1] // 8
            data[idx] |= 0xff >> (x[1] % 8)
            return (bytes(data), x[1])
        return x

    def extra_octet(t, x):
        if t.kind == 'BITSTRING' and isinstance(x, tuple) and len(x) == 2:
            return (bytes(x[0])[:(x[1] + 7) // 8] + b'\xff', x[1])
        return x

    def trailing(k):
        def f(t, x):
            if t.kind == 'BITSTRING' and t.named and isinstance(x, tuple) and len(x) == 2:
                n = x[1] + k
                data = bytearray(bytes(x[0])[:(x[1] + 7) // 8])
                if x[1] % 8:
                    data[-1] &= (0xff << (8 - x[1] % 8)) & 0xff
                data += bytes((n + 7) // 8 - len(data))
                return (bytes(data), n)
            return x
        return f

    add('unused-bits', _rewrite(term, v, env, garbage, _ident, _ident))
    add('unused-octet', _rewrite(term, v, env, extra_octet, _ident, _ident))
    add('named-trailing-zero', _rewrite(term, v, env, trailing(1), _ident, _ident))
    add('named-trailing-zeros', _rewrite(term, v, env, trailing(9), _ident, _ident))
    return out


# ---------------------------------------------------------------------------
# second reader: asn1crypto

_ac = None


def _asn1crypto():
    global _ac
    if _ac is None:
        from asn1crypto import parser as acp, core as acc
        _ac = (acp, acc)
    return _ac


# (TeletexString, 20, is left out: asn1crypto applies a strict T.61 table in which e.g. '~' is undefined)
AC_NATIVE_TAGS = frozenset([1, 2, 3, 4, 5, 6, 12, 18, 19, 22, 23, 24, 25, 26, 27, 28, 30])


def second_reader(data, tree):
    """asn1crypto must read the same tree as mc.tlv. -> None or a problem string."""
    acp, acc = _asn1crypto()
    data = bytes(data)
    fast = getattr(acp, '_parse', None)

    def rec(buf, start, end, node, depth):
        if fast is not None:
            info, after = fast(buf, end, start)
        else:
            info = acp.parse(buf[start:end], strict=False)
            after = start + len(info[3]) + len(info[4]) + len(info[5])
        cls, method, tagnum, header, content, trailer = info
        if (cls, bool(method), tagnum) != (node.cls, node.constructed, node.num):
            return 'identifier read as class %d method %d tag %d' % (cls, method, tagnum)
        if trailer:
            return 'indefinite length seen by the second reader'
        if after != node.end:
            return 'node ends at %d for the second reader, at %d for mc.tlv' % (after, node.end)
        if node.constructed:
            off = start + len(header)
            for c in node.children:
                if off >= after:
                    return 'fewer children for the second reader'
                p = rec(buf, off, after, c, depth + 1)
                if p:
                    return p
                off = c.end
            if off != after:
                return 'more children for the second reader'
        else:
            if bytes(content) != bytes(node.content):
                return 'contents differ'
            if node.cls == 0 and node.num in AC_NATIVE_TAGS and len(content) <= AC_NATIVE_MAX:
                try:
                    acc.load(buf[start:after]).native
                except Exception as e:
                    return 'asn1crypto cannot load UNIVERSAL %d: %s' % (node.num, errclass(e))
        return None

    try:
        whole = acp.parse(data, strict=True)
    except Exception as e:
        return 'asn1crypto.parser.parse(strict) raised ' + errclass(e)
    return rec(data, 0, len(data), tree, 0)


def second_reader_value(term, v, data, numeric):
    """Top-level untagged leaf: asn1crypto's native value must be the encoded value."""
    if not isinstance(term, Leaf) or len(data) > AC_NATIVE_MAX + 4:
        return None
    acp, acc = _asn1crypto()
    k = term.kind
    try:
        if k == 'BOOLEAN':
            got, want = acc.Boolean.load(data).native, v
        elif k == 'INTEGER':
            got, want = acc.Integer.load(data).native, v
        elif k == 'OCTETSTRING':
            got, want = acc.OctetString.load(data).native, bytes(v)
        elif k == 'NULL':
            got, want = acc.Null.load(data).native, None
        elif k == 'OID':
            got, want = acc.ObjectIdentifier.load(data).native, v
        elif k == 'BITSTRING':
            bits = ''.join('{:08b}'.format(b) for b in v[0])[:v[1]]
            if term.named:
                bits = bits.rstrip('0')
            got, want = ''.join(str(b) for b in acc.BitString.load(data).native), bits
            if term.named:
                got = got.rstrip('0')
        elif k in ('UTF8String', 'IA5String', 'VisibleString', 'PrintableString', 'NumericString', 'BMPString',
                   'UniversalString'):
            got, want = getattr(acc, k).load(data).native, v
        elif k in ('UTCTime', 'GeneralizedTime'):
            got = getattr(acc, k).load(data).native
            want = v if v.tzinfo is not None else v.replace(tzinfo=datetime.timezone.utc)
        else:
            return None
    except Exception as e:
        return 'asn1crypto cannot load the value: ' + errclass(e)
    if got != want:
        return 'asn1crypto reads %r' % (got,)
    return None


# ---------------------------------------------------------------------------
# the oracle

def _sizeof(v):
    if isinstance(v, (bytes, bytearray, str)):
        return len(v)
    if isinstance(v, (list, tuple)):
        return 1 + sum(_sizeof(x) for x in v)
    if isinstance(v, dict):
        return 1 + sum(_sizeof(x) for x in v.values())
    return 1


def _impl_encode(ct, pv):
    enc, _ = budget.run(C0 + C1 * 64 + 60 * _sizeof(pv), ct.encode, pv)
    return bytes(enc)


def _explanation(term, pv, env, tags, ei, numeric, observed):
    ex = der_dev.explain(term, pv, env, tags, ei, numeric, observed)
    if ex:
        return 'emul:' + '+'.join(ex)
    return 'unexplained'


def check_value(spec, name, term, env, tags, ei, v, numeric, res):
    """-> None | (kind, detail, enc bytes | None)."""
    ct = spec.types[name]
    pv = to_numeric(term, v, env) if numeric else v
    try:
        ct.check_types(pv)
        ct.check_constraints(pv)
    except (impl.asn1tools.EncodeError, impl.asn1tools.ConstraintsError):
        res.count('values_rejected_by_checks')
        return None
    except Exception as e:
        res.count('values_rejected_by_checks')
        res.outcome('check-raised-foreign:' + errclass(e)[:40])
        return None
    try:
        expected, touched = ref_der.encode_all(term, pv, env, tags, ei, numeric)
    except ref_der.Illegal:
        res.count('illegal_programs')
        res.outcome('model-skip:illegal-program')
        return None
    except ref_der.ModelError as e:
        res.count('model_skips')
        res.outcome('model-skip:' + type(e).__name__)
        return None
    if touched:
        res.count('cases_touching_unasserted_rules')
        for tname in touched:
            res.outcome('unasserted:' + tname)
    try:
        got = _impl_encode(ct, pv)
    except budget.BudgetExceeded:
        res.outcome('impl-encode-budget')
        res.count('impl_encode_raised')
        return None
    except Exception as e:
        res.outcome('impl-encode-raised:' + errclass(e)[:40])
        res.count('impl_encode_raised')
        return None
    res.count('evaluations')
    res.count('model_comparisons')
    if got not in expected:
        return ('model-mismatch', _explanation(term, pv, env, tags, ei, numeric, got), got)
    # (2) form
    try:
        tree = tlv.parse(got)
    except tlv.TLVError as e:
        return ('not-tlv', str(e)[:80], got)
    res.count('tlv_parses')
    probs = tlv.der_form_problems(tree) + tlv.string_form_problems(tree)
    if probs:
        return ('form-not-der', probs[0].split(' at ')[0], got)
    if tlv.serialise(tree) != got:
        return ('form-not-der', 're-serialisation differs', got)
    # (3) second reader
    p = second_reader(got, tree) or second_reader_value(term, pv, got, numeric)
    res.count('second_reader_parses')
    if p:
        return ('second-reader-rejects', p, got)
    # (4) equal abstract values
    for cls, v2 in variants(term, pv, env, numeric):
        if not absval.eq(term, pv, v2, env, numeric):
            raise AssertionError('variant %s of %r is not abstractly equal: %r' % (cls, pv, v2))
        try:
            ct.check_types(v2)
            ct.check_constraints(v2)
        except Exception:
            res.count('variants_rejected_by_checks')
            continue
        try:
            m2 = ref_der.encode_all(term, v2, env, tags, ei, numeric)[0]
        except ref_der.ModelError:
            res.count('variants_model_skips')
            continue
        if m2 != expected:
            raise AssertionError('model is not canonical: %r vs %r' % (pv, v2))
        try:
            got2 = _impl_encode(ct, v2)
        except budget.BudgetExceeded:
            res.outcome('impl-encode-budget')
            continue
        except Exception as e:
            res.outcome('impl-encode-raised-on-variant:' + errclass(e)[:40])
            res.count('variants_impl_raised')
            continue
        res.count('variant_comparisons')
        res.outcome('variant:' + cls)
        if got2 != got:
            return ('equal-values-differ', cls + ';' + _explanation(term, v2, env, tags, ei, numeric, got2), got2)
    res.outcome('ok')
    return None


def _emul(detail):
    if detail and 'emul:' in detail:
        return set(detail.split('emul:')[1].split('+'))
    return None


def work(unit):
    res = Result()
    kept = {}
    any_enum = any(has_enum(t, unit.env) for _, t, _ in unit.tops)
    compiled = impl.compile_tops(unit, (CODEC,), (False, True) if any_enum else (False,))
    for i, (name, term, lab) in enumerate(unit.tops):
        res.count('types')
        res.states.add(hash((unit.tags, unit.ext_implied, term)))
        values = dom(term, unit.env)
        if not values:
            res.count('types_without_values')
            continue
        res.count('values', len(values))
        enum = has_enum(term, unit.env)
        if len(res.samples) < 2:
            mid = values[len(values) // 2]
            try:
                exp = ref_der.encode(term, mid, unit.env, unit.tags, unit.ext_implied).hex()[:80]
            except ref_der.ModelError as e:
                exp = 'model: ' + str(e)
            res.samples.append({'type': render_type(term, unit.env)[:200], 'env': [unit.tags, unit.ext_implied],
                                'value': valrepr(mid)[:120], 'model_der': exp})
        for numeric in ((False, True) if enum else (False,)):
            c = compiled[(numeric, CODEC)][i]
            if isinstance(c, BaseException):
                res.count('types_rejected_by_compiler')
                res.outcome('compile-rejected:' + errclass(c)[:50])
                continue
            spec, tname = c
            for v in values:
                r = check_value(spec, tname, term, unit.env, unit.tags, unit.ext_implied, v, numeric, res)
                if r is None:
                    continue
                kind, detail, enc = r
                em = _emul(detail)
                if em is not None:
                    sig = '|'.join([kind, 'ne' if numeric else '', 'emul:' + '+'.join(sorted(em))])
                else:
                    sig = '|'.join([kind, 'ne' if numeric else '', unit.tags, lab, vclass(v), detail[:60]])
                res.outcome(kind + ':' + (detail if em is None else 'emul:' + '+'.join(sorted(em)))[:80])
                if em is not None:
                    # explained exactly by known deviations: keep the first few per unit and signature
                    # (domains start at the base value, so these are the simple ones), count the rest
                    res.count('failures_explained_by_known_deviations')
                    kept[sig] = kept.get(sig, 0) + 1
                    if kept[sig] > KEEP_PER_UNIT:
                        res.count('explained_failures_not_kept_as_records')
                        continue
                res.failures.append(new_failure(
                    ID, kind, sig, codec=CODEC, numeric=numeric, detail=detail,
                    encoded=enc.hex()[:400] if enc is not None else None,
                    size=len(render_type(term, unit.env)) + len(valrepr(v)),
                    layer=lab.split(':')[0], emul=sorted(em) if em is not None else None,
                    **case_fields(unit, name, term, v)))
    return res


def attribute(failures):
    """A failure explained by several known deviations at once joins the group of
    the first of them, provided every one of them also occurs on its own (so each
    is triaged through its own minimal case).  Returns the number re-attributed."""
    singles = {}
    for f in failures:
        em = f.get('emul')
        if em and len(em) == 1:
            singles.setdefault((f['kind'], f['numeric'], em[0]), f['sig'])
    n = 0
    for f in failures:
        em = f.get('emul')
        if em and len(em) > 1:
            sigs = [singles.get((f['kind'], f['numeric'], e)) or singles.get(('model-mismatch', f['numeric'], e))
                    or singles.get(('model-mismatch', False, e)) for e in em]
            if all(sigs):
                f['sig'] = sigs[0]
                f['attributed'] = True
                f['size'] = f.get('size', 0) + 100000
                n += 1
    return n


def coverage(stats, tier):
    cmp_ = stats.get('model_comparisons', 0)
    var = stats.get('variant_comparisons', 0)
    return {
        'states': stats.get('types', 0) + stats.get('values', 0),
        'transitions': cmp_ * 2 + stats.get('tlv_parses', 0) + stats.get('second_reader_parses', 0) + var * 2,
        'traces_validated_against_impl': cmp_ + var,
        'evaluations': cmp_ + var,
        'distinct_nontrivial': cmp_,
        'rule': 'every (environment, type term, boundary value, numeric_enums) tuple is enumerated once; a case is '
                'non-trivial when the value passed the library\'s own checks, the model produced the distinguished '
                'encoding and the implementation\'s bytes were compared with it; states = type terms + values '
                'enumerated; transitions = model encodings + implementation encodings + TLV re-reads + second-reader '
                're-reads + equal-value variants encoded by both; traces_validated_against_impl = model/impl byte '
                'comparisons (values and their equal-value variants)',
        'exhaustive': True,
        'ledger': ref_der.LEDGER,
        'deviation_switches': list(der_dev.SWITCHES),
    }


# ---------------------------------------------------------------------------
# shrinking / replay

def run_case(failure, unit, name, term, v):
    res = Result()
    try:
        spec = impl.compile_parsed(unit.spec, [CODEC], failure['numeric'])[CODEC]
    except Exception:
        return None
    return check_value(spec, name, term, unit.env, unit.tags, unit.ext_implied, v, failure['numeric'], res)


def _same(failure, r):
    a, b = _emul(failure.get('detail')), _emul(r[1])
    if a is None or b is None:
        return a is None and b is None
    return bool(b) and b <= a


def shrink(failure):
    return shrinker.shrink_failure(failure, run_case, _same)


def replay(case):
    unit, name, term, v = rebuild_case(case)
    r = run_case(case, unit, name, term, v)
    if r is None:
        return None
    return {'kind': r[0], 'detail': r[1], 'encoded': r[2].hex() if r[2] is not None else None}
