"""C07 Extension additions keep old and new versions of a type interoperable.

The version graph is a transition system on type terms (mc/versions.py): a
state is a term, a transition is one legal extension step at one extensible
node.  From every base term V0 with an extensible node (L1 / L2 layers of the
common alphabet, type references inlined) all terms reachable in <= S steps are
generated; every ancestor/descendant pair (old, new) on a path is a case.  Both
versions are wrapped as SEQUENCE { head BOOLEAN, x <V>, tail INTEGER (0..255) }
so that re-synchronisation after the unknown part is observable, rendered into
two modules under the same tagging environment with identical tags on the
components they share, and compiled for every codec that has a decoder.

Oracle (pi is the projection on terms, the model):
  down: decode_old(encode_new(v2)) == pi(old, new, v2)   for every new value
  up:   decode_new(encode_old(v1)) == v1 modulo DEFAULTs for every old value
Preconditions (they belong to C01/C02, not to this property): the value encodes
with its own version and decodes to itself with its own version.
"""

import os
from dataclasses import dataclass, field

from .. import impl, budget, absval, space
from .. import versions as V
from .. import c07_fast as fast
from .. import alphabet as A
from ..runner import Result, new_failure
from ..terms import Leaf, Rng, Seq, Cho, Of, Tag, M, Grp, Module, render_module, render_type, all_members
from ..tagging import legalize
from ..values import dom
from ..casefmt import errclass as _errclass_raw, valrepr as _valrepr_raw, case_fields, rebuild_case
from .. import shrink as shrinker

import re

_LOC = re.compile(r'^[A-Za-z][\w\-]*(\.[\w\-]+)*: ')


def valrepr(v):
    try:
        return _valrepr_raw(v)
    except ValueError:          # e.g. an integer of more than 4300 digits decoded from the wrong offset
        return '<value that repr() refuses to print>'


def errclass(e):
    """Exception class + normalised message with the leading 'Type.member: ' location removed
    (type names differ between the batch run, shrinking and replay)."""
    s = _errclass_raw(e)
    cls, _, msg = s.partition(': ')
    return cls + ': ' + _LOC.sub('', msg, count=1)


ID = 'C07'
LEVEL = 'model_checking'
CODECS = ('ber', 'der', 'per', 'uper', 'oer', 'jer', 'xer')
C0, C1 = 30000, 4000
DEV_STRIDE = int(os.environ.get('C07_DEV_STRIDE', '1') or 1)
HEAD, TAIL = True, 165

ASSUMPTIONS = [
    'Base terms V0 are the L1 (one constructor over the 12-letter reduced member alphabet) and L2 (constructor pairs) '
    'layers restricted to terms with at least one extensible node; type references are inlined (C19 covers '
    'arrangement independence).',
    'Step alphabet: add M/OPTIONAL/DEFAULT component of type BOOLEAN, INTEGER (0..255), OCTET STRING, NULL, extensible '
    'SEQUENCE, extensible CHOICE; add one of three [[groups]]; add a CHOICE alternative of those types; add an '
    'ENUMERATED item (next number / far number); widen an extensible INTEGER range or SIZE. Terms far from the base '
    'configuration use the reduced alphabet (each qualifier, letter and one group once); see bounds.',
    'Tags: the newer version is legalised (context tags inserted where X.680 requires distinct tags) and the older '
    'version carries exactly the same tags on shared components. Under AUTOMATIC TAGS constructors with components '
    'after the second extension marker get no component steps (the automatic tag order of trailing root components is '
    'not asserted).',
    'A value whose own-version round trip fails (encode raises, or decode differs) is out of scope here: it is a '
    'C01/C02 case. Such values are counted, not reported.',
    'Unknown alternative: (None, x) or None accepted; unknown ENUMERATED item: None accepted; in a mandatory or '
    'OPTIONAL component "unknown" and "component not reported" are treated as the same observation.',
    'Values outside the root of an extensible INTEGER range / SIZE are kept by the projection (no constraint check '
    'is requested when decoding).',
    'numeric_enums=False only; EXTENSIBILITY IMPLIED not explored (it only adds markers, which the terms already carry).',
    'Value domains are boundary sets from mc.values.dom (big lengths off), products deviation-bounded (k<=2, cap 48); '
    'the frame is (head TRUE, tail 165) for every value plus (head FALSE, tail 0) for the base value; values holding a '
    'list longer than 20 elements are left to C01; up to two extra values per type put 16384 octets into one '
    'unconstrained OCTET STRING component (long-form length / fragmented open type around a skipped addition).',
    'Step budget: 30000 + 4000 events per encoded byte.',
]


# ---------------------------------------------------------------------------
# the space

@dataclass
class CUnit:
    label: str
    tags: str
    bases: list                # [(V0 term, label, reduced)]
    S: int
    reduced2: bool = True      # second step uses the reduced alphabet
    vidx: int = 0
    spec: str = None           # filled for single-case units (shrinking / replay)
    tops: list = field(default_factory=list)
    env: dict = field(default_factory=dict)
    ext_implied: bool = False


def tier_params(tier):
    if tier == 'thorough':
        return dict(W=3, K=1, S=2, envs=('EXPLICIT', 'IMPLICIT', 'AUTOMATIC'), batch=3, s2_w=2)
    return dict(W=2, K=1, S=1, envs=('EXPLICIT', 'AUTOMATIC'), batch=6, s2_w=0)


def bounds(tier):
    p = tier_params(tier)
    return {'tier': tier, 'base_terms': 'L1(W<=%d,K<=%d) + L2 + boundary family (6..16 additions, 30..64 alternatives, every extensible leaf), '
                          'extensible only, references inlined' % (p['W'], p['K']),
            'steps_S': p['S'], 'tag_environments': list(p['envs']), 'codecs': list(CODECS),
            'step_alphabet': 'full (18 SEQUENCE/SET steps, 6 CHOICE steps, 2 ENUMERATED steps, widen) at base terms with <= 2 '
                             'nodes below the root, reduced (7 / 4 / 1, widen) elsewhere; second steps (thorough, base '
                             'terms with <= %d nodes below the root) use the reduced alphabet' % p['s2_w'],
            'value_deviation_k': 2, 'max_list_length': MAXLIST}


def boundary_terms(tier):
    """Base terms on the count thresholds of the extension machinery: the OER presence bitmap grows a
    byte at 8 / 16 additions, PER switches the normally-small forms at 64, context tags get a second
    octet at 31 (BER) / 63 (OER); plus every extensible leaf shape of the leaf alphabet on its own."""
    out = []
    many = (6, 7, 8, 15, 16) + ((62, 63, 64) if tier == 'thorough' else ())
    for n in many:
        out.append(Seq((M('m0', V.B),), ext=True, adds=tuple(M('x%d' % i, V.B, 'O') for i in range(n))))
    for n in (30, 62, 64):
        out.append(Cho((M('m0', V.B),), ext=True, adds=tuple(M('x%d' % i, V.B) for i in range(n))))
    for l in A.sigma_leaf(tier == 'thorough'):
        if not V.is_extensible(l):
            continue
        try:
            fast.type_dict(l)
        except NotImplementedError:
            continue            # FROM alphabets, named numbers, symbolic bounds: not in the fast path's grammar
        out.append(l)
    return out


def base_terms(tier):
    p = tier_params(tier)
    out = []
    seen = set()
    for lab, terms in (('L1', A.l1_terms(p['W'], p['K'])), ('L2', A.l2_terms(tier == 'thorough')),
                       ('Lb', boundary_terms(tier))):
        for t in terms:
            t = V.inline(t, A.REF_ENV)
            if t in seen or not V.is_extensible(t):
                continue
            seen.add(t)
            out.append((t, lab))
    return out


def _weight(t):
    """Number of members in the whole term: terms with few members get the full alphabet."""
    return sum(1 for _ in V.nodes(t)) - 1


def units(tier):
    p = tier_params(tier)
    bases = base_terms(tier)
    out = []
    for tags in p['envs']:
        items = []
        for t, lab in bases:
            w = _weight(t)
            S = p['S'] if (p['S'] == 1 or w <= p['s2_w']) else 1
            items.append((t, lab, w > 2, S))
        # heavy items (S=2) on their own
        n = p['batch']
        light = [(t, lab, red) for t, lab, red, S in items if S == 1]
        heavy = [(t, lab, red) for t, lab, red, S in items if S == 2]
        for i in range(0, len(light), n):
            out.append(CUnit('%s/S1/%d' % (tags, i // n), tags, light[i:i + n], 1))
        for i, it in enumerate(heavy):
            out.append(CUnit('%s/S2/%d' % (tags, i), tags, [it], 2))
    for i, u in enumerate(out):
        u.vidx = i
    if DEV_STRIDE > 1:          # development only: never set in a verdict run (evidence says exhaustive: false)
        out = out[::DEV_STRIDE]
    return out


def setup(tier):
    from .. import values
    values.set_tier(tier)


# ---------------------------------------------------------------------------
# pair generation

def wrap(x):
    return Seq((M('head', V.B), M('x', x), M('tail', V.U8)))


def _independent(p1, p2):
    """Two step sites commute when neither path is a prefix of the other."""
    n = min(len(p1), len(p2))
    return p1[:n] != p2[:n]


def version_pairs(v0, S, reduced1, reduced2, auto):
    """[(new term, generation g, ops)] : old = strip(new, g)."""
    out = []
    for path1, op1, t1 in V.successors(v0, 1, reduced1, auto):
        out.append((t1, 1, ((path1, op1),)))
        if S < 2:
            continue
        for path2, op2, t2 in V.successors(t1, 2, reduced2, auto):
            ops = ((path1, op1), (path2, op2))
            out.append((t2, 2, ops))
            # (V0, V2): commuting steps reach the same V2 in both orders; keep one
            if _independent(path1, path2) and (path1, op1) > (path2, op2):
                continue
            out.append((t2, 1, ops))
    return out


def opclass(ops):
    return '+'.join(op.split(':')[0] if not op.startswith('add') else op.split(':')[0] for _, op in ops)


def values_of(x):
    d = dom(x, {}, big=False)
    if not d:
        return []
    out = [{'head': HEAD, 'x': v, 'tail': TAIL} for v in d]
    out.append({'head': False, 'x': d[0], 'tail': 0})
    return out


# ---------------------------------------------------------------------------
# the oracle on one value

def _limit(n):
    return C0 + C1 * (n + 1)


def encode_own(ct, term, v, why=None):
    """Encode v with its own version and confirm the own-version round trip.
    Returns bytes, or None when the precondition fails (reason appended to `why`)."""
    try:
        enc, _ = budget.run(_limit(64) + 100 * _sizeof(v), ct.encode, v)
        enc = bytes(enc)
    except budget.BudgetExceeded:
        if why is not None:
            why.append('encode:BudgetExceeded')
        return None
    except Exception as e:
        if why is not None:
            why.append('encode:' + errclass(e)[:48])
        return None
    try:
        dec, _ = budget.run(_limit(len(enc)), ct.decode, enc)
    except budget.BudgetExceeded:
        if why is not None:
            why.append('decode:BudgetExceeded')
        return None
    except Exception as e:
        if why is not None:
            why.append('decode:' + errclass(e)[:48])
        return None
    if dec != v and not absval.eq(term, v, dec, {}, False):
        if why is not None:
            why.append('decode:different value')
        return None
    return enc


def _sizeof(v):
    if isinstance(v, (bytes, bytearray, str)):
        return len(v)
    if isinstance(v, (list, tuple)):
        return 1 + sum(_sizeof(x) for x in v)
    if isinstance(v, dict):
        return 1 + sum(_sizeof(x) for x in v.values())
    return 1


def check_down(ct_old, old, new, v2, enc, exp=None):
    """decode_old(encode_new(v2)) == pi(v2).  Returns None or (kind, detail, enc)."""
    try:
        dec, _ = budget.run(_limit(len(enc)), ct_old.decode, enc)
    except budget.BudgetExceeded:
        return ('down-budget', 'BudgetExceeded', enc)
    except Exception as e:
        return ('down-decode-raised', errclass(e), enc)
    if exp is None:
        exp = V.pi(old, new, v2)
    if dec == exp:
        return None
    if not V.veq(old, exp, dec):
        return ('down-mismatch', 'expected %s observed %s' % (valrepr(exp)[:150], valrepr(dec)[:150]), enc)
    return None


def check_up(ct_new, new, v1, enc):
    """decode_new(encode_old(v1)) == v1 modulo DEFAULTs of the additions."""
    try:
        dec, _ = budget.run(_limit(len(enc)), ct_new.decode, enc)
    except budget.BudgetExceeded:
        return ('up-budget', 'BudgetExceeded', enc)
    except Exception as e:
        return ('up-decode-raised', errclass(e), enc)
    if dec == v1:
        return None
    if not V.veq(new, v1, dec):
        return ('up-mismatch', 'expected %s observed %s' % (valrepr(v1)[:150], valrepr(dec)[:150]), enc)
    return None


# ---------------------------------------------------------------------------
# work

VALIDATE_EVERY = 4      # every n-th unit compares the dictionary fast path with the real parser
MAXLIST = 20            # values holding a longer list are left to C01 (cost), see ASSUMPTIONS
CONFIRM_PER_SIG = 1


def _module(name, tags, types):
    return render_module(Module(name, types, tags=tags, values=[]))


def compile_terms(tags, types, codecs, res):
    """{codec: [compiled type | exception]} through the parsed-dictionary fast path
    (mc/c07_fast.py); a rejected module is bisected."""
    out = {}
    for c in codecs:
        slots = [None] * len(types)

        def rec(idx):
            try:
                spec = impl.asn1tools.compile_dict(fast.module_dict('M', tags, [types[i] for i in idx]), c)
            except Exception as e:
                if len(idx) == 1:
                    slots[idx[0]] = e
                    res.count('types_rejected_by_compiler')
                    res.outcome('compile-rejected:%s:%s' % (c, errclass(e)[:50]))
                    return
                h = len(idx) // 2
                rec(idx[:h])
                rec(idx[h:])
            else:
                for i in idx:
                    slots[i] = spec.types[types[i][0]]
        if types:
            rec(list(range(len(types))))
        out[c] = slots
    return out


def validate_sample(unit, otypes, ntypes, res):
    k = unit.vidx // VALIDATE_EVERY
    sample = [otypes[k % len(otypes)], ntypes[k % len(ntypes)], ntypes[(k * 7 + 3) % len(ntypes)]]
    sample = list(dict(sample).items())
    d = fast.validate(_module('M', unit.tags, sample), fast.module_dict('M', unit.tags, sample), impl.parse)
    res.count('fast_path_types_validated_against_parser', len(sample))
    if d:
        raise RuntimeError('c07_fast disagrees with the parser in unit %s: %s' % (unit.label, d))


def build(unit):
    """Generate the pairs of a unit. Returns (olds, news, pairs) where olds / news
    are lists of (legal wrapped term, raw wrapped term) and
    pairs = [(old index, new index, g, ops, base label)]."""
    olds, news, pairs = [], [], []
    oidx, nidx = {}, {}
    auto = unit.tags == 'AUTOMATIC'
    for v0, lab, reduced in unit.bases:
        for new_raw, g, ops in version_pairs(v0, unit.S, reduced, unit.reduced2, auto):
            newL = legalize(wrap(new_raw), {}, unit.tags)
            old_raw = V.strip(new_raw, g)
            oldL = V.retag(wrap(old_raw), newL)
            if newL not in nidx:
                nidx[newL] = len(news)
                news.append((newL, wrap(new_raw)))
            if oldL not in oidx:
                oidx[oldL] = len(olds)
                olds.append((oldL, wrap(old_raw)))
            pairs.append((oidx[oldL], nidx[newL], g, ops, lab))
    return olds, news, pairs


def _maxlist(v):
    if isinstance(v, list):
        return max([len(v)] + [_maxlist(x) for x in v[:3]])
    if isinstance(v, dict):
        return max([0] + [_maxlist(x) for x in v.values()])
    if isinstance(v, tuple) and len(v) == 2 and isinstance(v[0], str):
        return _maxlist(v[1])
    return 0


BIG_OCTETS = bytes([0x5a]) * 16384      # an addition whose open-type / length prefix needs the >= 16K form
MAX_BIG = 2


def big_variants(t, v):
    """Variants of value v of term t in which one unconstrained OCTET STRING
    component holds 16384 octets (dom(..., big=False) stops at 257)."""
    t = V._bare(t)
    if isinstance(t, Leaf):
        if t.kind == 'OCTETSTRING' and t.size is None:
            yield BIG_OCTETS
    elif isinstance(t, Seq):
        for m in all_members(t):
            if m.name in v:
                for x in big_variants(m.t, v[m.name]):
                    yield dict(v, **{m.name: x})
    elif isinstance(t, Cho):
        for m in all_members(t):
            if m.name == v[0]:
                base = v[1]
            else:
                d = dom(m.t, {}, big=False)
                if not d:
                    continue
                base = d[0]
            for x in big_variants(m.t, base):
                yield (m.name, x)
    elif isinstance(t, Of):
        if v:
            for x in big_variants(t.elem, v[0]):
                yield [x] + v[1:]


def values_of(x):
    d = dom(x, {}, big=False)
    if not d:
        return []
    d = [v for v in d if _maxlist(v) <= MAXLIST]
    if not d:
        return []
    out = [{'head': HEAD, 'x': v, 'tail': TAIL} for v in d]
    out.append({'head': False, 'x': d[0], 'tail': 0})
    for i, v in enumerate(big_variants(x, d[0])):
        if i >= MAX_BIG:
            break
        out.append({'head': HEAD, 'x': v, 'tail': TAIL})
    return out


class Side:
    """One version side of a unit: terms, compiled types, values, own encodings."""

    def __init__(self, terms, compiled, res):
        self.terms = terms
        self.compiled = compiled
        self.res = res
        self.vals = {}
        self.encs = {}

    def values(self, i):
        if i not in self.vals:
            self.vals[i] = values_of(self.terms[i][0].root[1].t)
            self.res.count('values', len(self.vals[i]))
        return self.vals[i]

    def own(self, i, codec):
        """[bytes | None] aligned with values(i); None when the value fails its own-version round trip."""
        key = (i, codec)
        if key not in self.encs:
            ct = self.compiled[codec][i]
            term = self.terms[i][0]
            lst = []
            for v in self.values(i):
                why = []
                e = encode_own(ct, term, v, why)
                if e is None:
                    self.res.count('values_failing_own_round_trip')
                    self.res.outcome('own-version-round-trip-fails(out of scope):%s:%s' % (codec, why[0]))
                lst.append(e)
            self.encs[key] = lst
        return self.encs[key]


def work(unit):
    import time
    t0 = time.process_time()
    res = _work(unit)
    res.count('cpu_ms', int(1000 * (time.process_time() - t0)))
    return res


def _work(unit):
    res = Result()
    olds, news, pairs = build(unit)
    if not pairs:
        return res
    otypes = [('O%d' % i, t) for i, (t, _) in enumerate(olds)]
    ntypes = [('N%d' % i, t) for i, (t, _) in enumerate(news)]
    if unit.vidx % VALIDATE_EVERY == 0:
        validate_sample(unit, otypes, ntypes, res)
    co = compile_terms(unit.tags, otypes, CODECS, res)
    cn = compile_terms(unit.tags, ntypes, CODECS, res)
    res.count('base_terms', len(unit.bases))
    res.count('old_terms', len(olds))
    res.count('new_terms', len(news))
    res.count('pairs', len(pairs))
    res.count('steps_applied', sum(len(ops) for _, _, _, ops, _ in pairs))
    for t, _ in olds:
        res.states.add(hash((unit.tags, 'o', t)))
    for t, _ in news:
        res.states.add(hash((unit.tags, 'n', t)))
    so = Side(olds, co, res)
    sn = Side(news, cn, res)
    confirmed = {}

    for oi, ni, g, ops, lab in pairs:
        oldL, newL = olds[oi][0], news[ni][0]
        if len(res.samples) < 2:
            res.samples.append({'old': render_type(oldL)[:300], 'new': render_type(newL)[:300], 'tags': unit.tags,
                                'steps': [list(p) + [op] for p, op in ops], 'generation': g})
        v2s, v1s = sn.values(ni), so.values(oi)
        exp2 = [None] * len(v2s)      # projections, computed on demand
        for codec in CODECS:
            ct_old, ct_new = co[codec][oi], cn[codec][ni]
            if isinstance(ct_old, BaseException) or isinstance(ct_new, BaseException):
                res.count('pairs_skipped_compile')
                continue
            for direction in ('down', 'up'):
                if direction == 'down':
                    vals, encs = v2s, sn.own(ni, codec)
                else:
                    vals, encs = v1s, so.own(oi, codec)
                nok = 0
                for j, enc in enumerate(encs):
                    if enc is None:
                        continue
                    v = vals[j]
                    if direction == 'down':
                        if exp2[j] is None:
                            exp2[j] = (V.pi(oldL, newL, v),)
                        r = check_down(ct_old, oldL, newL, v, enc, exp2[j][0])
                    else:
                        r = check_up(ct_new, newL, v, enc)
                    if r is None:
                        nok += 1
                        continue
                    kind, detail, e = r
                    # group by root cause: what the older version does not know, not where it sits
                    sig = '|'.join([kind, codec, unit.tags if codec in ('ber', 'der') else '',
                                    _unknown_class(oldL, newL, v) if direction == 'down' else opclass(ops[g - 1:]),
                                    '16k' if _has_big(v) else '',
                                    detail if 'raised' in kind or 'budget' in kind else ''])
                    res.outcome(kind + ':' + codec)
                    if confirmed.get(sig, 0) >= CONFIRM_PER_SIG:
                        # the same root-cause class is already recorded (and confirmed) in this unit
                        res.count('failures_same_signature_not_recorded')
                        continue
                    confirmed[sig] = confirmed.get(sig, 0) + 1
                    term = news[ni][1]
                    f = new_failure(
                        ID, kind, sig, codec=codec, numeric=False, detail=detail, direction=direction,
                        gen=g, steps_key='%d:%s' % (g, direction),
                        ops=[list(p) + [op] for p, op in ops],
                        encoded=e.hex()[:400] if e is not None else None,
                        size=len(render_type(term)) + len(valrepr(v)),
                        **case_fields(unit, 'N%d' % ni, term, v))
                    confirm_from_text(f)
                    res.count('failures_confirmed_from_text')
                    res.failures.append(f)
                res.count('evaluations', sum(1 for x in encs if x is not None))
                if nok:
                    res.outcome('ok:%s:%s' % (direction, codec), nok)
    return res


def confirm_from_text(f):
    """A failure seen through the fast path must reproduce from the rendered text."""
    unit, name, term, v = rebuild_case(f)
    r = run_case_text(f, unit, name, term, v)
    if r is None or r[0] != f['kind']:
        raise RuntimeError('fast path and text pipeline disagree on %s (%s)' % (f['sig'], f['term'][:200]))


def _has_big(v):
    if isinstance(v, (bytes, bytearray)):
        return len(v) >= 16000
    if isinstance(v, dict):
        return any(_has_big(x) for x in v.values())
    if isinstance(v, (list, tuple)):
        return any(_has_big(x) for x in v[:4])
    return False


def _node_at(t, path):
    for p, n in V.nodes(t):
        if p == path:
            return n
    return None


def _unknown_class(old, new, v):
    """Which unknown things (and in which context) the value holds for the older version: groups
    failures by cause.  e.g. 'item@element', 'comp@member', 'alt@member'."""
    from ..kp_c07 import unknown_sites
    try:
        sites = unknown_sites(old, new, v)
    except Exception:
        return '?'
    out = {'%s@%s' % s for s in sites}
    if not out and _has_wide(new):
        out.add('range')
    return ','.join(sorted(out))


def _has_wide(t):
    return any(isinstance(getattr(n, 'rng', None), V.WRng) or isinstance(getattr(n, 'size', None), V.WRng)
               for _, n in V.nodes(t))


# ---------------------------------------------------------------------------
# single case: shrinking and replay

def pair_specs(unit, term, g):
    """(old legal term, new legal term, old spec text, new spec text) for the case `term` (raw new term)."""
    newL = unit.tops[0][1]
    old_raw = V.strip(term, g)
    if old_raw == term:
        return None
    oldL = V.retag(old_raw, newL)
    return oldL, newL, _module('M', unit.tags, [('T0', oldL)]), _module('M', unit.tags, [('T0', newL)])


def run_case(failure, unit, name, term, v, text=False):
    """Re-run one case.  text=True goes through the rendered module text and the real parser (replay,
    confirmation); text=False hands compile_dict the equivalent dictionary (shrinking steps)."""
    ps = pair_specs(unit, term, failure['gen'])
    if ps is None:
        return None
    oldL, newL, so, sn = ps
    codec = failure['codec']
    try:
        if text:
            ct_old = impl.compile_text(so, codec).types['T0']
            ct_new = impl.compile_text(sn, codec).types['T0']
        else:
            ct_old = impl.asn1tools.compile_dict(fast.module_dict('M', unit.tags, [('T0', oldL)]), codec).types['T0']
            ct_new = impl.asn1tools.compile_dict(fast.module_dict('M', unit.tags, [('T0', newL)]), codec).types['T0']
    except NotImplementedError:
        if text:
            raise
        return run_case(failure, unit, name, term, v, text=True)
    except Exception:
        return None
    if failure['direction'] == 'down':
        enc = encode_own(ct_new, newL, v)
        if enc is None:
            return None
        return check_down(ct_old, oldL, newL, v, enc)
    enc = encode_own(ct_old, oldL, v)
    if enc is None:
        return None
    return check_up(ct_new, newL, v, enc)


def run_case_text(failure, unit, name, term, v):
    return run_case(failure, unit, name, term, v, text=True)


def _same(failure, r):
    if 'raised' in failure['kind']:
        return r[1] == failure['detail']
    return True


def shrink(failure):
    out = shrinker.shrink_failure(failure, run_case, _same)
    unit, name, term, v = rebuild_case(out)
    r = run_case_text(out, unit, name, term, v)
    if r is None or r[0] != out['kind']:
        raise RuntimeError('shrunk case does not reproduce from the rendered text: %s' % out.get('term'))
    try:
        ps = pair_specs(unit, term, out['gen'])
        if ps is not None:
            out['spec_old'], out['spec_new'] = ps[2], ps[3]
            out['term_old'] = render_type(ps[0])
            out['spec'] = 'OLD:\n' + ps[2] + 'NEW:\n' + ps[3]
            if out['direction'] == 'down':
                out['expected'] = valrepr(V.pi(ps[0], ps[1], v))
            else:
                out['expected'] = valrepr(v)
    except Exception:
        pass
    return out


def replay(case):
    unit, name, term, v = rebuild_case(case)
    r = run_case_text(case, unit, name, term, v)
    if r is None:
        return None
    return {'kind': r[0], 'detail': r[1], 'encoded': r[2].hex() if r[2] is not None else None}


def coverage(stats, tier):
    ev = stats.get('evaluations', 0)
    return {
        'states': stats.get('old_terms', 0) + stats.get('new_terms', 0) + stats.get('values', 0),
        'transitions': stats.get('steps_applied', 0),
        'traces_validated_against_impl': ev,
        'evaluations': ev,
        'distinct_nontrivial': ev,
        'rule': 'states = distinct (tag environment, legal wrapped type term) for old and new versions + values enumerated '
                'for them; transitions = extension steps applied along the generated version paths (one per pair and step); '
                'a trace = one cross-version decode (new bytes under the old specification, or old bytes under the new one) '
                'compared with the projection pi; every trace is non-trivial in that the value passed its own-version '
                'round trip first',
        'exhaustive': DEV_STRIDE == 1,
    }
