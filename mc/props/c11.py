"""C11 check_constraints accepts exactly the values the declared constraints admit.

Space: every constrained leaf of the L0 alphabet at top level, in every L0c
context, through a type reference; constraints applied to a reference; every
constrained position of every L1 / L2 / family term  x  boundary candidates at
that position (bound-1, bound, bound+1, far; lengths likewise; characters just
inside / outside FROM)  x  8 codecs (encode path) / 7 codecs (decode path).
Oracle: mc.ref_constraints.verdict.
"""

import re
import base64
import pickle

from .. import impl, space, budget
from .. import alphabet as A
from ..runner import Result, new_failure
from ..terms import Leaf, Seq, Cho, Of, Ref, Tag, M, Rng, MIN, MAX, render_type
from ..casefmt import vclass, errclass, valrepr
from ..cterms import CRef, cref, layers, make_cunit, single_cunit, referenced
from ..ref_constraints import verdict, violations, leaf_candidates, lengths_for, INSIDE, OUTSIDE, NA
from ..ref_paths import positions, substitute, cover_values, get_at
from .. import shrink as shrinker

ID = 'C11'
LEVEL = 'model_checking'
CODECS = impl.ALL_CODECS
DECODERS = impl.BINARY + impl.TEXT
ASSUMPTIONS = [
    'Constraints interpreted: single value / single range on INTEGER, SIZE on strings, BIT STRING, OCTET STRING, '
    'SEQUENCE OF and SET OF, FROM on restricted strings; serially applied constraints (type reference plus '
    'constraint) intersect; an extensible constraint admits every value.',
    'Unasserted (verdict na, both behaviours accepted): characters outside the built-in repertoire of NumericString / '
    'PrintableString / IA5String / VisibleString / BMPString (the property only speaks of constraints the specification '
    'states); named-bit BIT STRING values whose bit count differs from the SIZE only by trailing zero bits (X.680 22.7); '
    'values that are not well-formed values of the type.',
    'A value range applied to a reference is only generated as a subset of the referenced type\'s range (a wider one '
    'is not legal ASN.1); SIZE applied to a reference is generated both narrower and wider than the referenced SIZE.',
    'Decode path: asserted on the value the bytes really carry (decode with checks off); an out-of-range value whose '
    'unchecked encoding fails or decodes to something else is counted as not representable.',
    'Inside constructors (L1/L2) members come from the reduced alphabet Sigma_r; each position is varied alone, the '
    'other components keep a valid base value. Lists longer than 300 elements only for BOOLEAN (thorough: and INTEGER) elements, at top level.',
    'numeric_enums is not varied (ENUMERATED carries no interpreted constraint).',
]

C0, C1 = 30000, 400


def bounds(tier):
    return {'tier': tier,
            'leaf_layers': 'every constrained Sigma_leaf shape: top level, 13 L0c contexts, through a reference (top and member)',
            'cref': 'constraint applied to a reference: 30 shapes x 8 contexts',
            'composite': 'L0c EXPLICIT; L1(W2,K2) AUTOMATIC; L2, families in 2 environments' if tier == 'quick'
            else 'L0c in 5 environments; L1(W3,K2) in 2; L2, families in 5',
            'lengths': 'lengths above 300 only for a leaf at top level (L0) and for top-level lists of BOOLEAN (thorough: and INTEGER)',
            'recursion_unrollings': 3, 'codecs_encode': list(CODECS), 'codecs_decode': list(DECODERS)}


# ---------------------------------------------------------------------------
# the program space

def constrained(l):
    return l.rng is not None or l.size is not None or l.alpha is not None


R = Rng

CREF_HELPERS = {
    'I0': Leaf('INTEGER'),
    'I10': Leaf('INTEGER', rng=R(0, 10)),
    'IE': Leaf('INTEGER', rng=R(0, 10, ext=True)),
    'IN': Leaf('INTEGER', named=(('one', 1), ('ten', 10))),
    'O0': Leaf('OCTETSTRING'),
    'O24': Leaf('OCTETSTRING', size=R(2, 4)),
    'OE': Leaf('OCTETSTRING', size=R(2, 4, ext=True)),
    'B0': Leaf('BITSTRING'),
    'B48': Leaf('BITSTRING', size=R(4, 8)),
    'S0': Leaf('IA5String'),
    'SF': Leaf('IA5String', alpha='ab'),
    'SS': Leaf('IA5String', size=R(1, 3)),
    'U0': Leaf('UTF8String'),
    'N0': Leaf('NumericString'),
    'L0': Of(Leaf('BOOLEAN')),
    'L12': Of(Leaf('BOOLEAN'), size=R(1, 2)),
    'LS': Of(Leaf('INTEGER', rng=R(0, 7)), is_set=True),
}
CREF_HELPERS['C1'] = cref('I0', rng=R(0, 5))
CREF_HELPERS['C2'] = cref('O0', size=R(1, 2))


def cref_shapes():
    return [
        cref('I0', rng=R(0, 5)), cref('I0', rng=R(MIN, 5)), cref('I0', rng=R(-3, MAX)),
        cref('I0', rng=R(0, 5, ext=True)), cref('I0', rng=R(5, 5, single=True)),
        cref('I0', rng=R(2, 4, lb_sym='vTwo', ub_sym='vFour')),
        cref('I0', rng=R(0, 5, ub_sym='inf')), cref('I0', rng=R(5, 9, lb_sym='nan')),
        cref('I10', rng=R(2, 5)), cref('I10', rng=R(10, 10, single=True)), cref('IE', rng=R(2, 5)),
        cref('IN', rng=R(1, 10, lb_sym='one', ub_sym='ten')),
        cref('C1', rng=R(2, 3)), Ref('C1'),
        cref('O0', size=R(1, 2)), cref('O0', size=R(1, 2, ext=True)), cref('O24', size=R(3, 3, single=True)),
        cref('O24', size=R(0, 10)), cref('O24', size=R(0, 10, ext=True)), cref('OE', size=R(0, 10)),
        cref('C2', size=R(2, 2, single=True)), Ref('C2'),
        cref('B0', size=R(1, 2)), cref('B48', size=R(0, 16)),
        cref('S0', size=R(1, 2)), cref('S0', alpha='ab'), cref('SF', size=R(1, 2)), cref('SS', alpha='ab'),
        cref('SS', size=R(2, 2, single=True)), cref('U0', size=R(1, 2)), cref('N0', alpha='01'),
        cref('L0', size=R(1, 2)), cref('L12', size=R(0, 5)), cref('L12', size=R(2, 2, single=True)),
        cref('LS', size=R(1, 1, single=True)),
    ]


B = Leaf('BOOLEAN')


def cref_contexts(x):
    return [
        ('top', x),
        ('seq', Seq((M('pad', B), M('x', x), M('tail', B)))),
        ('seq-opt', Seq((M('pad', B), M('x', x, 'O')))),
        ('of', Of(x)),
        ('of-sized', Of(x, size=R(1, 2))),
        ('cho', Cho((M('p', B), M('x', x)))),
        ('seq-add', Seq((M('pad', B),), ext=True, adds=(M('x', x),))),
        ('expl', Seq((M('pad', B), M('x', Tag(5, x, mode='EXPLICIT'))))),
        ('impl', Seq((M('pad', B), M('x', Tag(5, x, mode='IMPLICIT'))))),
    ]


def leaf_units(thorough, envs):
    leaves = [l for l in A.sigma_leaf(thorough) if constrained(l)]
    out = []
    # top level + through a reference (one environment: tagging does not enter the constraint checker)
    for bi, chunk in enumerate(space.batches(leaves, 40)):
        helpers = {'H%d' % i: l for i, l in enumerate(chunk)}
        tops = []
        for i, l in enumerate(chunk):
            txt = render_type(l)
            tops.append((l, 'L0:' + txt))
            tops.append((Ref('H%d' % i), 'L0ref:' + txt))
            tops.append((Seq((M('a', Ref('H%d' % i)), M('b', Ref('H%d' % i), 'O'))), 'L0refm:' + txt))
        out.append(make_cunit('C11/L0/%d' % bi, tops, helpers=helpers))
    for tags, ei in envs:
        tops = []
        for l in leaves:
            for ctx, term in A.contexts(l, space.default_for(l)):
                tops.append((term, 'L0c:%s:%s' % (ctx, render_type(l))))
        for bi, chunk in enumerate(space.batches(tops, 60)):
            out.append(make_cunit('C11/L0c/%s%s/%d' % (tags, '+EI' if ei else '', bi), chunk, tags=tags, ext_implied=ei))
    return out


def cref_units():
    tops = []
    for x in cref_shapes():
        for ctx, term in cref_contexts(x):
            tops.append((term, 'CR:%s:%s' % (ctx, x.name)))
    out = []
    for bi, chunk in enumerate(space.batches(tops, 60)):
        out.append(make_cunit('C11/cref/%d' % bi, chunk, helpers=CREF_HELPERS, tags='AUTOMATIC'))
    return out


def units(tier):
    thorough = tier == 'thorough'
    out = []
    out += cref_units()
    if thorough:
        out += leaf_units(True, space.ENVS_ALL)
        out += space.l1_units(3, 2, envs=space.ENVS_QUICK)
        out += space.l2_units(True, envs=space.ENVS_ALL)
        out += space.family_units(envs=space.ENVS_ALL)
    else:
        # the tagging environment does not enter the constraint checker; it only varies
        # the encodings seen by the decode path
        out += leaf_units(False, (('EXPLICIT', False),))
        out += space.l1_units(2, 2, envs=(('AUTOMATIC', False),))
        out += space.l2_units(False, envs=space.ENVS_QUICK)
        out += space.family_units(envs=space.ENVS_QUICK)
    return out


def setup(tier):
    from .. import values
    values.set_tier(tier)
    TIER[0] = tier


# ---------------------------------------------------------------------------
# candidates

TIER = ['quick']


def _cheap(t, env):
    s, _ = layers(t, env)
    kinds = ('BOOLEAN', 'INTEGER') if TIER[0] == 'thorough' else ('BOOLEAN',)
    return isinstance(s, Leaf) and s.kind in kinds


def candidates_at(pos, env, top_level):
    """Boundary candidates for the component at `pos`: [(value, note)]."""
    s, ls = layers(pos.term, env)
    if not ls:
        return []
    if isinstance(s, Leaf):
        return leaf_candidates(s, ls, big=top_level)
    if isinstance(s, Of):
        elems = cover_values(s.elem, env, depth=1)
        if not elems:
            return [([], 'len')] if True else []
        out = []
        for n in lengths_for(ls, big=top_level):
            if n > 300 and not _cheap(s.elem, env):
                continue
            out.append(([elems[i % len(elems)] for i in range(n)], 'len'))
        return out
    return []


def _sizeof(v):
    if isinstance(v, (bytes, bytearray, str)):
        return len(v)
    if isinstance(v, (list, tuple)):
        return 1 + sum(_sizeof(x) for x in v)
    if isinstance(v, dict):
        return 1 + sum(_sizeof(x) for x in v.values())
    return 1


def _nopath(detail):
    """'ConstraintsError: T.x: Expected ...' -> 'ConstraintsError: Expected ...'"""
    return re.sub(r'^(\w+): \S+: ', r'\1: ', detail)


def culprit(term, v, env, pos, ls):
    """Position (and its layers) of the first violated constraint of v."""
    viol = [st for st, w in violations(term, v, env) if not isinstance(w, str)]
    if viol:
        for p in positions(term, v, env, max_list=10**6):
            if p.steps == viol[0]:
                return p, layers(p.term, env)[1]
    return pos, ls


def layer_summary(ls):
    out = []
    for l in ls:
        if l.what == 'alpha':
            out.append('%s:from:%d' % (l.where, len(l.alpha)))
        else:
            out.append('%s:%s:%s' % (l.where, l.what, l.rng.text()))
    return ' & '.join(out)


# ---------------------------------------------------------------------------
# the oracle on one (type, value, codec)

def check_value(spec, codec, name, term, env, v, verd, res=None):
    """Returns list of (kind, detail, enc, decoded value | None).  verd = verdict(term, v, env)."""
    CE = impl.asn1tools.ConstraintsError
    out = []
    limit = C0 + C1 * _sizeof(v)
    enc = None
    raised = None
    try:
        enc, _ = budget.run(limit, spec.encode, name, v, check_constraints=True)
    except budget.BudgetExceeded:
        raised = 'budget'
    except CE as e:
        raised = e
    except Exception as e:
        raised = e
    is_ce = isinstance(raised, CE)
    if res is not None:
        res.count('evaluations')
        res.count('encode_path_cases')
        res.outcome('enc:%s:%s' % (verd, 'ConstraintsError' if is_ce else 'bytes' if enc is not None
                                   else 'other-error'))
    if verd == OUTSIDE:
        if enc is not None:
            out.append(('outside-value-encoded', 'bytes returned', bytes(enc), None))
        elif not is_ce:
            out.append(('outside-value-other-error', errclass(raised) if raised != 'budget' else 'BudgetExceeded', None, None))
    elif verd == INSIDE:
        if is_ce:
            out.append(('inside-value-rejected', errclass(raised), None, None))
    if codec not in DECODERS:
        return out
    # ---- decode path -----------------------------------------------------------
    if enc is None:
        try:
            enc, _ = budget.run(limit, spec.encode, name, v, check_constraints=False)
        except budget.BudgetExceeded:
            enc = None
        except Exception:
            enc = None
        if enc is None:
            if res is not None and verd == OUTSIDE:
                res.count('decode_not_representable')
                res.count('decode_not_representable:encoder-refuses')
            return out
    enc = bytes(enc)
    dlimit = C0 + C1 * (len(enc) + 1) + 200 * _sizeof(v)
    d = None
    dr = None
    try:
        d, _ = budget.run(dlimit, spec.decode, name, enc, check_constraints=True)
    except budget.BudgetExceeded:
        dr = 'budget'
    except Exception as e:
        dr = e
    if isinstance(dr, CE):
        try:
            d, _ = budget.run(dlimit, spec.decode, name, enc)
        except budget.BudgetExceeded:
            d = None
        except Exception:
            d = None
        if d is None:
            return out
        vd = verdict(term, d, env)
        if res is not None:
            res.count('evaluations')
            res.count('decode_path_cases')
            res.outcome('dec:%s:ConstraintsError' % vd)
        if vd == INSIDE:
            out.append(('decode-rejects-inside-value', errclass(dr), enc, d))
        elif verd == OUTSIDE and vd != OUTSIDE and res is not None:
            res.count('decode_not_representable')
    elif dr is None:
        vd = verdict(term, d, env)
        if res is not None:
            res.count('evaluations')
            res.count('decode_path_cases')
            res.outcome('dec:%s:value' % vd)
        if vd == OUTSIDE:
            out.append(('decode-accepts-outside-value', valrepr(d)[:120], enc, d))
        elif verd == OUTSIDE and res is not None:
            res.count('decode_not_representable')
            res.count('decode_not_representable:bytes-carry-another-value')
    else:
        if res is not None and verd == OUTSIDE:
            res.count('decode_not_representable')
            res.count('decode_not_representable:decoder-refuses')
    return out


def blob_of(unit, name, term, v):
    return base64.b64encode(pickle.dumps((referenced(term, unit.env), unit.tags, unit.ext_implied,
                                          name, term, v))).decode()


def rebuild(f):
    env, tags, ei, name, term, v = pickle.loads(base64.b64decode(f['blob']))
    unit = single_cunit(term, env, tags, ei)
    return unit, 'T0', term, v


def work(unit):
    res = Result()
    compiled = impl.compile_tops(unit, CODECS, (False,))
    for i, (name, term, lab) in enumerate(unit.tops):
        res.count('types')
        res.states.add(hash((unit.tags, unit.ext_implied, term)))
        specs = {}
        for codec in CODECS:
            c = compiled[(False, codec)][i]
            if isinstance(c, BaseException):
                res.count('types_rejected_by_compiler')
                res.outcome('compile-rejected:%s:%s' % (codec, errclass(c)[:60]))
                continue
            specs[codec] = c
        if not specs:
            continue
        bases = cover_values(term, unit.env, depth=3)
        if not bases:
            res.count('types_without_values')
            continue
        top_leafish = lab.startswith(('L0:', 'CR:top'))
        seen = set()
        cases = []
        for base in bases:
            for pos in positions(term, base, unit.env):
                s, ls = layers(pos.term, unit.env)
                if not ls:
                    continue
                res.count('constrained_positions')
                for cand, note in candidates_at(pos, unit.env, (top_leafish or lab in ('L1', 'L2')) and not pos.steps):
                    v = substitute(base, pos.steps, cand)
                    key = repr(v)
                    if key in seen:
                        continue
                    seen.add(key)
                    cases.append((v, pos, ls, note))
        res.count('values', len(cases))
        for v, pos, ls, note in cases:
            verd = verdict(term, v, unit.env)
            res.count('verdict_' + verd)
            res.states.add(hash((unit.tags, unit.ext_implied, term, repr(v))))
            if len(res.samples) < 2 and verd == OUTSIDE:
                res.samples.append({'type': render_type(term, unit.env)[:200], 'value': valrepr(v)[:100],
                                    'model': verd, 'position': '.'.join((name,) + pos.names),
                                    'constraints': layer_summary(ls)})
            if verd == NA:
                continue
            recorded = set()
            cul = None
            for codec, (spec, tname) in specs.items():
                for kind, detail, enc, dec in check_value(spec, codec, tname, term, unit.env, v, verd, res):
                    res.outcome(kind + ':' + codec)
                    if kind in recorded:
                        # check_constraints is codec-independent: same root cause as the recorded one
                        res.count('failures_same_value_other_codec')
                        continue
                    recorded.add(kind)
                    if kind == 'decode-accepts-outside-value':
                        cpos, cls = culprit(term, dec, unit.env, pos, ls)
                    elif 'outside' in kind:
                        if cul is None:
                            cul = culprit(term, v, unit.env, pos, ls)
                        cpos, cls = cul
                    else:
                        cpos, cls = pos, ls
                    where = 'top' if not cpos.steps else cpos.via[-1][-1].split(':')[0]
                    cause = layer_summary(cls) if 'outside' in kind else _nopath(detail)
                    sig = '|'.join([kind, cause, where])
                    res.failures.append(new_failure(
                        ID, kind, sig, codec=codec, numeric=False, detail=detail,
                        encoded=enc.hex()[:200] if enc is not None else None, model=verd,
                        position='.'.join((name,) + cpos.names), constraints=layer_summary(cls), where=where, cause=cause,
                        size=len(render_type(term, unit.env)) + len(valrepr(v)),
                        layer=lab.split(':')[0], label=lab[:120],
                        spec=None, type=name, term=render_type(term, unit.env), value=valrepr(v)[:2000],
                        tags=unit.tags, ext_implied=unit.ext_implied, blob=blob_of(unit, name, term, v)))
    return res


def coverage(stats, tier):
    ev = stats.get('evaluations', 0)
    return {
        'states': stats.get('types', 0) + stats.get('values', 0),
        'transitions': stats.get('encode_path_cases', 0) + stats.get('decode_path_cases', 0),
        'traces_validated_against_impl': ev,
        'evaluations': ev,
        'distinct_nontrivial': ev,
        'decode_path_not_representable': stats.get('decode_not_representable', 0),
        'rule': 'states = type terms + distinct (term, candidate value) pairs; a transition is one encode-path case '
                '(spec.encode with check_constraints=True compared with the model verdict) or one decode-path case '
                '(bytes decoded with check_constraints=True compared with the model verdict of the value the bytes '
                'carry); every case is compared with the implementation; cases with verdict na are not counted',
        'exhaustive': True,
    }


# ---------------------------------------------------------------------------
# shrinking / replay

def run_case(failure, unit, name, term, v):
    try:
        spec = impl.compile_parsed(unit.spec, [failure['codec']], False)[failure['codec']]
    except Exception:
        return None
    verd = verdict(term, v, unit.env)
    if verd == NA:
        return None
    for kind, detail, enc, dec in check_value(spec, failure['codec'], name, term, unit.env, v, verd):
        if kind == failure['kind']:
            if 'outside' in kind:
                judged = dec if kind.startswith('decode') else v
                cause = layer_summary(culprit(term, judged, unit.env, None, [])[1])
            else:
                cause = _nopath(detail)
            if failure.get('cause') is not None and cause != failure['cause']:
                continue
            return (kind, detail, enc, dec)
    return None


def shrink(failure):
    unit, name, term, v = rebuild(failure)
    env, tags, ei = unit.env, unit.tags, unit.ext_implied
    tests = [0]
    last = [None]

    def fails(t2, v2):
        if tests[0] >= 150:
            return False
        tests[0] += 1
        try:
            u = single_cunit(t2, env, tags, ei)
            r = run_case(failure, u, 'T0', t2, v2)
        except Exception:
            return False
        if r is not None:
            last[0] = r
            return True
        return False

    progress = True
    while progress and tests[0] < 150:
        progress = False
        for t2, v2 in shrinker.projections(term, v, env):
            if isinstance(term, CRef):
                break
            if fails(t2, v2):
                term, v, progress = t2, v2, True
                break
        if progress:
            continue
        seen = set()
        for t2, v2 in shrinker.deep_rewrites(term, v, env):
            key = (t2, repr(v2))
            if key in seen or (t2 == term and repr(v2) == repr(v)):
                continue
            seen.add(key)
            if fails(t2, v2):
                term, v, progress = t2, v2, True
                break
    out = dict(failure)
    u = single_cunit(term, env, tags, ei)
    out.update({'spec': u.spec, 'type': 'T0', 'term': render_type(term, u.env), 'value': valrepr(v)[:2000],
                'blob': blob_of(u, 'T0', term, v), 'shrunk_tests': tests[0]})
    if last[0] is not None:
        out['detail'] = last[0][1]
        out['encoded'] = last[0][2].hex()[:200] if last[0][2] is not None else None
    judged = last[0][3] if last[0] is not None and last[0][3] is not None else v
    if last[0] is None and failure['kind'].startswith('decode'):
        r0 = run_case(failure, u, 'T0', term, v)
        if r0 is not None and r0[3] is not None:
            judged = r0[3]
    viol = violations(term, judged, u.env)
    out['violated'] = [layer_summary([w]) for _, w in viol if not isinstance(w, str)]
    out['judged_value'] = valrepr(judged)[:500]
    out['_judged'] = judged
    out['_term'] = term
    out['_value'] = v
    out['_env'] = u.env
    return out


def replay(case):
    unit, name, term, v = rebuild(case)
    r = run_case(case, unit, name, term, v)
    if r is None:
        return None
    return {'kind': r[0], 'detail': r[1], 'encoded': r[2].hex() if r[2] is not None else None}
