"""C10 Generated OER C code is equivalent to the Python OER codec and memory-safe.

Space: C-subset terms (L0 leaves, every leaf in every container position, one
constructor over a reduced alphabet, pairs of constructors, references in and
across modules, counting thresholds) plus the just-outside terms; for every
accepted module: all values of small finite domains x all destination sizes x
all <= E-edit variants of every valid encoding x all inputs of <= 2 bytes; V1 decoder on V2 bytes (V2 = V1 plus one
trailing extension addition at one extensible SEQUENCE node).
Oracle: the Python OER codec (model), gcc -std=c99, ASan + UBSan.
The machinery is mc/ccheck.py (shared with C09).
"""

from .. import ccheck, calpha

ID = 'C10'
CODEC = 'oer'
LEVEL = 'model_checking'
CFG = ccheck.Cfg(ID, CODEC)
ASSUMPTIONS = ccheck.assumptions(CODEC)


def setup(tier):
    ccheck.set_tier(tier)


def bounds(tier):
    return ccheck.bounds(CODEC, tier)


def units(tier):
    ccheck.set_tier(tier)
    return ccheck.units(CODEC, tier)


def work(unit):
    return ccheck.work(CFG, unit)


def coverage(stats, tier):
    return ccheck.coverage(CODEC, stats, tier)


def shrink(failure):
    return ccheck.shrink(CFG, failure)


def replay(case):
    return ccheck.replay(CFG, case)


def attribute(failures):
    return ccheck.attribute(failures)
