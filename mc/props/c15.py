"""C15 BER/DER framing helpers agree with the decoder on where a message ends.

Space: (term, value) pairs built from L0 leaves and L1 constructors, bare and
wrapped in `[class n] IMPLICIT|EXPLICIT` with n in {0, 30, 31, 127, 128, 16383,
16384, 2^21, 2^28} (1..6 identifier octets) and class in {APPLICATION, context,
PRIVATE}; OCTET STRING / IA5String values with content lengths {0, 1, 127, 128,
255, 256, 65535, 65536, 70000} plus the lengths that put an EXPLICIT wrapper on
those boundaries; x tails {empty, 00, 0000, ff, the message again, another
message, 84ffffffff, 80}; x every prefix length k of msg + tail from the set
{0..header+4} u {2^i} u {all k if len <= 64} u {len-1, len, len+1 ..}; codec in
{ber, der}.

Oracle: decode_with_length(T, msg + tail) == (decode(T, msg), len(msg));
decode_length((msg + tail)[:k]) == len(msg) when k >= header length (computed by
the independent header model mc/tlv4.read_header), None when k is smaller;
never another number, never an exception.
"""

from .. import impl, space, budget, tlv4
from ..runner import Result, new_failure
from ..terms import Leaf, Rng, Seq, Cho, Of, Ref, Tag, M, Grp, render_type
from ..values import dom
from ..casefmt import errclass, valrepr, case_fields, rebuild_case
from .. import shrink as shrinker

ID = 'C15'
LEVEL = 'model_checking'
CODECS = ('ber', 'der')
CHUNK = 1
ASSUMPTIONS = [
    'Only messages the encoder produces (always definite length) and that decode on their own are judged; '
    'decode(msg) failing is C01\'s subject.',
    'Content lengths are reached with OCTET STRING / IA5String values (bare, tagged, and as a component of '
    'SEQUENCE / SET / CHOICE / SEQUENCE OF); the other leaf kinds contribute their first boundary values.',
    'Prefix lengths: all k <= header + 4, every power of two, k in {len-2, len-1, len} and every k when the message '
    'has <= 64 bytes; for msg + tail additionally every k in len .. len + min(len(tail), header + 6) and the whole.',
    'Step budget: 20000 + 2000 per call + 20 per byte handled.',
]

TAG_NUMS = [0, 30, 31, 127, 128, 16383, 16384, 2**21, 2**28]
CLASSES = ['APPLICATION', '', 'PRIVATE']
MODES = ['IMPLICIT', 'EXPLICIT']
LENS = [0, 1, 127, 128, 255, 256, 65535, 65536, 70000]
# lengths that make `wrapper { 04 len content }` land on the same boundaries
LENS_EXPL = [125, 126, 252, 253, 65531, 65532]
TAILS = [('empty', b''), ('00', b'\x00'), ('0000', b'\x00\x00'), ('ff', b'\xff'),
         ('long-length', bytes.fromhex('84ffffffff')), ('indef', b'\x80'), ('boolean-tlv', b'\x01\x01\xff'),
         ('self', None), ('other', None), ('last-child', None)]
B = Leaf('BOOLEAN')
INT = Leaf('INTEGER')
OCT = Leaf('OCTETSTRING')
IA5 = Leaf('IA5String')


def bounds(tier):
    return {'tier': tier, 'tag_numbers': TAG_NUMS, 'classes': ['APPLICATION', 'context', 'PRIVATE'],
            'modes': MODES, 'content_lengths': lens(tier), 'tails': [t for t, _ in TAILS], 'codecs': list(CODECS),
            'prefixes': 'k <= header+4, powers of two, len-2..len, all k for len <= 64, into the tail',
            'bases': [lab for lab, _, _ in bases(tier)]}


def lens(tier):
    return LENS + LENS_EXPL


def _oct(n):
    return bytes((i * 37 + 1) & 0xff for i in range(n))


def _ia5(n):
    return ''.join('ab~ A0'[i % 6] for i in range(n))


def bases(tier):
    """[(label, term, values)]"""
    ls = lens(tier)
    out = [('OCTETSTRING', OCT, [_oct(n) for n in ls] + [b'\x00' * 3, b'\x00' * 128]),
           ('IA5String', IA5, [_ia5(n) for n in ls])]
    for kind in ('BOOLEAN', 'INTEGER', 'NULL', 'REAL', 'OID', 'BITSTRING', 'UTF8String', 'BMPString',
                 'PrintableString', 'UTCTime', 'GeneralizedTime', 'DATE', 'TIME-OF-DAY', 'DATE-TIME'):
        l = Leaf(kind)
        vals = dom(l, {})
        pick = vals[:3] + vals[-1:]
        if kind == 'INTEGER':
            pick = [0, 127, 128, -129, 2**64, -2**70]
        if kind == 'BITSTRING':
            pick = [(b'', 0), (b'\x80', 1), (b'\xa5' * 16, 127), (b'\xa5' * 127, 1016), (b'\xa5' * 8192, 65536)]
        if kind == 'UTF8String':
            pick = ['', 'a', '€' * 43, 'a' * 128]
        out.append((kind, l, pick))
    out.append(('ENUMERATED', Leaf('ENUMERATED', enum=(('a', 0), ('b', 128), ('c', -70000))), ['a', 'b', 'c']))
    sv = [0, 1, 120, 121, 122, 127, 128, 250, 255, 256, 65535, 65536, 70000]
    out.append(('SEQ', Seq((M('a', INT), M('b', OCT), M('c', B, 'O'))),
                [{'a': 5, 'b': _oct(n)} for n in sv] + [{'a': 0, 'b': b'', 'c': True}]))
    out.append(('SEQ-ext', Seq((M('a', B),), ext=True, adds=(M('x', OCT, 'O'),)),
                [{'a': True}] + [{'a': True, 'x': _oct(n)} for n in (0, 122, 123, 65536)]))
    out.append(('SET', Seq((M('a', IA5), M('b', INT, 'D', default=7)), is_set=True),
                [{'a': _ia5(n), 'b': 7} for n in (0, 125, 126, 256)] + [{'a': 'x', 'b': 300}]))
    out.append(('CHO', Cho((M('a', B), M('b', OCT), M('c', Tag(40000, IA5)))),
                [('a', True)] + [('b', _oct(n)) for n in (0, 127, 128, 65536)] + [('c', _ia5(n)) for n in (0, 128)]))
    out.append(('SEQOF', Of(OCT), [[]] + [[_oct(n)] for n in (0, 125, 126, 65532)] + [[b'\x01'] * 43, [b''] * 64,
                                                                                     [b'\x01'] * 21846]))
    out.append(('SETOF', Of(B, is_set=True), [[], [True], [True] * 42, [False] * 43, [True] * 85, [True] * 86]))
    out.append(('EMPTYSEQ', Seq(()), [{}]))
    return out


def wrappers(tier):
    out = [('bare', lambda t: t)]
    for n in TAG_NUMS:
        for cls in CLASSES:
            for mode in MODES:
                out.append(('%s%d-%s' % ((cls or 'CONTEXT')[:3], n, mode[:4]),
                            (lambda t, n=n, cls=cls, mode=mode: Tag(n, t, cls=cls, mode=mode))))
    return out


class CUnit(object):
    def __init__(self, unit, values, tier, encode_as=None):
        self.unit = unit
        self.values = values     # per top: list of values
        self.tier = tier
        self.label = unit.label
        self.encode_as = encode_as or {}    # top index -> index of the top whose encoder makes the message


def version_pairs():
    """(label, V1 term, V2 term, V2 values): V2 messages are valid encodings of the extensible V1."""
    out = []
    v1 = Seq((M('a', B),), ext=True)
    v2 = Seq((M('a', B),), ext=True, adds=(M('x', OCT, 'O'), M('y', INT, 'O')))
    vals = [{'a': True}, {'a': True, 'x': b''}, {'a': True, 'y': 5}] + [{'a': False, 'x': _oct(n), 'y': 300}
                                                                        for n in (1, 117, 118, 65536)]
    out.append(('SEQ-v1v2', v1, v2, vals))
    out.append(('SET-v1v2', Seq((M('a', B),), ext=True, is_set=True),
                Seq((M('a', B),), ext=True, adds=(M('x', OCT, 'O'), M('y', INT, 'O')), is_set=True), vals))
    c1 = Cho((M('a', B),), ext=True)
    c2 = Cho((M('a', B),), ext=True, adds=(M('x', OCT), M('y', Tag(40000, INT))))
    out.append(('CHO-v1v2', c1, c2, [('a', True)] + [('x', _oct(n)) for n in (0, 127, 128, 65536)] + [('y', 5)]))
    return out


def units(tier):
    out = []
    ws = wrappers(tier)
    for lab, term, vals in bases(tier):
        tops = []
        for wl, w in ws:
            if lab == 'CHO' and wl.endswith('-IMPL'):
                continue        # IMPLICIT on an untagged CHOICE is not legal ASN.1 (X.680 31.2.7)
            tops.append((w(term), 'C15:%s:%s' % (lab, wl)))
        per = 5 if lab in ("OCTETSTRING", "IA5String", "SEQ", "CHO", "SEQOF") else 14
        for bi in range(0, len(tops), per):
            chunk = tops[bi:bi + per]
            u = space.make_unit('C15/%s/%d' % (lab, bi), chunk)
            out.append(CUnit(u, [vals] * len(chunk), tier))
    for lab, v1, v2, vals in version_pairs():
        for wl, w in ws:
            if wl.endswith('-IMPL') and lab.startswith('CHO'):
                continue
            if not (wl == 'bare' or wl.startswith(('CON0-', 'APP31-', 'PRI16384-', 'CON268435456-'))):
                continue
            u = space.make_unit('C15/%s/%s' % (lab, wl), [(w(v1), 'C15:%s:%s' % (lab, wl)),
                                                         (w(v2), 'C15:%s-enc:%s' % (lab, wl))])
            out.append(CUnit(u, [vals, []], tier, encode_as={0: 1}))
    return out


# ---------------------------------------------------------------------------

def prefix_lengths(msg, tail, h):
    L = len(msg)
    ks = set(range(0, min(L, h + 4) + 1))
    p = 1
    while p <= L:
        ks.add(p)
        p *= 2
    if L <= 64:
        ks.update(range(L + 1))
    ks.update(k for k in (L - 2, L - 1, L) if k >= 0)
    total = L + len(tail)
    if tail:
        ks.update(range(L, L + min(len(tail), h + 6) + 1))
        ks.add(total)
        ks.add(total - 1)
    return sorted(k for k in ks if 0 <= k <= total)


def _calls(spec, name, data, ks):
    out = []
    try:
        out.append(('ok', spec.decode_with_length(name, data)))
    except Exception as e:
        out.append(('exc', e))
    dl = spec.decode_length
    for k in ks:
        try:
            out.append(('ok', dl(data[:k])))
        except Exception as e:
            out.append(('exc', e))
    return out


def _run_calls(spec, name, data, ks):
    limit = 20000 + 2000 * (len(ks) + 1) + 20 * len(data) * (len(ks) + 1)
    try:
        r, _ = budget.run(limit, _calls, spec, name, data, ks)
        return r
    except budget.BudgetExceeded:
        pass
    out = []
    one = 20000 + 2000 + 40 * len(data)

    def dwl():
        return spec.decode_with_length(name, data)
    for i in range(len(ks) + 1):
        try:
            if i == 0:
                r, _ = budget.run(one, dwl)
            else:
                r, _ = budget.run(one, spec.decode_length, data[:ks[i - 1]])
            out.append(('ok', r))
        except budget.BudgetExceeded as e:
            out.append(('budget', e))
        except Exception as e:
            out.append(('exc', e))
    return out


def check_message(spec, name, msg, other, stats=None):
    """Returns list of failures (kind, detail, data, tailname, k)."""
    fails = []
    try:
        hdr = tlv4.header_and_total(msg)
    except tlv4.TLVError as e:
        return [('model-rejects-encoder-output', str(e), msg, '', None)]
    if hdr is None or hdr[1] != len(msg):
        return [('model-disagrees-with-encoder-output', repr(hdr), msg, '', None)]
    h, L = hdr
    try:
        base, _ = budget.run(20000 + 40 * len(msg), spec.decode, name, msg)
    except budget.BudgetExceeded:
        return [('budget-steps-decode', 'BudgetExceeded', msg, '', None)]
    except Exception:
        if stats is not None:
            stats.count('messages_not_decodable_alone')
        return []
    for tname, tail in TAILS:
        if tname == 'self':
            tail = msg
        elif tname == 'other':
            tail = other
        elif tname == 'last-child':
            tail = _last_child(msg)
        data = msg + tail
        ks = prefix_lengths(msg, tail, h)
        rs = _run_calls(spec, name, data, ks)
        if stats is not None:
            stats.count('evaluations', len(rs))
            stats.count('tails')
            stats.count('prefixes', len(ks))
        st, r = rs[0]
        if st == 'budget':
            fails.append(('budget-steps-decode', 'BudgetExceeded', data, tname, None))
        elif st == 'exc':
            fails.append(('decode-with-length-raised', errclass(r), data, tname, None))
        else:
            dec, n = r
            if n != L:
                fails.append(('decode-with-length-wrong-length', 'returned %r, message has %d bytes' % (n, L),
                              data, tname, None))
            elif not (type(dec) is type(base) and dec == base):
                fails.append(('decode-with-length-wrong-value', valrepr(dec)[:120], data, tname, None))
        for k, (st, r) in zip(ks, rs[1:]):
            # the header model on the prefix itself
            try:
                ph = tlv4.read_header(data[:k], 0)
            except tlv4.TLVError:
                ph = 'err'
            if (ph is None) != (k < h):
                fails.append(('model-self-inconsistent', 'k=%d h=%d' % (k, h), data, tname, k))
                continue
            exp = L if k >= h else None
            if st == 'budget':
                fails.append(('budget-steps-decode-length', 'BudgetExceeded', data, tname, k))
            elif st == 'exc':
                fails.append(('decode-length-raised', '%s; %s' % (_kclass(k, h, L), errclass(r)), data, tname, k))
            elif r != exp or type(r) is not type(exp):
                fails.append(('decode-length-wrong', '%s; returned %r expected %r' % (_kclass(k, h, L), r, exp),
                              data, tname, k))
    return fails


def _last_child(msg):
    """The last component TLV of a constructed message (a tail that continues the message);
    the message itself when it is primitive."""
    try:
        n = tlv4.parse_all(msg)
        while n.cons and len(n.kids) == 1:
            n = n.kids[0]
        if n.cons and n.kids:
            return tlv4.serialise(n.kids[-1])
    except tlv4.TLVError:
        pass
    return msg


def _kclass(k, h, L):
    if k < h:
        return 'prefix shorter than header by %d' % (h - k) if h - k <= 2 else 'prefix shorter than header'
    if k == h:
        return 'prefix == header'
    if k < L:
        return 'header < prefix < message'
    if k == L:
        return 'prefix == message'
    return 'prefix > message'


def _encode(spec, name, v):
    try:
        return bytes(spec.encode(name, v))
    except Exception:
        return None


def work(cu):
    res = Result()
    unit = cu.unit
    compiled = impl.compile_tops(unit, CODECS, (False,))
    for i, (name, term, lab) in enumerate(unit.tops):
        res.count('types')
        for codec in CODECS:
            c = compiled[(False, codec)][i]
            if isinstance(c, BaseException):
                res.count('types_rejected_by_compiler')
                res.outcome('compile-rejected:%s:%s' % (codec, errclass(c)[:50]))
                continue
            spec, tname = c
            vals = cu.values[i]
            ename = tname
            if i in cu.encode_as:
                ce = compiled[(False, codec)][cu.encode_as[i]]
                if isinstance(ce, BaseException) or ce[0] is not spec:
                    res.count('types_rejected_by_compiler')
                    continue
                ename = ce[1]
            msgs = []
            for v in vals:
                m = _encode(spec, ename, v)
                msgs.append(m)
            reported = set()
            for vi, (v, msg) in enumerate(zip(vals, msgs)):
                if msg is None:
                    res.count('values_not_encoded')
                    continue
                res.count('messages')
                other = next((m for m in msgs[vi + 1:] + msgs[:vi] if m is not None and m != msg and len(m) < 300),
                             msg)
                hdr = tlv4.header_and_total(msg)
                res.states.add(hash((codec, lab, msg[:hdr[0]] if hdr else msg[:8], len(msg))))
                fails = check_message(spec, tname, msg, other, res)
                res.outcome('message-ok' if not fails else 'message-with-failures')
                if len(res.samples) < 1 and i == 1:
                    res.samples.append({'type': render_type(term, unit.env)[:120], 'codec': codec,
                                        'value': valrepr(v)[:60], 'message': msg.hex()[:60], 'len': len(msg),
                                        'header_len': hdr[0], 'tails': len(TAILS),
                                        'prefixes_of_bare_message': len(prefix_lengths(msg, b'', hdr[0]))})
                for kind, detail, data, tname_, k in fails:
                    hl = hdr[0] if hdr else 0
                    sig = '|'.join([kind, codec, lab.split(':')[1], 'hdr%d' % hl, 'tail:' + tname_,
                                    detail.split(';')[0] if kind.startswith('decode-length') else ''])
                    res.outcome(kind)
                    if sig in reported:
                        res.count('failures_same_sig_same_type')
                        continue
                    reported.add(sig)
                    res.failures.append(new_failure(
                        ID, kind, sig, codec=codec, numeric=False, detail=detail, tail=tname_, prefix=k,
                        encoded=data.hex()[:400], message_len=len(msg), header_len=hl,
                        size=len(render_type(term, unit.env)) + min(len(msg), 5000),
                        layer='C15', encode_as=ename if ename != tname else None,
                        **case_fields(unit, name, term, v)))
    return res


def coverage(stats, tier):
    return {
        'states': stats.get('messages', 0) + stats.get('prefixes', 0),
        'transitions': stats.get('tails', 0) + stats.get('prefixes', 0),
        'traces_validated_against_impl': stats.get('evaluations', 0),
        'evaluations': stats.get('evaluations', 0),
        'distinct_nontrivial': stats.get('evaluations', 0),
        'rule': 'a state is a (type, value, codec) message or one of its enumerated (tail, prefix length) cuts; a '
                'transition appends a tail or cuts a prefix; every cut is one call of decode_length compared with '
                'the header model and every (message, tail) one call of decode_with_length compared with decode '
                'of the bare message (evaluations = calls compared)',
        'exhaustive': True,
    }


# ---------------------------------------------------------------------------

def run_case(failure, unit, name, term, v):
    codec = failure['codec']
    try:
        spec = impl.compile_parsed(unit.spec, [codec], False)[codec]
    except Exception:
        return None
    msg = _encode(spec, name, v)
    if msg is None:
        return None
    fails = check_message(spec, name, msg, msg)
    best = None
    for kind, detail, data, tname, k in fails:
        if kind == failure['kind']:
            r = (kind, detail, data)
            if tname == failure.get('tail') and detail.split(';')[0] == failure['detail'].split(';')[0]:
                return r
            if best is None:
                best = r
    return best


def _run_pair(case):
    codec = case['codec']
    try:
        spec = impl.compile_parsed(case['spec'], [codec], False)[codec]
    except Exception:
        return None
    from ..casefmt import parse_value
    msg = _encode(spec, case['encode_as'], parse_value(case['value']))
    if msg is None:
        return None
    for kind, detail, data, tname, k in check_message(spec, case['type'], msg, msg):
        if kind == case['kind']:
            return (kind, detail, data)
    return None


def shrink(failure):
    if failure.get('encode_as'):
        return failure
    return shrinker.shrink_failure(failure, run_case)


def replay(case):
    if case.get('encode_as'):
        r = _run_pair(case)
        return None if r is None else {'kind': r[0], 'detail': r[1], 'encoded': r[2].hex()[:400]}
    unit, name, term, v = rebuild_case(case)
    r = run_case(case, unit, name, term, v)
    if r is None:
        return None
    return {'kind': r[0], 'detail': r[1], 'encoded': r[2].hex()[:400]}
