"""C17 The compile cache is transparent.

Three explorations over a REAL cache directory, all complete within their bounds:

* bfs     explicit-state BFS over histories of compile_files calls (file lists x codec x
          numeric_enums x any_defined_by_choices) and `edit f1`, deduplicated on the canonical
          dump of the directory; every transition is compared with the dict model (the same
          call with cache_dir=None in a fresh interpreter);
* crash   the populating process is SIGKILLed on entry to its n-th state-changing syscall, for
          every n of every syscall class (strace -e inject); follow-up calls must give the
          uncached behaviour or raise;
* damage  every cache file truncated / every byte offset substituted; follow-up calls must give
          the uncached behaviour or raise (or fail on first use) - never a different codec.
"""

import os
import re
import json
import shutil
import hashlib
import tempfile

from .. import cachefs as fs
from ..runner import Result, new_failure, NPROC

ID = 'C17'
LEVEL = 'model_checking'
CHUNK = 1

ASSUMPTIONS = [
    'The explored world is 7 small source files (f1 with an ENUMERATED, a constrained INTEGER and an ANY DEFINED BY '
    'member; its edited version; f2, which redefines module M1 so that the order of the file list is observable; a '
    'pair of file lists with equal concatenation and different parse; a file that does not compile) plus one large '
    'module whose pickled Specification is stored as a separate value file; codecs ber and uper; the `encoding` '
    'argument is not varied.',
    'Behaviour of a Specification = outcome (bytes / value / error text) of encode (with and without constraint '
    'checks) and decode over every type x a fixed battery of 28 values and 13 byte strings.',
    'The reference of every call is the same call with cache_dir=None in a fresh interpreter; cached calls run in '
    'children forked from a process that has imported asn1tools and never compiled anything (all transitions out of '
    'one BFS state share one child; every reported divergence is re-executed with one fresh interpreter per call).',
    'Every step of a history runs with its copy of the working directory bind-mounted at one fixed absolute path '
    '(private mount namespace per child), so behaviour keyed on absolute file names is not lost by materialising '
    'states as directory copies; `edit f1` keeps the file size and restores the modification time (an edit invisible '
    'to file metadata).',
    'SIGKILL is delivered on entry to the n-th syscall (the call itself is not executed), so the enumeration covers '
    'every prefix of the sequence of state-changing syscalls; power loss (un-synced page cache) is not modelled.',
    'After damage, a returned object that is not a Specification, and a Specification that differs from the uncached '
    'one only by raising where the uncached one returns (an error on first use), are accepted as "an error" '
    '(unasserted); only a successful encode/decode result that differs from the uncached one is "a wrong codec".',
    'After damage, a follow-up process that dies from a signal (e.g. SIGBUS under SQLite\'s mmap of a truncated '
    'file) counts as an error; the wall-clock backstop of child processes is a machinery failure, never a verdict.',
    'After a crash a follow-up call may raise (accepted, counted in distinct_outcomes); it must never return '
    'anything but a Specification with the uncached behaviour.',
    'Quick tier: option combinations are the one-deviation set {ber, uper, ber+numeric, ber+adb, uper+numeric}; the BFS '
    'covers all histories of length <= 2 over the full operation set and all histories of length <= 3 over the core '
    'operation set (bounds.bfs_second_pass); '
    'crash points: every state-changing syscall of the population of an empty cache with the small sources except '
    'that of the pwrite64 class (SQLite page writes, 156 of 193 points) every 3rd point is taken (the large '
    'value-file population and the populated-cache scenarios, and every pwrite64 point, are thorough only); damage: '
    'every 8th byte of the first stored pickle and every 128th byte elsewhere in cache.db of the small cache, every '
    '256th byte of the value file of the large one, plus the truncations.',
]

OPTS_FULL = [(c, ne, adb) for c in ('ber', 'uper') for ne in (False, True) for adb in (False, True)]
OPTS_QUICK = [('ber', False, False), ('uper', False, False), ('ber', True, False), ('ber', False, True),
              ('uper', True, False)]
BFS_LISTS = ('L1', 'L12', 'L21', 'C1', 'C2')
EDIT = {'edit': True}


def tier_cfg(tier):
    if tier == 'quick':
        return {'H': 2, 'opts': OPTS_QUICK, 'H_core': 3,
                'crash': [('empty-small', None)], 'crash_stride': {'pwrite64': 3},
                'damage': [('small', 'db', 'value1s8+stride128', 8), ('big', 'val', 'stride256', 2)]}
    return {'H': 3, 'opts': OPTS_FULL, 'H_reduced': 4,
            'crash': [('empty-small', None), ('empty-big', None), ('populated-small', None), ('populated-big', None)],
            'damage': [('small', 'db', 'stride1', 96), ('big', 'val', 'stride1', 64), ('big', 'db', 'stride2-nokey', 48),
                       ('small-wal', 'wal', 'stride128', 16)]}


def bfs_ops_core():
    """The reduced operation set of the deep quick pass: every option once on the plain file list, every other
    file list once with the plain options, the file that does not compile, and the edit."""
    ops = [fs.mkcall('L1', c, ne, adb) for c, ne, adb in OPTS_QUICK]
    ops += [fs.mkcall(lst, 'ber') for lst in BFS_LISTS if lst != 'L1']
    ops.append(fs.mkcall('BAD', 'ber'))
    ops.append(dict(EDIT))
    return ops


def bfs_ops(opts):
    if opts == 'core':
        return bfs_ops_core()
    ops = []
    for lst in BFS_LISTS:
        for c, ne, adb in opts:
            ops.append(fs.mkcall(lst, c, ne, adb))
    ops.append(fs.mkcall('BAD', 'ber'))
    ops.append(fs.mkcall('BAD', 'uper'))
    ops.append(dict(EDIT))
    return ops


def bounds(tier):
    cfg = tier_cfg(tier)
    b = {'tier': tier, 'bfs_depth_H': cfg['H'], 'bfs_operations': len(bfs_ops(cfg['opts'])),
         'option_combinations': ['%s/ne=%d/adb=%d' % o for o in cfg['opts']],
         'file_lists': {k: list(fs.LISTS[k]) for k in BFS_LISTS + ('BAD',)},
         'crash_scenarios': [s for s, _ in cfg['crash']],
         'crash_classes_excluded': {s: list(x) for s, x in cfg['crash'] if x},
         'crash_point_stride_per_syscall_class': cfg.get('crash_stride', {}),
         'damage_scenarios': ['%s/%s/%s' % d[:3] for d in cfg['damage']],
         'damage_patterns': ['truncate to 0, 1, len/2, len-1'] + [p for p, _ in fs.PATTERNS]}
    if cfg.get('H_reduced'):
        b['bfs_second_pass'] = 'depth %d over the one-deviation option set' % cfg['H_reduced']
    if cfg.get('H_core'):
        b['bfs_second_pass'] = ('depth %d over the core operation set (%d operations: every option combination on the '
                                'plain file list, every other file list with plain options, the non-compiling file, '
                                'edit f1)' % (cfg['H_core'], len(bfs_ops_core())))
    return b


# --------------------------------------------------------------------------------------
# scenarios
# --------------------------------------------------------------------------------------

CRASH_SCN = {
    # name: (big sources?, base calls populated cleanly first, populating call P, follow-ups after the crash)
    'empty-small': (False, [], fs.mkcall('L1', 'ber'),
                    [fs.mkcall('L1', 'ber'), fs.mkcall('L1', 'uper'), fs.mkcall('L12', 'ber'),
                     fs.mkcall('L1', 'ber', ne=True), fs.mkcall('L1', 'ber')]),
    'empty-big': (True, [], fs.mkcall('BIG', 'ber'),
                  [fs.mkcall('BIG', 'ber'), fs.mkcall('L1', 'ber'), fs.mkcall('BIG', 'ber')]),
    'populated-small': (False, [fs.mkcall('L1', 'ber')], fs.mkcall('L1', 'uper'),
                        [fs.mkcall('L1', 'uper'), fs.mkcall('L1', 'ber'), fs.mkcall('L12', 'ber'),
                         fs.mkcall('L1', 'uper', ne=True), fs.mkcall('L1', 'uper')]),
    'populated-big': (True, [fs.mkcall('BIG', 'ber'), fs.mkcall('L1', 'ber')], fs.mkcall('BIG', 'uper'),
                      [fs.mkcall('BIG', 'uper'), fs.mkcall('BIG', 'ber'), fs.mkcall('L1', 'ber'),
                       fs.mkcall('BIG', 'uper')]),
}

DAMAGE_SCN = {
    # name: (big sources?, calls that populate the cache, clean close?)
    'small': (False, [fs.mkcall('L1', 'ber'), fs.mkcall('L1', 'uper')], True),
    'big': (True, [fs.mkcall('BIG', 'ber'), fs.mkcall('L1', 'uper')], True),
    'small-wal': (False, [fs.mkcall('L1', 'ber'), fs.mkcall('L1', 'uper')], False),
}


def _populate_child(emit, workdir, calls, clean, frozen):
    import gc
    if frozen:
        fs.freeze_time()
    if not clean:
        gc.disable()     # the Cache objects stay alive: leave through os._exit with the SQLite
                         # connections open, so that -wal and -shm stay behind
    fs.enter(workdir)
    for c in calls:
        out = fs.do_call(c)
        if clean:
            fs.release()
        emit(out)


def build_base(scratch, big, calls, clean=True, frozen=False):
    d = tempfile.mkdtemp(prefix='base-', dir=scratch)
    fs.write_sources(d, 0, big=big)
    if calls:
        recs, how = fs.fork_records(_populate_child, (d, calls, clean, frozen), scratch)
        if len(recs) != len(calls) or any(r['r'] != 'spec' for r in recs):
            raise RuntimeError('could not populate the base cache: %s %r' % (how, [r.get('err', r['r']) for r in recs]))
    return d


# --------------------------------------------------------------------------------------
# verdicts
# --------------------------------------------------------------------------------------

def diff_fields(a, va, b, vb):
    """Which call parameters differ between call a (f1 version va) and call b (vb)."""
    d = []
    if a['codec'] != b['codec']:
        d.append('codec')
    if a['ne'] != b['ne']:
        d.append('numeric_enums')
    if a['adb'] != b['adb']:
        d.append('any_defined_by_choices')
    same_concat = None
    if a['list'] != b['list']:
        d.append('files')
        same_concat = ''.join(fs.call_contents(a, va)) == ''.join(fs.call_contents(b, vb))
    elif fs.call_contents(a, va) != fs.call_contents(b, vb):
        d.append('contents')
    return sorted(d), same_concat


def attribute_stale(observed, call, version, earlier):
    """earlier: [(call, f1 version)] executed before on the same directory.  If the observed
    outcome is what one of them should have returned, say which parameters differ."""
    dg = fs.digest(observed)
    best = None
    for c, v in earlier:
        if fs.digest(fs.reference(c, v)) != dg:
            continue
        d, same = diff_fields(c, v, call, version)
        if not d:
            continue
        if best is None or len(d) <= len(best[0]):
            best = (d, same, c, v)
    return best


def first_difference(observed, expected):
    if observed.get('r') != expected.get('r'):
        return 'returned %s, uncached %s' % (observed.get('err', observed.get('r')), expected.get('err', expected.get('r')))
    if observed['r'] == 'raise':
        return 'raised %s, uncached raises %s' % (observed['err'], expected['err'])
    so, se = observed.get('sig', {}), expected.get('sig', {})
    for k in sorted(set(so) | set(se)):
        if so.get(k) != se.get(k):
            return '%s: cached %r, uncached %r' % (k, so.get(k), se.get(k))
    return 'no difference'


def divergence_failure(kind, observed, expected, call, version, earlier, **fields):
    st = attribute_stale(observed, call, version, earlier)
    if st is not None:
        d, same, c, v = st
        stale = '+'.join(d) + ('(same-concatenation)' if same else '')
        sig = 'history-divergence|stale:' + stale
        return new_failure(ID, 'history-divergence', sig, stale_diff=d, same_concatenation=bool(same),
                           stale_from=fs.call_label(c), stale_from_f1_version=v, call=call, f1_version=version,
                           detail=first_difference(observed, expected), context=kind, **fields)
    what = observed['r'] if observed['r'] != 'spec' else 'spec'
    sig = '%s|unattributed|%s|%s' % (kind, fs.call_label(call), what)
    return new_failure(ID, kind, sig, stale_diff=None, call=call, f1_version=version,
                       detail=first_difference(observed, expected), **fields)


def damage_verdict(out, ref):
    """-> (class, detail).  class: ok | error | died | non-spec | delayed-error | WRONG | HANG."""
    r = out['r']
    if r == 'raise':
        return 'error', out['err'].split(':')[0]
    if r == 'died':
        return 'died', out['how']
    if r == 'other':
        return 'non-spec', out['type']
    if r == 'sig-budget':
        return 'HANG', 'signature exceeded the step budget'
    if ref['r'] != 'spec':
        return 'WRONG', 'returned a Specification, uncached raises ' + ref['err']
    so, se = out['sig'], ref['sig']
    if so == se:
        return 'ok', ''
    for k in sorted(se):
        if k == 'types':
            continue
        v = so.get(k)
        if v is not None and v[0] == 'ok' and v != se[k]:
            return 'WRONG', '%s: damaged cache %r, uncached %r' % (k, v, se[k])
    return 'delayed-error', ''


# --------------------------------------------------------------------------------------
# BFS over histories
# --------------------------------------------------------------------------------------

def _expand_child(emit, statedir, ops, expected, keeproot, parent_canon, scratch):
    """All transitions out of one state; each on its own copy of the state directory."""
    for i, op in enumerate(ops):
        tmp = tempfile.mkdtemp(prefix='t-', dir=scratch)
        w = os.path.join(tmp, 'w')
        shutil.copytree(statedir, w)
        fs.enter(w)
        if op.get('edit'):
            fs.toggle_f1(w)
            out, dg = None, None
        else:
            out = fs.do_call(op)
            fs.release()
            dg = fs.digest(out)
        c = fs.canon(w)
        fs.leave(scratch)
        if c != parent_canon:
            target = os.path.join(keeproot, fs.canon_hash(c))
            if not os.path.exists(target):
                try:
                    os.rename(w, target)
                except OSError:
                    pass
        shutil.rmtree(tmp, ignore_errors=True)
        emit({'i': i, 'canon': c, 'digest': dg, 'out': out if dg != expected[i] else None})


def run_history_fresh(hist, scratch):
    """Execute a history (list of ops) from the initial directory with one FRESH interpreter per
    call.  Returns the outcomes (None for edits)."""
    d = tempfile.mkdtemp(prefix='hist-', dir=scratch)
    fs.write_sources(d, 0)
    outs = []
    import subprocess
    for op in hist:
        if op.get('edit'):
            fs.toggle_f1(d)
            outs.append(None)
            continue
        p = subprocess.run([fs.PY, '-m', 'mc.cachefs', 'call', json.dumps(op)], cwd=d, env=fs.child_env(),
                           capture_output=True, text=True, timeout=3600)
        if p.stdout.startswith('{'):
            outs.append(json.loads(p.stdout))
        else:
            outs.append({'r': 'died', 'how': 'rc=%s %s' % (p.returncode, p.stderr[-200:])})
    shutil.rmtree(d, ignore_errors=True)
    return outs


def history_versions(hist):
    v, out = 0, []
    for op in hist:
        if op.get('edit'):
            v = 1 - v
        out.append(v)
    return out


def check_history(hist, scratch):
    """Replay hist in fresh interpreters; return a failure for its LAST op or None."""
    outs = run_history_fresh(hist, scratch)
    vs = history_versions(hist)
    op, v, out = hist[-1], vs[-1], outs[-1]
    if op.get('edit'):
        return None
    exp = fs.reference(op, v)
    if out == exp:
        return None
    earlier = [(o, vv) for o, vv in zip(hist[:-1], vs[:-1]) if not o.get('edit')]
    return divergence_failure('history-divergence', out, exp, op, v, earlier,
                              history=[fs.call_label(o) for o in hist], steps=hist, size=len(hist))


def explore_bfs(res, ops, H, jobs, label):
    root = tempfile.mkdtemp(prefix='c17bfs-')
    try:
        scratch = os.path.join(root, 'scratch')
        keep = os.path.join(root, 'states')
        os.makedirs(scratch)
        os.makedirs(keep)
        init = os.path.join(keep, 'init')
        os.makedirs(init)
        fs.write_sources(init, 0)
        c0 = fs.canon(init)
        os.rename(init, os.path.join(keep, fs.canon_hash(c0)))
        seen = {c0: []}
        frontier = [c0]
        per_depth = [1]
        sig_seen = {}
        transitions = 0
        for depth in range(H):
            tasks = []
            for c in frontier:
                v = json.loads(c)['f1']
                expected = [None if op.get('edit') else fs.digest(fs.reference(op, v)) for op in ops]
                tasks.append((c, v, expected))
            results = {}
            running = {}
            queue = list(enumerate(tasks))
            while queue or running:
                while queue and len(running) < jobs:
                    ti, (c, v, expected) = queue.pop(0)
                    outp = os.path.join(scratch, 'exp-%d-%d' % (depth, ti))
                    sdir = os.path.join(keep, fs.canon_hash(c))
                    pid = fs.fork_start(_expand_child, (sdir, ops, expected, keep, c, scratch), outp)
                    running[pid] = (ti, outp)
                pid, status = os.wait()
                if pid not in running:
                    continue
                ti, outp = running.pop(pid)
                recs = fs.read_records(outp)
                if os.path.exists(outp + '.err'):
                    with open(outp + '.err') as f:
                        raise RuntimeError('BFS child failed:\n' + f.read())
                if len(recs) != len(ops):
                    raise RuntimeError('BFS child ended early (%s) after %d of %d operations'
                                       % (fs.status_text(status), len(recs), len(ops)))
                os.unlink(outp)
                results[ti] = recs
            nxt = []
            for ti, (c, v, expected) in enumerate(tasks):
                hist = seen[c]
                for rec in results[ti]:
                    op = ops[rec['i']]
                    transitions += 1
                    res.count('bfs_transitions')
                    if rec['canon'] not in seen:
                        seen[rec['canon']] = hist + [op]
                        nxt.append(rec['canon'])
                        res.states.add('bfs:' + fs.canon_hash(rec['canon']))
                    if op.get('edit'):
                        res.outcome('bfs:edit')
                        continue
                    res.count('calls_compared_with_model')
                    hit = rec['canon'] == c
                    if rec['out'] is None:
                        res.outcome('bfs:%s:%s' % ('unchanged-state' if hit else 'new-row', 'equal'))
                        continue
                    exp = fs.reference(op, v)
                    earlier = [(o, vv) for o, vv in zip(hist, history_versions(hist)) if not o.get('edit')]
                    f = divergence_failure('history-divergence', rec['out'], exp, op, v, earlier,
                                           history=[fs.call_label(o) for o in hist + [op]], steps=hist + [op],
                                           size=len(hist) + 1, pass_label=label)
                    res.count('bfs_divergent_transitions')
                    res.outcome('bfs:DIVERGES:' + f['sig'].split('|', 1)[1][:60])
                    n = sig_seen.get(f['sig'], 0)
                    sig_seen[f['sig']] = n + 1
                    if n == 0:
                        # believe it only if it reproduces with one fresh interpreter per call
                        g = check_history(hist + [op], scratch)
                        if g is None:
                            res.count('divergences_not_reproduced_in_fresh_interpreters')
                            sig_seen[f['sig']] = 0
                            continue
                        g['pass_label'] = label
                        res.failures.append(g)
                        res.count('divergences_confirmed_in_fresh_interpreters')
                    elif n < 3:
                        res.failures.append(f)
            per_depth.append(len(nxt))
            frontier = nxt
            if not frontier:
                break
        res.count('bfs_states', len(seen))
        res.stats['bfs_fixpoint_' + label] = 1 if not frontier else 0
        res.samples.append({'pass': label, 'new_states_per_depth': per_depth, 'operations': len(ops),
                            'transitions': transitions, 'fixpoint': not frontier,
                            'a_deepest_history': [fs.call_label(o) for o in seen[max(seen, key=lambda k: len(seen[k]))]]})
        return seen
    finally:
        shutil.rmtree(root, ignore_errors=True)


def work_bfs(unit):
    res = Result()
    _, tier, label, optname, H = unit
    opts = 'core' if optname == 'core' else (OPTS_QUICK if optname == 'quick' else OPTS_FULL)
    ops = bfs_ops(opts)
    res.count('workdir_fixed_path' if fs.fixed_path_available() else 'workdir_plain_path')
    prime(ops)
    explore_bfs(res, ops, H, max(1, NPROC), label)
    return res


def prime(ops):
    pairs = [(op, v) for op in ops if not op.get('edit') for v in (0, 1)]
    fs.prime_references(pairs, max(2, NPROC))


# --------------------------------------------------------------------------------------
# crash points
# --------------------------------------------------------------------------------------

def crash_censuses(scns):
    """One strace dry run per scenario (in parallel) -> [{syscall: [(when, descriptor)]}]."""
    from concurrent.futures import ThreadPoolExecutor
    scratch = tempfile.mkdtemp(prefix='c17census-')
    try:
        bases = [build_base(scratch, CRASH_SCN[s][0], CRASH_SCN[s][1]) for s in scns]     # forks: main thread only

        def one(i):
            points, outcome = fs.census(bases[i], CRASH_SCN[scns[i]][2], scratch)
            if outcome.get('r') != 'spec':
                raise RuntimeError('census population did not return a Specification: %r' % outcome)
            return points
        with ThreadPoolExecutor(4) as ex:
            return list(ex.map(one, range(len(scns))))
    finally:
        shutil.rmtree(scratch, ignore_errors=True)


def run_crash_point(scn, sc, n, desc, scratch, base, res):
    big, base_calls, P, follow = CRASH_SCN[scn]
    w = os.path.join(tempfile.mkdtemp(prefix='cr-', dir=scratch), 'w')
    shutil.copytree(base, w)
    killed, last, ncalls = fs.crash_run(w, P, sc, n, scratch)
    if not killed or last != desc:
        return 'mismatch', (killed, last)
    res.count('crash_points')
    res.count('crash_points:' + sc)
    res.states.add('crash:' + fs.canon_hash(fs.canon(w)))
    outs = fs.run_calls(w, follow, scratch, each_fresh=True)
    fails = []
    earlier = [(c, 0) for c in base_calls] + [(P, 0)]
    for j, (c, out) in enumerate(zip(follow, outs)):
        res.count('crash_followup_calls')
        res.count('calls_compared_with_model')
        exp = fs.reference(c, 0)
        if out == exp:
            res.outcome('crash-followup:equal')
        elif out['r'] == 'raise':
            res.outcome('crash-followup:raises:' + out['err'][:50])
        else:
            f = divergence_failure('crash-divergence', out, exp, c, 0, earlier + [(x, 0) for x in follow[:j]],
                                   scenario=scn, syscall=sc, when=n, killed_on=desc, followup_index=j,
                                   followups=[fs.call_label(x) for x in follow], size=10 + j)
            res.outcome('crash-followup:DIVERGES:' + f['sig'][:60])
            fails.append(f)
    shutil.rmtree(os.path.dirname(w), ignore_errors=True)
    return 'ok', fails


def work_crash(unit):
    res = Result()
    _, scn, sc, points = unit
    big, base_calls, P, follow = CRASH_SCN[scn]
    fs.prime_references([(c, 0) for c in follow + base_calls + [P]], 2)
    scratch = tempfile.mkdtemp(prefix='c17crash-')
    try:
        base = build_base(scratch, big, base_calls)
        per_sig = {}
        local = None
        for k, n, desc in points:
            st, x = run_crash_point(scn, sc, n, desc, scratch, base, res)
            if st == 'mismatch':
                # the process made a different syscall sequence than in the census (start-up noise):
                # recount here and address the same point by its ordinal among the crash points
                if local is None:
                    local = fs.census(base, P, scratch)[0]
                    res.count('crash_census_redone')
                pts = local.get(sc, [])
                if k >= len(pts) or pts[k][1] != desc:
                    raise RuntimeError('crash point %s #%d (%s) not found again: %r' % (sc, k, desc, x))
                st, x = run_crash_point(scn, sc, pts[k][0], desc, scratch, base, res)
                if st == 'mismatch':
                    raise RuntimeError('could not kill the populating process at %s #%d (%s): %r' % (sc, k, desc, x))
            for f in x:
                per_sig[f['sig']] = per_sig.get(f['sig'], 0) + 1
                if per_sig[f['sig']] <= 2:
                    res.failures.append(f)
        if points:
            res.samples.append({'crash_scenario': scn, 'syscall': sc, 'when': points[0][1], 'killed_on': points[0][2],
                                'followups': [fs.call_label(x) for x in follow]})
    finally:
        shutil.rmtree(scratch, ignore_errors=True)
    return res


# --------------------------------------------------------------------------------------
# damage
# --------------------------------------------------------------------------------------

def damage_plan(base, scn, filekind, mode):
    """-> (relative path of the target file, its bytes, [case], region function).
    case = ('trunc', length) | ('subst', offset, pattern name)."""
    big, calls, clean = DAMAGE_SCN[scn]
    cdir = os.path.join(base, fs.CACHE)
    rows = fs.read_rows(cdir)
    if filekind == 'db':
        rel = 'cache.db'
    elif filekind == 'wal':
        rel = 'cache.db-wal'
    else:
        rel = [r[3] for r in rows if r[3]][0]
    with open(os.path.join(cdir, rel), 'rb') as f:
        data = f.read()
    region = {}          # offset -> region label
    first_region = {}    # the stored pickle of the first row only
    skip = set()
    if filekind == 'val':
        pm = fs.pickle_map(data)
        for o in range(len(data)):
            region[o] = 'pickle:' + pm.get(o, '?')
    elif filekind == 'db':
        for key, raw, m, filename, value in rows:
            if not filename and value:
                loc = fs.locate_value(data, value)
                if loc is None:
                    raise RuntimeError('stored pickle not found in cache.db')
                pm = fs.pickle_map(value)
                for o, p in loc.items():
                    region[o] = 'pickle:' + pm.get(p, '?')
                if not first_region:
                    first_region = dict(loc)
            if 'nokey' in mode and len(key) > 2000:
                for start in fs.find_all(data, key[:32]):
                    loc = fs.locate_value(data, key, start)
                    if loc:
                        skip.update(loc)
    stride = int(re.search(r'stride(\d+)', mode).group(1))
    dense = set()            # offsets enumerated regardless of the stride
    if 'values' in mode:
        dense = set(region)
    elif re.search(r'value1s(\d+)', mode):
        # every k-th byte of the first stored pickle
        k = int(re.search(r'value1s(\d+)', mode).group(1))
        dense = {o for i, o in enumerate(sorted(first_region)) if i % k == 0}
    elif 'value1' in mode:
        dense = set(first_region)
    cases = []
    n = len(data)
    for ln in sorted({0, 1, n // 2, n - 1}):
        if 0 <= ln < n:
            cases.append(('trunc', ln))
    for o in range(n):
        if o in skip:
            continue
        if stride > 1 and o % stride and o not in dense:
            continue
        for pname, fn in fs.PATTERNS:
            if fn(data[o]) != data[o]:
                cases.append(('subst', o, pname))
    return rel, data, cases, region, len(skip)


def apply_damage(path, data, case):
    if case[0] == 'trunc':
        new = data[:case[1]]
    else:
        fn = dict(fs.PATTERNS)[case[2]]
        new = data[:case[1]] + bytes([fn(data[case[1]])]) + data[case[1] + 1:]
    with open(path, 'wb') as f:
        f.write(new)


def damage_followups(scn, filekind):
    big, calls, clean = DAMAGE_SCN[scn]
    return [calls[0]] if filekind == 'val' else list(calls)


def _damage_child(emit, base, rel, data, cases, follow, scratch, expected):
    for case in list(cases) + [None]:
        tmp = tempfile.mkdtemp(prefix='d-', dir=scratch)
        w = os.path.join(tmp, 'w')
        shutil.copytree(base, w)
        if case is not None:
            apply_damage(os.path.join(w, fs.CACHE, rel), data, case)
            emit(('start', case))
        fs.enter(w)
        outs = []
        for c in follow:
            outs.append(fs.do_call(c, budget_sig=True))
            fs.release()
        fs.leave(scratch)
        shutil.rmtree(tmp, ignore_errors=True)
        if case is not None:
            emit(('done', case, outs))
        else:
            # sentinel: after all these damaged pickles were loaded into this process, an intact
            # cache must still give the reference behaviour; otherwise the batch is redone case by case
            emit(('sentinel', [fs.digest(o) for o in outs] == expected))


def run_damage_cases(base, rel, data, cases, follow, scratch, expected, batch=48):
    """-> {case: [outcome per follow-up]}; a case that kills its process gets 'died' outcomes."""
    results = {}
    todo = list(cases)
    while todo:
        chunk, todo = todo[:batch], todo[batch:]
        got = {}
        sentinel_ok = True
        while chunk:
            recs, how = fs.fork_records(_damage_child, (base, rel, data, chunk, follow, scratch, expected), scratch,
                                        wall=1800, mem=6 << 30)
            started = None
            for r in recs:
                if r[0] == 'start':
                    started = r[1]
                elif r[0] == 'done':
                    got[r[1]] = r[2]
                    started = None
                elif not r[1]:
                    sentinel_ok = False
            done = sum(1 for c in chunk if c in got)
            if started is not None and started not in got:
                got[started] = [{'r': 'died', 'how': how}] * len(follow)
                done += 1
                sentinel_ok = sentinel_ok and batch == 1      # what ran before the death is unvouched for
            if done == 0 and how != 'exit:0':
                raise RuntimeError('damage child made no progress: ' + how)
            chunk = [c for c in chunk if c not in got]
        if not sentinel_ok and batch > 1:
            got = run_damage_cases(base, rel, data, list(got), follow, scratch, expected, batch=1)
        results.update(got)
    return results


def work_damage(unit):
    res = Result()
    _, scn, filekind, mode, ci, nchunks = unit
    big, calls, clean = DAMAGE_SCN[scn]
    follow = damage_followups(scn, filekind)
    fs.prime_references([(c, 0) for c in calls], 2)
    refs = [fs.reference(c, 0) for c in follow]
    scratch = tempfile.mkdtemp(prefix='c17dmg-')
    try:
        base = build_base(scratch, big, calls, clean=clean, frozen=True)
        rel, data, cases, region, skipped = damage_plan(base, scn, filekind, mode)
        mine = [c for i, c in enumerate(cases) if i * nchunks // len(cases) == ci] if cases else []
        if ci == 0:
            res.count('damage_target_bytes:%s/%s' % (scn, filekind), len(data))
            res.count('damage_offsets_inside_stored_pickles:%s/%s' % (scn, filekind), len(region))
            res.count('damage_key_bytes_excluded:%s/%s' % (scn, filekind), skipped)
        expected = [fs.digest(r) for r in refs]
        results = run_damage_cases(base, rel, data, mine, follow, scratch, expected)
        # a wrong codec is believed only when the case reproduces alone in its own process
        suspects = [c for c in mine if any(damage_verdict(o, refs[j])[0] in ('WRONG', 'HANG')
                                           for j, o in enumerate(results[c]))]
        if suspects:
            results.update(run_damage_cases(base, rel, data, suspects, follow, scratch, expected, batch=1))
            res.count('damage_suspects_rerun_in_isolation', len(suspects))
        per_sig = {}
        for case in mine:
            res.count('damage_cases')
            res.count('damage_cases:%s/%s' % (scn, filekind))
            reg = region.get(case[1], filekind + '-other') if case[0] == 'subst' else 'truncate'
            for j, out in enumerate(results[case]):
                res.count('damage_followup_calls')
                res.count('calls_compared_with_model')
                cls, detail = damage_verdict(out, refs[j])
                if cls in ('WRONG', 'HANG'):
                    kind = 'damage-wrong-codec' if cls == 'WRONG' else 'damage-hang'
                    other = None
                    if out.get('r') == 'spec':
                        dg = fs.digest(out)
                        for c in calls:
                            if c != follow[j] and fs.digest(fs.reference(c, 0)) == dg:
                                other = fs.call_label(c)        # the whole entry of another call came back
                    sig = '%s|%s/%s|%s|%s%s' % (kind, scn, filekind, reg, case[0], '|other-entry' if other else '')
                    res.outcome('damage:%s:%s' % (cls, reg.split(':')[0]))
                    res.count('damage_wrong_codec_cases')
                    per_sig[sig] = per_sig.get(sig, 0) + 1
                    if per_sig[sig] <= 2:
                        res.failures.append(new_failure(
                            ID, kind, sig, scenario=scn, filekind=filekind, file=rel if filekind != 'val' else '<value file>',
                            op=case[0], offset=case[1], pattern=case[2] if case[0] == 'subst' else None,
                            region=reg, call=follow[j], followup_index=j, detail=detail, size=case[1],
                            returned_other_entry=other))
                else:
                    res.outcome('damage:%s%s' % (cls, (':' + detail[:40]) if cls in ('error', 'died', 'non-spec') else ''))
        if mine and ci == 0:
            res.samples.append({'damage_scenario': scn, 'file': filekind, 'case': list(mine[len(mine) // 2]),
                                'followups': [fs.call_label(c) for c in follow]})
    finally:
        shutil.rmtree(scratch, ignore_errors=True)
    return res


# --------------------------------------------------------------------------------------
# runner interface
# --------------------------------------------------------------------------------------

def setup(tier):
    if not fs.strace_available():
        raise RuntimeError('strace is required for the crash-point enumeration')
    cfg = tier_cfg(tier)
    calls = []
    for op in bfs_ops(cfg['opts']):
        if not op.get('edit'):
            calls.extend([(op, 0), (op, 1)])
    for scn, _ in cfg['crash']:
        big, base_calls, P, follow = CRASH_SCN[scn]
        calls.extend((c, 0) for c in base_calls + [P] + follow)
    for scn, _, _, _ in cfg['damage']:
        calls.extend((c, 0) for c in DAMAGE_SCN[scn][1])
    fs.prime_references(calls, max(2, NPROC))


def units(tier):
    cfg = tier_cfg(tier)
    out = [('bfs', tier, 'full' if tier != 'quick' else 'one-deviation', 'quick' if tier == 'quick' else 'full', cfg['H'])]
    if cfg.get('H_reduced'):
        out.append(('bfs', tier, 'one-deviation-deep', 'quick', cfg['H_reduced']))
    if cfg.get('H_core'):
        out.append(('bfs', tier, 'core-deep', 'core', cfg['H_core']))
    censuses = crash_censuses([s for s, _ in cfg['crash']])
    for (scn, excluded), points in zip(cfg['crash'], censuses):
        for sc in sorted(points):
            if excluded and sc in excluded:
                continue
            pts = [(k, n, desc) for k, (n, desc) in enumerate(points[sc])]
            pts = pts[::cfg.get('crash_stride', {}).get(sc, 1)]
            per = 4
            for i in range(0, len(pts), per):
                out.append(('crash', scn, sc, pts[i:i + per]))
    for scn, filekind, mode, nchunks in cfg['damage']:
        for ci in range(nchunks):
            out.append(('damage', scn, filekind, mode, ci, nchunks))
    return out


def work(unit):
    if unit[0] == 'bfs':
        return work_bfs(unit)
    if unit[0] == 'crash':
        return work_crash(unit)
    return work_damage(unit)


def coverage(stats, tier):
    calls = stats.get('calls_compared_with_model', 0)
    return {
        'transitions': stats.get('bfs_transitions', 0) + stats.get('crash_points', 0)
        + stats.get('crash_followup_calls', 0) + stats.get('damage_cases', 0) + stats.get('damage_followup_calls', 0),
        'traces_validated_against_impl': calls,
        'evaluations': calls,
        'distinct_nontrivial': calls,
        'bfs_states': stats.get('bfs_states', 0),
        'bfs_transitions': stats.get('bfs_transitions', 0),
        'crash_points_enumerated': stats.get('crash_points', 0),
        'damage_cases_enumerated': stats.get('damage_cases', 0),
        'fault_enumeration': {'crash_points': stats.get('crash_points', 0),
                              'crash_points_by_syscall': {k.split(':', 1)[1]: v for k, v in sorted(stats.items())
                                                          if k.startswith('crash_points:')},
                              'damage_cases': stats.get('damage_cases', 0),
                              'damage_cases_by_target': {k.split(':', 1)[1]: v for k, v in sorted(stats.items())
                                                         if k.startswith('damage_cases:')}},
        'rule': 'states = distinct canonical cache-directory states (cache rows + source versions) reached by the BFS '
                'plus distinct directory states left behind by a killed populating process; transitions = operations '
                'applied (BFS operations, killed populations, follow-up calls, damage applications); a trace is '
                'validated when the outcome of a compile_files call on the real directory was compared with the dict '
                'model (uncached call in a fresh interpreter); every call is non-trivial (it parses or unpickles and '
                'its whole behaviour signature is compared)',
        'exhaustive': True,
    }


# --------------------------------------------------------------------------------------
# replay
# --------------------------------------------------------------------------------------

def replay(case):
    scratch = tempfile.mkdtemp(prefix='c17replay-')
    try:
        kind = case['kind']
        if case.get('steps') is not None and case.get('context', kind) == 'history-divergence' and 'scenario' not in case:
            f = check_history(case['steps'], scratch)
            return None if f is None else {'kind': f['kind'], 'sig': f['sig'], 'detail': f['detail']}
        if 'syscall' in case:
            scn = case['scenario']
            big, base_calls, P, follow = CRASH_SCN[scn]
            base = build_base(scratch, big, base_calls)
            res = Result()
            st, x = run_crash_point(scn, case['syscall'], case['when'], case['killed_on'], scratch, base, res)
            if st == 'mismatch':
                pts = fs.census(base, P, scratch)[0].get(case['syscall'], [])
                cand = [n for n, d in pts if d == case['killed_on']]
                for n in cand:
                    st, x = run_crash_point(scn, case['syscall'], n, case['killed_on'], scratch, base, res)
                    if st == 'ok' and x:
                        break
            if st != 'ok' or not x:
                return None
            return {'kind': x[0]['kind'], 'sig': x[0]['sig'], 'detail': x[0]['detail']}
        scn, filekind = case['scenario'], case['filekind']
        big, calls, clean = DAMAGE_SCN[scn]
        base = build_base(scratch, big, calls, clean=clean, frozen=True)
        mode = 'stride1'
        rel, data, cases, region, _ = damage_plan(base, scn, filekind, mode)
        c = ('trunc', case['offset']) if case['op'] == 'trunc' else ('subst', case['offset'], case['pattern'])
        follow = damage_followups(scn, filekind)
        results = run_damage_cases(base, rel, data, [c], follow, scratch,
                                   [fs.digest(fs.reference(x, 0)) for x in follow], batch=1)
        j = case['followup_index']
        cls, detail = damage_verdict(results[c][j], fs.reference(follow[j], 0))
        if cls not in ('WRONG', 'HANG'):
            return None
        return {'kind': case['kind'], 'class': cls, 'detail': detail}
    finally:
        shutil.rmtree(scratch, ignore_errors=True)
