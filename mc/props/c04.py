"""C04 The BER decoder accepts every valid BER serialisation with the same meaning.

Space: every (term, value) of the standard program space (L0, L0c, L1, L2,
families; nesting depth <= 2), codec ber, accepted by the library's checks.
The encoder output is parsed by the independent TLV library mc/tlv4.py, labelled
type-directedly by mc/label4.py (which nodes are strings, SET values, explicit
tags; every label is verified against the tree), and ALL re-serialisations with
<= R simultaneous rewrites are generated (definite -> indefinite + EOC on any
constructed node; 1..4 extra length octets on any node; every segmentation of a
string of <= 4 content octets into a constructed form with nesting <= 2 / 3;
every permutation of a SET value with <= 4 components; the nodes created by a
segmentation are again sites for indefinite / padded lengths).

Oracle: decode_with_length(variant) == (a value abstractly equal to the encoded
one, len(variant)); decode(variant) abstractly equal (checked on all variants
with <= 1 rewrite).
"""

from dataclasses import replace

from .. import impl, space, budget, tlv4, label4, absval
from .. import alphabet as A
from ..runner import Result, new_failure
from ..terms import Leaf, Seq, Cho, Of, Ref, Tag, M, Grp, render_type, STRING_KINDS
from ..values import dom
from ..casefmt import errclass, valrepr, case_fields, rebuild_case, referenced
from .. import shrink as shrinker

ID = 'C04'
LEVEL = 'model_checking'
CODEC = 'ber'
CHUNK = 1
GROUPS_PER_UNIT = 40

ASSUMPTIONS = [
    'Constraint erasure: ber.py never reads value/SIZE/FROM constraints or REAL WITH COMPONENTS when decoding, so '
    'terms of the standard space that differ only in those are explored once, on the constraint-free term, with the '
    'union of their boundary value domains (states are (erased term, TLV shape) pairs).',
    'TLV-shape abstraction of values: two values of one term whose encodings have the same tags, lengths, forms and '
    'content-length class (0, 1, 2..127, 128..255, 256..65535, >= 65536) and the same zero-octet flag (content starts '
    'or ends with 00 or contains 00 00) on every primitive (full content for strings of <= 4 octets) '
    'are explored once.',
    'Inside constructors (L1/L2) members are drawn from the 12-letter reduced alphabet Sigma_r; the leaf alphabet '
    'is tied to containers by the L0c context layer.',
    'Value domains are boundary sets (DESIGN 1.3), products deviation-bounded.',
    'Only (term, value) pairs whose unmodified encoding round-trips are explored (C01 owns the others).',
    'Strings longer than 4 content octets are segmented at every subset of the cut points {1, n/2, n-1} with '
    'nesting 1 only; zero-length segments are generated only at the two ends of the one-segment form.',
    'Constructed nodes with more than 6 children (long SEQUENCE OF values): only the first three and last two '
    'children are rewrite sites.',
    'When a state has more than VMAX variants (or more than BMAX variant bytes, or variants x TLV nodes > NMAX) at R rewrites, R is lowered for that state (never below 1); the '
    'number of states explored at each R is in stats (states_R1, states_R2, ...).',
    'Unasserted: DATE, TIME-OF-DAY and DATE-TIME are never segmented (X.690 8.26 prescribes the primitive form for '
    'the TIME types as far as I can reconstruct it); UTCTime and GeneralizedTime are ([UNIVERSAL 23/24] IMPLICIT '
    'VisibleString, X.680 47/46, so X.690 8.23 allows the constructed form).',
    'Unasserted: re-ordering the elements of a SET OF value is not generated.',
    'Variants with >= 2 rewrites that contain a rewrite which already fails on its own are not run (counted in '
    'variants_not_run_superset_of_failing_rewrite); a failing variant that is a superset of a smaller failing rewrite '
    'set is counted (failures_subsumed) but not reported again.',
    'Terms whose tree cannot be labelled (the library tags them differently from X.680, e.g. IMPLICIT on an untagged '
    'CHOICE, AUTOMATIC numbering with a second extension marker) get the type-independent rewrites only '
    '(stats: states_unlabelled).',
    'Step budget: 3000 + 200 events per variant byte.',
]

TIERS = {
    # levels: (R, largest number of variants for which a state is explored with R rewrites), tried in order
    'quick': dict(R=2, levels=((2, 100),), nmax=6000, bmax=2 << 20, seg_depth=2, full=0, multi_pads=(2,)),
    'thorough': dict(R=3, levels=((3, 128), (2, 300)), nmax=6000, bmax=4 << 20, seg_depth=3, full=128, multi_pads=(2,)),
}
_tier = ['quick']


def bounds(tier):
    c = TIERS[tier]
    return {'tier': tier, 'R': c['R'],
            'R_by_state_size': ['R=%d when the state has <= %d variants with R rewrites' % lv for lv in c['levels']]
            + ['R=1 otherwise'],
            'max_variant_bytes_per_state': c['bmax'], 'max_variants_times_nodes_per_state': c['nmax'], 'string_nesting': c['seg_depth'],
            'full_product_up_to': c['full'], 'pads': [1, 2, 3, 4],
            'pads_in_variants_with_2_or_more_rewrites': list(c['multi_pads'] or (1, 2, 3, 4)), 'string_exhaustive_octets': 4,
            'set_permutation_members': 4, 'codec': CODEC,
            'layers': 'L0,L0c,families under EXPLICIT and AUTOMATIC TAGS; L1(W2,K2),L2 under EXPLICIT' if tier == 'quick'
            else 'L0,L0c,L1(W3,K2),L2,families; 5 environments'}


def setup(tier):
    from .. import values
    values.set_tier(tier)
    _tier[0] = tier


# ---------------------------------------------------------------------------
# constraint erasure and grouping

def erase(t):
    if isinstance(t, Leaf):
        k = t.kind
        if k == 'ENUMERATED':
            return t
        if k in ('BITSTRING', 'INTEGER'):
            return Leaf(k, named=t.named)
        return Leaf(k)
    if isinstance(t, Tag):
        return replace(t, inner=erase(t.inner))
    if isinstance(t, Of):
        return Of(erase(t.elem), None, t.is_set)
    if isinstance(t, (Seq, Cho)):
        def em(m):
            return replace(m, t=erase(m.t))

        def ea(a):
            return Grp(tuple(em(m) for m in a.members)) if isinstance(a, Grp) else em(a)
        kw = dict(root=tuple(em(m) for m in t.root), adds=tuple(ea(a) for a in t.adds))
        if isinstance(t, Seq):
            kw['root2'] = tuple(em(m) for m in t.root2)
        return replace(t, **kw)
    return t


class CUnit(object):
    """A unit of C04: a compiled module of erased terms; per top the original terms
    whose value domains are explored on it."""

    def __init__(self, unit, origs, orig_env, tier):
        self.unit = unit
        self.origs = origs
        self.orig_env = orig_env
        self.tier = tier
        self.label = unit.label


def units(tier):
    std = space.standard_units(tier)
    out = []
    groups = {}
    order = []
    for u in std:
        if tier == 'quick' and u.label.startswith(('L1/AUTOMATIC', 'L2/AUTOMATIC')):
            # quick: constructors over the reduced alphabet are explored under EXPLICIT TAGS only (AUTOMATIC
            # only renumbers their tags; the leaf-in-context layer L0c and the families keep both)
            continue
        if u.label.startswith('fam/'):
            out.append(CUnit(u, [[t] for _, t, _ in u.tops], u.env, tier))
            continue
        has_helpers = bool(u.helpers)
        for name, term, lab in u.tops:
            e = erase(term)
            key = (u.tags, u.ext_implied, has_helpers, e)
            if key not in groups:
                groups[key] = {'term': e, 'lab': lab, 'origs': [], 'env': u.env if has_helpers else {},
                               'tags': u.tags, 'ei': u.ext_implied, 'helpers': has_helpers}
                order.append(key)
            g = groups[key]
            if term not in g['origs']:
                g['origs'].append(term)
    # batch groups of the same environment
    byenv = {}
    for key in order:
        g = groups[key]
        byenv.setdefault((g['tags'], g['ei'], g['helpers']), []).append(g)
    for (tags, ei, helpers), gs in byenv.items():
        henv = {n: erase(t) for n, t in A.REF_ENV.items()} if helpers else None
        for bi in range(0, len(gs), GROUPS_PER_UNIT):
            chunk = gs[bi:bi + GROUPS_PER_UNIT]
            u = space.make_unit('C04/%s%s%s/%d' % (tags, '+EI' if ei else '', '/ref' if helpers else '', bi),
                                [(g['term'], g['lab']) for g in chunk], helpers=henv, tags=tags, ext_implied=ei)
            oenv = {}
            for g in chunk:
                for n, t in g['env'].items():
                    if not (n.startswith('T') and n[1:].isdigit()):
                        oenv[n] = t
            out.append(CUnit(u, [g['origs'] for g in chunk], oenv, tier))
    return out


# ---------------------------------------------------------------------------
# one state

def _cfg(tier):
    c = TIERS[tier]
    return tlv4.Cfg(seg_depth=c['seg_depth'], multi_pads=c['multi_pads'])


def _decode_batch(spec, name, items):
    out = []
    dwl = spec.decode_with_length
    for b in items:
        try:
            out.append(dwl(name, b))
        except Exception as e:
            out.append(e)
    return out


def _decode_plain_batch(spec, name, items):
    out = []
    dec = spec.decode
    for b in items:
        try:
            out.append((dec(name, b), None))
        except Exception as e:
            out.append(e)
    return out


def _limit(b):
    return 3000 + 200 * len(b)


def _run_batch(fn, spec, name, items):
    """Decode all items under one step budget; if it is exceeded, decode one by one
    to find the variant(s) that spin."""
    try:
        r, _ = budget.run(sum(_limit(b) for b in items) + 1000, fn, spec, name, items)
        return r
    except budget.BudgetExceeded:
        pass
    out = []
    for b in items:
        try:
            r, _ = budget.run(_limit(b), fn, spec, name, [b])
            out.append(r[0])
        except budget.BudgetExceeded as e:
            out.append(e)
    return out


def _judge(term, env, nv, base_dec, res, b, with_length):
    """None if the result is right, else (kind, detail)."""
    if isinstance(res, budget.BudgetExceeded):
        return ('budget-steps-decode', 'BudgetExceeded')
    if isinstance(res, BaseException):
        return ('decode-raised', errclass(res))
    dec, n = res
    if with_length and n != len(b):
        return ('length-mismatch', 'returned %r for %d bytes' % (n, len(b)))
    if type(dec) is type(base_dec) and dec == base_dec:
        return None
    try:
        if absval.norm(term, dec, env) == nv:
            return None
    except (ValueError, TypeError, KeyError, AttributeError):
        pass
    return ('value-mismatch', valrepr(dec)[:160])


def explore_state(spec, name, term, env, mode, v, enc, tier, stats=None, seen=None):
    """All variants of one encoding.  Returns (list of failures, info) where a failure
    is (kind, detail, variant bytes, ops) for minimal failing rewrite sets."""
    c = TIERS[tier]
    cfg = _cfg(tier)
    tree, labelled = label4.label_tree(term, v, enc, env, mode)
    if tlv4.serialise(tree) != enc:
        return [('tlv-model-disagrees', 'serialise(parse(x)) != x', enc, ())], None
    if seen is not None:
        sk = (name, tlv4.shape(tree))
        if sk in seen:
            if stats is not None:
                stats.count('values_same_shape')
            return [], None
        seen.add(sk)
    tlv4.mark_sites(tree, cfg)
    r = c['R']
    counts = None
    if c['full']:
        big = tlv4.count_all_variants(tree, 12, cfg)
        if sum(big) <= c['full'] and big[12] == 0:
            r = 12
            counts = big
    nnodes = tlv4.count_nodes(tree)
    if counts is None:
        r = 1
        for lr, lmax in c['levels']:
            cn = tlv4.count_all_variants(tree, lr, cfg)
            if sum(cn) <= lmax and sum(cn) * len(enc) <= c['bmax'] and sum(cn) * nnodes <= c['nmax']:
                r, counts = lr, cn
                break
        if counts is None:
            counts = tlv4.count_all_variants(tree, 1, cfg)
    nv = absval.norm(term, v, env)
    # phase 1: the encoder output itself and every single rewrite
    vs = tlv4.variants(tree, 1, cfg)
    results = _run_batch(_decode_batch, spec, name, [b for _, b, _ in vs])
    base = [x for x in zip(vs, results) if x[0][0] == 0]
    assert len(base) == 1 and base[0][0][1] == enc
    base_res = base[0][1]
    if isinstance(base_res, BaseException) or base_res[1] != len(enc):
        return [], {'skip': 'base-does-not-decode'}
    base_dec = base_res[0]
    try:
        if absval.norm(term, base_dec, env) != nv:
            return [], {'skip': 'base-roundtrip-mismatch'}
    except (ValueError, TypeError, KeyError, AttributeError):
        return [], {'skip': 'base-roundtrip-mismatch'}
    bad = []
    for (cost, b, ops), res in zip(vs, results):
        j = _judge(term, env, nv, base_dec, res, b, True)
        if j is not None:
            bad.append((cost, b, ops, j))
    # decode() proper on the <= 1-rewrite variants
    presults = _run_batch(_decode_plain_batch, spec, name, [b for _, b, _ in vs])
    already = {ops for _, _, ops, _ in bad}
    for (cost, b, ops), res in zip(vs, presults):
        j = _judge(term, env, nv, base_dec, res, b, False)
        if j is not None and ops not in already:
            # decode() disagrees although decode_with_length() was right on the same bytes
            bad.append((cost, b, ops, ('decode:' + j[0], j[1])))
    ncalls = 2 * len(vs)
    # phase 2: every combination of 2..r rewrites none of which fails on its own
    pruned = 0
    if r >= 2:
        banned = frozenset(ops[0] for _, _, ops, _ in bad if len(ops) == 1)
        vs2 = tlv4.multi_variants(tree, r, cfg, banned)
        pruned = max(0, sum(counts[2:]) - len(vs2)) if banned else 0
        results = _run_batch(_decode_batch, spec, name, [b for _, b, _ in vs2])
        for (cost, b, ops), res in zip(vs2, results):
            j = _judge(term, env, nv, base_dec, res, b, True)
            if j is not None:
                bad.append((cost, b, ops, j))
        ncalls += len(vs2)
        vs = vs + vs2
    failing = {frozenset(ops) for _, _, ops, _ in bad}
    fails = []
    subsumed = 0
    bad.sort(key=lambda x: (x[0], len(x[1]), x[1], x[3]))
    for cost, b, ops, (kind, detail) in bad:
        s = frozenset(ops)
        minimal = True
        if len(ops) > 1:
            opl = list(ops)
            for mask in range(1, (1 << len(opl)) - 1):
                sub = frozenset(o for i, o in enumerate(opl) if mask >> i & 1)
                if sub in failing:
                    minimal = False
                    break
        if minimal:
            fails.append((kind, detail, b, ops))
        else:
            subsumed += 1
    info = {'r': r, 'variants': len(vs), 'rewrites': sum(cost for cost, _, _ in vs), 'labelled': labelled,
            'nodes': tlv4.count_nodes(tree), 'subsumed': subsumed, 'decode_calls': ncalls, 'pruned': pruned,
            'by_cost': counts, 'ops': _op_kinds(vs)}
    return fails, info


def _op_kinds(vs):
    out = {}
    for cost, b, ops in vs:
        for o in ops:
            out[o[1]] = out.get(o[1], 0) + 1
    return out


def fail_detail(ops, detail, kind=''):
    # the decoded value of a mismatch is kept out of the detail (it goes into `observed`)
    if kind.endswith('value-mismatch'):
        detail = 'decodes to another value'
    return 'ops=%s; %s' % ('+'.join(tlv4.op_classes(ops)) or 'none', detail)


def _encode(spec, name, v):
    ct = spec.types[name]
    try:
        ct.check_types(v)
        ct.check_constraints(v)
    except (impl.asn1tools.EncodeError, impl.asn1tools.ConstraintsError):
        return None
    except Exception:
        return None
    try:
        enc, _ = budget.run(20000 + 4000 * 64 + 60 * _sizeof(v), spec.encode, name, v)
        return bytes(enc)
    except budget.BudgetExceeded:
        return None
    except Exception:
        return None


def _sizeof(v):
    if isinstance(v, (bytes, bytearray, str)):
        return len(v)
    if isinstance(v, (list, tuple)):
        return 1 + sum(_sizeof(x) for x in v)
    if isinstance(v, dict):
        return 1 + sum(_sizeof(x) for x in v.values())
    return 1


def work(cu):
    res = Result()
    unit = cu.unit
    tier = cu.tier
    compiled = impl.compile_tops(unit, (CODEC,), (False,))[(False, CODEC)]
    for i, (name, term, lab) in enumerate(unit.tops):
        res.count('types')
        res.count('original_terms', len(cu.origs[i]))
        c = compiled[i]
        if isinstance(c, BaseException):
            res.count('types_rejected_by_compiler')
            res.outcome('compile-rejected:' + errclass(c)[:50])
            continue
        spec, tname = c
        seen_v = set()
        seen_shape = set()
        reported = set()
        for ot in cu.origs[i]:
            vals = dom(ot, cu.orig_env if cu.orig_env else unit.env)
            if not vals:
                continue
            for v in vals:
                rv = repr(v)
                if rv in seen_v:
                    continue
                seen_v.add(rv)
                res.count('values')
                enc = _encode(spec, tname, v)
                if enc is None:
                    res.count('values_not_encoded')
                    continue
                fails, info = explore_state(spec, tname, term, unit.env, unit.tags, v, enc, tier, res, seen_shape)
                if info is None and not fails:
                    continue
                if info is not None and 'skip' in info:
                    res.count('states_skipped:' + info['skip'])
                    continue
                if info is not None:
                    res.count('states')
                    res.count('states_R%d' % info['r'])
                    res.count('evaluations', info['variants'])
                    res.count('decode_calls', info['decode_calls'])
                    res.count('rewrites_applied', info['rewrites'])
                    res.count('failures_subsumed', info['subsumed'])
                    res.count('variants_not_run_superset_of_failing_rewrite', info['pruned'])
                    res.count('states_labelled' if info['labelled'] else 'states_unlabelled')
                    for k, n in info['ops'].items():
                        res.count('op_' + k, n)
                    res.outcome('state-ok' if not fails else 'state-with-failures')
                    if len(res.samples) < 2 and info['nodes'] > 1:
                        res.samples.append({'type': render_type(term, unit.env)[:160], 'env': unit.tags,
                                            'value': valrepr(v)[:80], 'encoding': enc.hex()[:80],
                                            'R': info['r'], 'variants': info['variants'],
                                            'variants_by_rewrites': info['by_cost']})
                for kind, detail, b, ops in fails:
                    d = fail_detail(ops, detail, kind)
                    sig = '|'.join([kind, lab.split(':')[0], _opsig(d), detail.split(':')[0] if 'raised' in kind else ''])
                    res.outcome(kind)
                    if sig in reported:
                        res.count('failures_same_sig_same_type')
                        continue
                    reported.add(sig)
                    res.failures.append(new_failure(
                        ID, kind, sig, codec=CODEC, numeric=False, detail=d, observed=detail[:200], encoded=b.hex()[:400],
                        base_encoding=enc.hex()[:400], ops=tlv4.describe_ops(ops),
                        size=len(render_type(term, unit.env)) + len(valrepr(v)) + 10 * len(ops),
                        layer=lab.split(':')[0], **case_fields(unit, name, term, v)))
    return res


def coverage(stats, tier):
    return {
        'states': stats.get('states', 0),
        'transitions': stats.get('rewrites_applied', 0),
        'traces_validated_against_impl': stats.get('evaluations', 0),
        'evaluations': stats.get('evaluations', 0),
        'distinct_nontrivial': stats.get('evaluations', 0) - stats.get('states', 0),
        'rule': 'a state is a distinct (constraint-erased term, environment, TLV shape of the encoder output) triple; a '
                'transition is one rewrite (indef / pad k / seg / perm) applied while generating a variant; every '
                'generated variant (trace) is decoded by the implementation with decode_with_length (and decode for '
                '<= 1 rewrite) and compared with the encoded value and its own length; a trace is non-trivial when it '
                'has at least one rewrite',
        'exhaustive': True,
    }


# ---------------------------------------------------------------------------
# shrinking / replay

def _opsig(detail):
    return detail.split(';')[0]


def run_case(failure, unit, name, term, v):
    try:
        spec = impl.compile_parsed(unit.spec, [CODEC], False)[CODEC]
    except Exception:
        return None
    enc = _encode(spec, name, v)
    if enc is None:
        return None
    fails, info = explore_state(spec, name, term, unit.env, unit.tags, v, enc, failure.get('tier', _tier[0]))
    want = _opsig(failure['detail'])
    best = None
    for kind, detail, b, ops in fails:
        d = fail_detail(ops, detail, kind)
        if kind == failure['kind'] and _opsig(d) == want:
            return (kind, d, b)
        if kind == failure['kind'] and best is None:
            best = (kind, d, b)
    return best


def _same(failure, r):
    return _opsig(r[1]) == _opsig(failure['detail'])


def shrink(failure):
    failure = dict(failure, tier=_tier[0])
    # A failure is one *minimal* rewrite set; its root cause is identified by the rewrite classes
    # (operation + verified node label), not by the surrounding term.  When the unshrunk case is
    # already recognised as a listed known finding, the (expensive: one parse per candidate) term
    # shrinking is skipped; everything else is shrunk to a 1-minimal (term, value).
    try:
        unit, name, term, v = rebuild_case(failure)
        probe = dict(failure, _term=term, _value=v, _env=unit.env)
        from .. import runner
        if runner.match_known(ID, probe, runner.load_known()) is not None:
            probe['spec'] = unit.spec
            probe['shrunk_tests'] = 0
            return probe
    except Exception:
        pass
    return shrinker.shrink_failure(failure, run_case, _same)


def replay(case):
    unit, name, term, v = rebuild_case(case)
    r = run_case(case, unit, name, term, v)
    if r is None:
        return None
    return {'kind': r[0], 'detail': r[1], 'encoded': r[2].hex()}
