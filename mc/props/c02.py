"""C02 Text codecs (JER, XER) round-trip every value and emit well-formed documents.

Space: the standard program space x boundary values x {jer, xer} x indent in
{None, 0, 1, 4} x numeric_enums (terms with ENUMERATED), plus markup-significant
strings.  Oracle: output is strict JSON (no NaN/Infinity tokens, no duplicate
keys) / well-formed XML (expat); decode gives an abstractly equal value (REAL by
IEEE-754 bits); every indent decodes to the same value.
"""

import json
import xml.parsers.expat

from .. import impl, space, budget
from ..runner import Result, new_failure
from ..terms import Leaf, has_kind, render_type
from ..values import dom, to_numeric
from .. import absval
from ..casefmt import (vclass, errclass, valrepr, case_fields, rebuild_case, leafkeys,
                       attribute_to_leaf_failures, leaf_components)
from .. import shrink as shrinker

ID = 'C02'
LEVEL = 'model_checking'
CODECS = ('jer', 'xer')
INDENTS = (None, 0, 1, 4)
ASSUMPTIONS = [
    'Well-formedness readers: CPython json (strict: NaN/Infinity constants and duplicate keys rejected by hooks) '
    'and expat; they are independent of asn1tools\' own encoders.',
    'For XER, values containing characters that XML 1.0 cannot carry (C0 controls other than TAB/LF/CR, U+FFFE, '
    'U+FFFF, surrogates) are outside the property\'s quantifier and skipped (counted).',
    'Program/value space as C01; indent variants beyond None are run on the first 6 values of each type.',
]
C0, C1 = 20000, 4000

SPECIAL_STRINGS = ['a<b', 'a&b', 'a>b', 'a"b', "a'b", ' lead', 'trail ', '  ', 'a\tb', 'a\nb', 'a\rb',
                   ']]>', '<![CDATA[x]]>', '&amp;', '\\', '/', 'a\\"b', 'é€', '{', '[1]', 'null', 'true']


def bounds(tier):
    return {'tier': tier, 'program_space': 'standard_units(%s) + markup-significant strings' % tier,
            'codecs': list(CODECS), 'indents': list(INDENTS), 'numeric_enums': [False, True]}


def setup(tier):
    from .. import values
    values.set_tier(tier)


def units(tier):
    us = space.standard_units(tier)
    tops = [(Leaf(k), 'L0:special:' + k) for k in ('UTF8String', 'IA5String', 'VisibleString', 'PrintableString',
                                                    'GeneralString', 'BMPString', 'UniversalString')]
    su = space.make_unit('special-strings', tops)
    su.extra['values'] = SPECIAL_STRINGS
    return [su] + space.special_string_units(SPECIAL_STRINGS) + us


def xml_legal(s):
    for ch in s:
        o = ord(ch)
        if o < 0x20 and ch not in '\t\n\r':
            return False
        if o in (0xfffe, 0xffff) or 0xd800 <= o <= 0xdfff:
            return False
    return True


def value_xml_legal(term, v, env):
    """Every character string anywhere in the value is XML-1.0-legal (the whole value is walked:
    casefmt.leaf_components only samples long lists)."""
    if isinstance(v, str):
        return xml_legal(v)
    if isinstance(v, dict):
        return all(value_xml_legal(term, x, env) for x in v.values())
    if isinstance(v, (list, tuple)):
        return all(value_xml_legal(term, x, env) for x in v)
    return True


class NotWellFormed(Exception):
    pass


def _reject_constant(name):
    raise NotWellFormed('JSON constant ' + name)


def _no_dups(pairs):
    keys = [k for k, _ in pairs]
    if len(set(keys)) != len(keys):
        raise NotWellFormed('duplicate key')
    return dict(pairs)


def well_formed(codec, enc):
    try:
        text = enc.decode('utf-8')
    except UnicodeDecodeError as e:
        return 'not utf-8: %s' % e.reason
    if codec == 'jer':
        try:
            json.loads(text, parse_constant=_reject_constant, object_pairs_hook=_no_dups)
        except NotWellFormed as e:
            return str(e)
        except ValueError as e:
            return 'json: ' + str(e)[:40]
        return None
    p = xml.parsers.expat.ParserCreate()
    try:
        p.Parse(text, True)
    except xml.parsers.expat.ExpatError as e:
        return 'xml: ' + str(e).split(':')[0]
    return None


def check_value(spec, codec, name, term, env, v, numeric, res, indents):
    ct = spec.types[name]
    pv = to_numeric(term, v, env) if numeric else v
    try:
        ct.check_types(pv)
        ct.check_constraints(pv)
    except (impl.asn1tools.EncodeError, impl.asn1tools.ConstraintsError):
        res.count('values_rejected_by_checks')
        return None
    except Exception as e:
        return ('check-raised-foreign', errclass(e), None)
    if codec == 'xer' and not value_xml_legal(term, pv, env):
        res.count('values_not_representable_in_xml')
        return None
    decoded0 = None
    for indent in indents:
        res.count('evaluations')
        kwargs = {} if indent is None else {'indent': indent}
        try:
            enc, _ = budget.run(C0 + C1 * 64 + 200 * _sizeof(pv), lambda: bytes(ct.encode(pv, **kwargs)))
        except budget.BudgetExceeded:
            return ('budget-steps-encode', 'BudgetExceeded', None)
        except Exception as e:
            return ('encode-raised', errclass(e), None)
        wf = well_formed(codec, enc)
        if wf is not None:
            return ('not-well-formed', wf, enc)
        try:
            dec, _ = budget.run(C0 + C1 * (len(enc) + 1), ct.decode, enc)
        except budget.BudgetExceeded:
            return ('budget-steps-decode', 'BudgetExceeded', enc)
        except Exception as e:
            return ('decode-raised', errclass(e), enc)
        if not absval.eq(term, pv, dec, env, numeric):
            return ('roundtrip-mismatch', valrepr(dec)[:4000], enc)
    res.outcome('ok:' + codec)
    return None


def _sizeof(v):
    if isinstance(v, (bytes, bytearray, str)):
        return len(v)
    if isinstance(v, (list, tuple)):
        return 1 + sum(_sizeof(x) for x in v)
    if isinstance(v, dict):
        return 1 + sum(_sizeof(x) for x in v.values())
    return 1


def has_enum(t, env):
    return has_kind(t, env, lambda s: isinstance(s, Leaf) and s.kind == 'ENUMERATED')


def work(unit):
    res = Result()
    any_enum = any(has_enum(t, unit.env) for _, t, _ in unit.tops)
    compiled = impl.compile_tops(unit, CODECS, (False, True) if any_enum else (False,))
    for i, (name, term, lab) in enumerate(unit.tops):
        res.count('types')
        res.states.add(hash((unit.tags, unit.ext_implied, term)))
        values = space.values_of(unit, term)
        if not values:
            continue
        res.count('values', len(values))
        if len(res.samples) < 2:
            res.samples.append({'type': render_type(term, unit.env)[:200], 'value': valrepr(values[len(values) // 2])[:120],
                                'codecs': list(CODECS), 'indents': list(INDENTS)})
        for numeric in ((False, True) if has_enum(term, unit.env) else (False,)):
            for codec in CODECS:
                c = compiled[(numeric, codec)][i]
                if isinstance(c, BaseException):
                    res.count('types_rejected_by_compiler')
                    res.outcome('compile-rejected:%s:%s' % (codec, errclass(c)[:50]))
                    continue
                spec, tname = c
                for vi, v in enumerate(values):
                    indents = INDENTS if vi < 6 or unit.extra.get('all_indents') else (None,)
                    r = check_value(spec, codec, tname, term, unit.env, v, numeric, res, indents)
                    if r is not None:
                        kind, detail, enc = r
                        sig = '|'.join([kind, codec, 'ne' if numeric else '', lab, vclass(v),
                                        detail if kind != 'roundtrip-mismatch' else ''])
                        res.outcome(kind + ':' + codec)
                        res.failures.append(new_failure(
                            ID, kind, sig, codec=codec, numeric=numeric, detail=detail,
                            encoded=enc.decode('utf-8', 'replace')[:400] if enc is not None else None,
                            size=len(render_type(term, unit.env)) + len(valrepr(v)),
                            layer=lab.split(':')[0],
                            leafkeys=None if lab.startswith('L0:') else leafkeys(term, v, unit.env),
                            **case_fields(unit, name, term, v)))
    return res


def attribute(failures):
    return attribute_to_leaf_failures(failures)


def coverage(stats, tier):
    return {
        'states': stats.get('types', 0) + stats.get('values', 0),
        'transitions': stats.get('evaluations', 0) * 2,
        'traces_validated_against_impl': stats.get('evaluations', 0),
        'evaluations': stats.get('evaluations', 0),
        'distinct_nontrivial': stats.get('evaluations', 0),
        'rule': 'every (environment, type term, boundary value, codec, indent, numeric_enums) tuple is enumerated '
                'once; non-trivial = the value passed the library\'s checks, was encoded, read by the independent '
                'JSON/XML reader and decoded; states = type terms + values, transitions = encode + decode calls',
        'exhaustive': True,
    }


def run_case(failure, unit, name, term, v):
    res = Result()
    try:
        spec = impl.compile_parsed(unit.spec, [failure['codec']], failure['numeric'])[failure['codec']]
    except Exception:
        return None
    return check_value(spec, failure['codec'], name, term, unit.env, v, failure['numeric'], res, INDENTS)


def shrink(failure):
    return shrinker.shrink_failure(failure, run_case)


def replay(case):
    unit, name, term, v = rebuild_case(case)
    r = run_case(case, unit, name, term, v)
    if r is None:
        return None
    return {'kind': r[0], 'detail': r[1], 'encoded': r[2].decode('utf-8', 'replace') if r[2] is not None else None}
