"""C08 Decoding arbitrary bytes always terminates within bounded time and memory.

Fault enumeration on a family of types per codec:
 (a) ALL byte strings of length <= 2 (65 793 of them); thorough: also all strings
     of length 3-4 over a 12-byte alphabet; for the text codecs (jer, xer) all
     strings of length <= 3 over a syntactic alphabet plus a fixed list of
     structurally adversarial documents;
 (b) every valid encoding of the type's boundary values with <= E edits from a
     finite edit alphabet (substitute, delete, insert, truncate, duplicate
     suffix, splice the tail of another valid encoding).
Oracle: the call returns or raises (any exception class) within the
deterministic step budget, without MemoryError under an address-space cap and
with a result no larger than the size bound; afterwards the sentinel battery
(valid encodings of the same specification) still decodes to the same values.
"""

import itertools
import time
import resource

from .. import impl, space, budget
from ..runner import Result, new_failure
from ..terms import Leaf, Rng, Seq, Cho, Of, Ref, Tag, M, Grp, MIN, MAX, render_type, resolve, subterms
from ..values import dom
from ..casefmt import errclass, valrepr, case_fields, rebuild_case
from .. import shrink as shrinker

ID = 'C08'
LEVEL = 'fault_enumeration'
CODECS = impl.BINARY + impl.TEXT
R = Rng
B = Leaf('BOOLEAN')
I8 = Leaf('INTEGER', rng=R(0, 255))

# step budget: c0 + c1 * (len(input) + 1) * (nesting + 1)
C0 = 30000
C1 = 2500
C1_ZERO_WIDTH = 1500000      # types holding a list of zero-width elements (PER: up to 64K elements per length octet)
SIZE_C0, SIZE_C1 = 256, 64   # result nodes <= SIZE_C0 + SIZE_C1 * len(input)   (zero-width lists: 70000 per byte)
CPU_CAP = 5.0                # seconds of process CPU time for ONE decode (typical: 20-200 microseconds)
AS_CAP = 1024 ** 3          # 1 GiB: far above anything a decode of <= 4 KiB legitimately needs

ASSUMPTIONS = [
    'Budget constants (fixed, printed in bounds): steps <= 30000 + 2500*(len+1)*(nesting+1); types that contain a '
    'list whose elements have zero-width encodings use 1.5e6 per byte (X.691 lets one length octet announce 64K '
    'such elements) and are only explored on inputs <= 8 bytes; result size <= 256 + 64*len nodes (70000*len for '
    'zero-width lists); address space capped at 1 GiB (MemoryError is a violation).',
    '"Any byte string whatsoever" is explored as: all strings of length <= 2 (thorough: <= 4 over a 12-byte '
    'alphabet) and all <= E-edit variants of valid encodings (quick E=1, thorough E=2 on encodings <= 24 bytes).',
    'The statelessness part is checked by a sentinel battery at the end of every work unit, not after every input.',
    'Besides the deterministic step budget there is one CPU-time backstop: a single decode that uses more than 5 s of '
    'process CPU time (10^4 times the typical cost) is reported as budget-cpu - this catches work the step counter '
    'cannot see (a C-level allocation sized by a length field); after eight memory / CPU failures in one work unit the '
    'remaining inputs of that unit are skipped (counted), the verdict being decided.',
    'BER: the base encodings of the edit stage also include valid re-serialisations of the encoder output (indefinite '
    'length, constructed string forms, padded length; one rewrite each, from mc/tlv4.py), because the encoder never '
    'emits those forms and the decoder loops that handle them are otherwise more than one edit away.',
]

ALPHA12 = bytes([0x00, 0x01, 0x02, 0x03, 0x04, 0x30, 0x31, 0x7f, 0x80, 0x81, 0xa0, 0xff])
SUBST_QUICK = bytes([0x00, 0x01, 0x02, 0x03, 0x04, 0x05, 0x06, 0x0a, 0x10, 0x1f, 0x20, 0x30, 0x31, 0x3f, 0x40,
                     0x7f, 0x80, 0x81, 0x82, 0x84, 0x88, 0xa0, 0xc0, 0xc1, 0xc4, 0xfe, 0xff])
TEXT_ALPHA = [b'{', b'}', b'[', b']', b'"', b':', b',', b'1', b'-', b'e', b'<', b'>', b'/', b'a', b' ', b'&', b';',
              b'\\', b'null', b'true', b'<a>', b'</a>', b'\xff', b'\x00']


def family(tier):
    """[(label, {name: term}, top name, zero_width?)]"""
    fam = []

    def add(label, term, env=None, zw=False, nest=1):
        env = dict(env or {})
        env['T'] = term
        fam.append((label, env, 'T', zw, nest))

    add('bool', B)
    add('int', Leaf('INTEGER'))
    add('int8', I8)
    add('int-ext', Leaf('INTEGER', rng=R(0, 65535, ext=True)))
    add('int-big', Leaf('INTEGER', rng=R(0, 2**64)))
    add('enum-ext', Leaf('ENUMERATED', enum=(('a', None), ('b', None)), enum_adds=(('x', None),)))
    add('real', Leaf('REAL'))
    add('null', Leaf('NULL'))
    add('oid', Leaf('OID'))
    add('bits', Leaf('BITSTRING'))
    add('bits16', Leaf('BITSTRING', size=R(0, 16)))
    add('octets', Leaf('OCTETSTRING'))
    add('octets3', Leaf('OCTETSTRING', size=R(3, 3, single=True)))
    add('ia5', Leaf('IA5String'))
    add('ia5-from', Leaf('IA5String', alpha='abcd', size=R(1, 4)))
    add('utf8', Leaf('UTF8String'))
    add('bmp', Leaf('BMPString'))
    add('utctime', Leaf('UTCTime'))
    add('gentime', Leaf('GeneralizedTime'))
    add('seq', Seq((M('a', B), M('b', Tag(0, Leaf('INTEGER')), 'O'),
                    M('c', Tag(1, Leaf('IA5String')), 'D', default='ab'))), nest=2)
    add('seq-ext', Seq((M('a', Tag(0, B)),), ext=True,
                       adds=(M('x', Tag(1, I8), 'O'), Grp((M('y', Tag(2, Leaf('OCTETSTRING'))), M('z', Tag(3, B), 'O'))))),
        nest=3)
    add('set', Seq((M('a', Tag(0, B)), M('b', Tag(1, I8), 'O'), M('c', Tag(2, Leaf('NULL')))), is_set=True), nest=2)
    add('cho-ext', Cho((M('a', Tag(0, B)), M('b', Tag(1, Leaf('INTEGER')))), ext=True,
                       adds=(M('x', Tag(2, Leaf('OCTETSTRING'))),)), nest=2)
    add('seqof-int', Of(Leaf('INTEGER')), nest=2)
    add('seqof-int8-sized', Of(I8, size=R(0, 3)), nest=2)
    add('seqof-null', Of(Leaf('NULL')), zw=True, nest=2)
    add('seqof-seq', Of(Seq((M('a', B), M('b', I8, 'O')))), nest=3)
    add('setof-octets', Of(Leaf('OCTETSTRING'), is_set=True), nest=2)
    add('expl', Tag(5, Seq((M('a', Tag(6, Leaf('INTEGER'), mode='EXPLICIT')),)), cls='APPLICATION', mode='EXPLICIT'),
        nest=3)
    add('rec-list', Seq((M('v', I8), M('n', Ref('T'), 'O'))), nest=6)
    add('rec-tree', Cho((M('leaf', Tag(0, I8)), M('node', Tag(1, Of(Ref('T')))))), nest=6)
    inner_cho = Cho((M('p', Tag(0, Of(Leaf('IA5String', size=R(0, 3))))),
                     M('q', Tag(1, Seq((M('i', Leaf('INTEGER')),))))))
    add('nested', Seq((M('h', B), M('x', inner_cho), M('t', I8))), nest=4)
    if tier == 'thorough':
        add('seqof-bool', Of(B), nest=2)
        add('seqof-opt-seq', Of(Seq((M('o', B, 'O'),))), nest=3)
        add('seqof-int1', Of(Leaf('INTEGER', rng=R(5, 5, single=True))), zw=True, nest=2)
        add('bits-fixed', Leaf('BITSTRING', size=R(17, 17, single=True)))
        add('ia5-ext', Leaf('IA5String', size=R(1, 2, ext=True)))
        add('univ', Leaf('UniversalString'))
        add('numeric', Leaf('NumericString', size=R(0, 5)))
        add('date', Leaf('DATE'))
        add('seq-of-cho', Of(Cho((M('a', B), M('b', I8))), size=R(0, 2)), nest=3)
        add('set-ext', Seq((M('a', Tag(0, B)),), ext=True, adds=(M('x', Tag(1, Leaf('IA5String')), 'O'),), is_set=True),
            nest=2)
        add('seq-default-seq', Seq((M('a', B), M('s', Seq((M('i', I8, 'O'),)), 'O'))), nest=3)
        add('int-neg', Leaf('INTEGER', rng=R(-128, 127)))
        add('enum-big', Leaf('ENUMERATED', enum=(('a', 0), ('b', 300), ('c', -5))))
    return fam


class CUnit:
    def __init__(self, label, codec, fam, part, tier):
        self.label = label
        self.codec = codec
        self.fam = fam
        self.part = part
        self.tier = tier


def units(tier):
    out = []
    fams = family(tier)
    for codec in CODECS:
        for f in fams:
            for part in ('short', 'edits'):
                out.append(CUnit('%s/%s/%s' % (codec, f[0], part), codec, f, part, tier))
    return out


def bounds(tier):
    return {'tier': tier, 'types_per_codec': len(family(tier)), 'codecs': list(CODECS),
            'short_strings': 'all of length <= 2' + ('; length 3-4 over %s' % ALPHA12.hex() if tier == 'thorough' else ''),
            'edits': 1 if tier == 'quick' else 2, 'C0': C0, 'C1': C1, 'C1_zero_width': C1_ZERO_WIDTH,
            'size_bound': [SIZE_C0, SIZE_C1], 'address_space_cap': AS_CAP}


def spec_text(env, top):
    from ..terms import Module, render_module
    from ..tagging import legalize
    types = [(n, legalize(t, env, 'EXPLICIT')) for n, t in env.items()]
    return render_module(Module('M', types))


def result_nodes(v, cap=10 ** 7):
    n = 0
    stack = [v]
    while stack:
        x = stack.pop()
        n += 1
        if n > cap:
            return n
        if isinstance(x, dict):
            stack.extend(x.values())
        elif isinstance(x, (list, tuple)):
            stack.extend(x)
        elif isinstance(x, (bytes, bytearray, str)):
            n += len(x) // 8
    return n


def short_inputs(codec, tier):
    if codec in impl.TEXT:
        yield b''
        for n in (1, 2, 3):
            for combo in itertools.product(TEXT_ALPHA, repeat=n):
                yield b''.join(combo)
        yield from adversarial(codec)
        return
    yield b''
    for a in range(256):
        yield bytes([a])
    for a in range(256):
        for b in range(256):
            yield bytes([a, b])
    if tier == 'thorough':
        for n in (3, 4):
            for combo in itertools.product(ALPHA12, repeat=n):
                yield bytes(combo)


def adversarial(codec):
    if codec == 'jer':
        yield b'[' * 10000
        yield b'[' * 10000 + b']' * 10000
        yield b'{"a":' * 5000 + b'1' + b'}' * 5000
        yield b'1' * 5000
        yield b'"' + b'a' * 5000
        yield b'1e99999'
        yield b'-' * 1000
    else:
        yield b'<a>' * 10000
        yield b'<a>' * 3000 + b'</a>' * 3000
        yield b'<T>' + b'1' * 5000 + b'</T>'
        yield (b'<?xml version="1.0"?><!DOCTYPE l [<!ENTITY a "aaaaaaaaaa">'
               b'<!ENTITY b "&a;&a;&a;&a;&a;&a;&a;&a;&a;&a;"><!ENTITY c "&b;&b;&b;&b;&b;&b;&b;&b;&b;&b;">'
               b'<!ENTITY d "&c;&c;&c;&c;&c;&c;&c;&c;&c;&c;"><!ENTITY e "&d;&d;&d;&d;&d;&d;&d;&d;&d;&d;">'
               b'<!ENTITY f "&e;&e;&e;&e;&e;&e;&e;&e;&e;&e;">]><T>&f;</T>')
        yield b'<T ' + b'a="1" ' * 3000 + b'/>'


def edits(enc, others, tier, codec):
    """All 1-edit variants of enc (deterministic order, deduplicated by the caller)."""
    n = len(enc)
    subst = range(256) if tier == 'thorough' else SUBST_QUICK
    if codec in impl.TEXT:
        subst = b''.join(x for x in TEXT_ALPHA if len(x) == 1) + b'0\n\t'
    positions = range(n) if n <= 64 else list(range(32)) + list(range(n - 32, n))
    for i in positions:
        for b in subst:
            if enc[i] != b:
                yield enc[:i] + bytes([b]) + enc[i + 1:]
        yield enc[:i] + bytes([enc[i] ^ 0x01]) + enc[i + 1:]
        yield enc[:i] + bytes([enc[i] ^ 0x80]) + enc[i + 1:]
        yield enc[:i] + enc[i + 1:]                       # delete
        yield enc[:i]                                     # truncate
        yield enc[:i] + enc[i:] + enc[i:]                 # duplicate suffix
        for b in (ALPHA12 if codec not in impl.TEXT else b'{["<&1'):
            yield enc[:i] + bytes([b]) + enc[i:]          # insert
        for o in others[:3]:
            if o is not enc:
                yield enc[:i] + o[min(i, len(o)):]        # splice tail of another encoding
        if codec not in impl.TEXT:
            for k in (2, 3, 4, 8):                        # length-field tampering
                yield enc[:i] + bytes([0x80 | k]) + b'\xff' * k + enc[i + 1:]
                yield enc[:i] + bytes([k]) + b'\xff' * k + enc[i + 1:]
            for fr in (0xc1, 0xc4):                       # PER fragment announcement
                yield enc[:i] + bytes([fr]) + enc[i + 1:]
    for b in (ALPHA12 if codec not in impl.TEXT else b'{["<&1'):
        yield enc + bytes([b])


_STRING_TAGS = (12, 18, 19, 20, 21, 22, 25, 26, 27, 28, 30)


def ber_reserialisations(enc, tier):
    """Valid BER re-serialisations of a valid encoding (one rewrite each: indefinite length, constructed
    string forms with one / two / nested segments, a padded length), produced by the independent TLV
    library mc/tlv4.py.  The encoder only ever emits the primitive definite form, so without these the
    1-edit neighbourhood never reaches the decoder's constructed-string and end-of-contents loops.
    Type-independent labelling: only UNIVERSAL OCTET STRING / BIT STRING / character string nodes are
    segmented.  quick: per rewrite site one two-segment and one nested form; thorough: all."""
    from .. import tlv4
    try:
        node, end = tlv4.parse(enc)
        if end != len(enc):
            return []
    except Exception:
        return []

    def lab(x):
        if x.cons:
            for k in x.kids:
                lab(k)
        elif x.cls == 0 and x.num == 4:
            x.lab = 'oct'
        elif x.cls == 0 and x.num == 3 and len(x.content) >= 1:
            x.lab = 'bits'
        elif x.cls == 0 and x.num in _STRING_TAGS:
            x.lab = 'oct'
    lab(node)
    cfg = tlv4.Cfg(pads=(1,), seg_depth=2, seg_max=4)
    tlv4.mark_sites(node, cfg)
    try:
        vs = tlv4.variants(node, 1, cfg)
    except Exception:
        return []
    out, taken = [], set()
    for cost, data, ops in vs:
        if cost != 1:
            continue
        path, op, arg, _ = ops[0]
        if tier != 'thorough':
            cls = (path, op) if op != 'seg' else (path, op, 'nested' if arg.startswith('[[') else
                                                   'two' if ',' in arg else 'one')
            if cls in taken:
                continue
            taken.add(cls)
        out.append(bytes(data))
    return out


def limits(zw, nest, n):
    c1 = C1_ZERO_WIDTH if zw else C1
    steps = C0 + c1 * (n + 1) * (nest + 1)
    size = SIZE_C0 + (70000 if zw else SIZE_C1) * (n + 1)
    return steps, size


def apply_caps():
    """Address-space cap for this process (work units, shrinking and replay all decode hostile inputs)."""
    try:
        soft, hard = resource.getrlimit(resource.RLIMIT_AS)
        if soft == resource.RLIM_INFINITY or soft > AS_CAP:
            resource.setrlimit(resource.RLIMIT_AS, (AS_CAP, hard))
    except (ValueError, OSError):
        pass


def probe(ct, data, zw, nest):
    """Decode one input. Returns None when within budget, else (kind, detail)."""
    apply_caps()
    steps, size = limits(zw, nest, len(data))
    t0 = time.process_time()
    try:
        dec, used = budget.run(steps, ct.decode, data)
    except budget.BudgetExceeded:
        return ('budget-steps', 'more than %d steps' % steps)
    except MemoryError:
        return ('budget-memory', 'MemoryError under %d byte address space' % AS_CAP)
    except RecursionError:
        dec = None           # an exception is an acceptable outcome
    except Exception:
        dec = None
    cpu = time.process_time() - t0
    if cpu > CPU_CAP:
        # work the step counter cannot see (one C-level operation sized by the input's announcement, e.g. a list
        # pre-allocated from a quantity field): CPU seconds of THIS process for one input of a few bytes
        return ('budget-cpu', 'one decode of %d bytes used more than %g s of CPU time' % (len(data), CPU_CAP))
    n = result_nodes(dec)
    if n > size:
        return ('budget-size', 'result of %d nodes from %d bytes' % (n, len(data)))
    return None


def work(unit):
    res = Result()
    label, env, top, zw, nest = unit.fam
    codec, tier = unit.codec, unit.tier
    try:
        soft, hard = resource.getrlimit(resource.RLIMIT_AS)
        resource.setrlimit(resource.RLIMIT_AS, (AS_CAP, hard))
    except (ValueError, OSError):
        pass
    text = spec_text(env, top)
    try:
        spec = impl.compile_text(text, codec)
    except Exception as e:
        res.outcome('compile-rejected:%s:%s' % (codec, errclass(e)[:40]))
        return res
    ct = spec.types[top]
    term = env[top]
    # sentinel battery: valid values and their encodings
    sentinels = []
    for v in (dom(term, env, big=False) or [])[:10]:
        try:
            ct.check_types(v)
            ct.check_constraints(v)
            enc = bytes(ct.encode(v))
            dec = ct.decode(enc)
        except Exception:
            continue
        sentinels.append((enc, dec))
    res.count('sentinels', len(sentinels))
    seen = set()

    def run(data, how):
        if data in seen:
            return
        seen.add(data)
        if zw and len(data) > 8:
            return
        if res.stats.get('resource_failures_in_unit', 0) >= 8:
            # this type's decoder has already been shown to blow the memory / CPU budget eight times: the verdict for
            # the unit is decided, the remaining inputs (each of which may cost seconds) are skipped and counted
            res.count('inputs_skipped_after_repeated_resource_failures')
            return
        res.count('evaluations')
        r = probe(ct, data, zw, nest)
        if r is not None and r[0] in ('budget-memory', 'budget-cpu'):
            res.count('resource_failures_in_unit')
        if r is None:
            res.outcome('within-budget')
            return
        kind, detail = r
        res.outcome(kind)
        if res.stats.get('failures_in_unit', 0) >= 25:
            res.count('failures_not_recorded')      # same unit, same root causes: counted, not written out
            return
        res.count('failures_in_unit')
        sig = '|'.join([kind, codec, label])
        res.failures.append(new_failure(ID, kind, sig, codec=codec, detail=detail, family=label, how=how,
                                        input=data.hex() if len(data) <= 400 else data[:200].hex() + '...',
                                        input_len=len(data), spec=text, type=top, term=render_type(term, env),
                                        zero_width=zw, nest=nest, size=len(data)))

    if unit.part == 'short':
        for data in short_inputs(codec, tier):
            run(data, 'short')
    else:
        encs = [e for e, _ in sentinels]
        bases = list(encs[:8])
        if codec == 'ber':
            for enc in encs[:8 if tier == 'thorough' else 3]:
                if len(enc) <= 64:
                    for r in ber_reserialisations(enc, tier):
                        if r not in bases:
                            bases.append(r)
                            res.count('ber_reserialised_base_encodings')
        for enc in bases:
            first = list(edits(enc, encs, tier, codec))
            for d in first:
                run(d, 'edit1')
            if tier == 'thorough' and len(enc) <= 24:
                for d in first[::7]:            # a fixed stride of the 1-edit variants gets a second edit
                    if len(d) <= 26:
                        for d2 in edits(d, encs, 'quick', codec):
                            run(d2, 'edit2')
    res.count('distinct_inputs', len(seen))
    # sentinel battery afterwards
    for enc, dec in sentinels:
        try:
            again = ct.decode(enc)
        except Exception as e:
            again = ('raised', errclass(e))
        if repr(again) != repr(dec):
            res.failures.append(new_failure(ID, 'sentinel-changed', 'sentinel-changed|%s|%s' % (codec, label),
                                            codec=codec, detail='%r -> %r' % (dec, again), family=label,
                                            input=enc.hex(), spec=text, type=top, term=render_type(term, env),
                                            zero_width=zw, nest=nest, size=0))
    if len(res.samples) < 1:
        res.samples.append({'codec': codec, 'type': render_type(term, env)[:120], 'part': unit.part,
                            'inputs': len(seen), 'example_input': (sorted(seen)[len(seen) // 2].hex()[:40] if seen else '')})
    return res


def coverage(stats, tier):
    return {
        'evaluations': stats.get('evaluations', 0),
        'distinct_nontrivial': stats.get('distinct_inputs', 0),
        'rule': 'evaluations = decode calls under the budgets; distinct_nontrivial = distinct (codec, type, input '
                'byte string) triples (inputs deduplicated per type); inputs are enumerated, not sampled: every '
                'string of length <= 2 (+ 3-4 over a 12-byte alphabet in the thorough tier) and every <= E-edit '
                'variant of up to 8 valid encodings per type',
        'states': stats.get('distinct_inputs', 0),
        'transitions': stats.get('evaluations', 0),
        'traces_validated_against_impl': stats.get('evaluations', 0),
        'exhaustive': True,
    }


def _rerun(case):
    spec = impl.compile_text(case['spec'], case['codec'])
    ct = spec.types[case['type']]
    h = case['input']
    if h.endswith('...'):
        return None
    data = bytes.fromhex(h)
    if case['kind'] == 'sentinel-changed':
        return None
    return probe(ct, data, case['zero_width'], case['nest'])


def shrink(failure):
    """Shorten the failing input greedily (drop bytes) while it still exceeds the same budget."""
    if failure['kind'] == 'sentinel-changed' or failure['input'].endswith('...'):
        return failure
    spec = impl.compile_text(failure['spec'], failure['codec'])
    ct = spec.types[failure['type']]
    data = bytes.fromhex(failure['input'])
    changed = True
    tests = 0
    while changed and tests < 200:
        changed = False
        for i in range(len(data)):
            cand = data[:i] + data[i + 1:]
            tests += 1
            r = probe(ct, cand, failure['zero_width'], failure['nest'])
            if r is not None and r[0] == failure['kind']:
                data = cand
                changed = True
                break
    out = dict(failure)
    out['input'] = data.hex()
    out['input_len'] = len(data)
    return out


def replay(case):
    r = _rerun(case)
    if r is None:
        return None
    return {'kind': r[0], 'detail': r[1]}
