"""C14 Parsing depends only on the token sequence, not on comments or white-space.

Model: mc.lexer (X.680 clause 12), which does not import asn1tools.  Two texts with the same token
sequence must be parsed alike.  Every relayout is first checked against the model
(`tokens(relayout) == tokens(original)`, a mismatch is a machinery error), then given to
`asn1tools.parse_string`:

* single   one layout letter inserted at one token boundary (every boundary context x every letter);
* pairs    two insertions (thorough);
* global   whole texts: all comments stripped; every boundary the same letter; letters rotated over the
           boundaries (every boundary of every fixture meets every letter);
* comments an existing comment deleted / replaced;
* cstring  comment-marker text inside character-string literals;
* errors   one token deleted or replaced by `?`, then relayout: the reported line/column must denote the
           same item of the text actually given;
* enumline the line reported for a duplicated ENUMERATED number.
"""

import os
import re
import hashlib

from .. import impl, lexer
from .. import c14_texts as T
from ..runner import Result, new_failure

asn1tools = impl.asn1tools

ID = 'C14'
LEVEL = 'model_checking'
CHUNK = 1

LETTERS = [
    ('sp', ' '), ('sp2', '  '), ('tab', '\t'), ('nl', '\n'), ('crlf', '\r\n'),
    ('line', '-- c\n'), ('dash', '-- c --'), ('line0', '--\n'), ('block', '/* c */'),
    ('blocknl', '/* a\nb */'), ('block0', '/**/'), ('nested', '/* a /* b */ c */'),
    ('blockdash', '/* -- */'), ('linequote', '-- "q" \n'), ('blockquote', '/* " */'),
    ('lineclose', '-- */ x\n'), ('lineopen', '-- /* x\n'), ('linequote1', '-- " c\n'),
]
NL = len(LETTERS)
LNAME = [n for n, _ in LETTERS]
LTEXT = [t for _, t in LETTERS]
PAIR_LETTERS = ['nl', 'line', 'dash', 'block', 'nested', 'blocknl']
COMMENT_REPLACEMENTS = [('delete', ''), ('block', '/* c */'), ('line', '-- c\n'), ('nl', '\n'), ('dash', '-- c --'),
                        ('blocknl', '/* a\nb */')]

# Pairs of reserved words which the implementation's grammar holds as ONE literal with a single space
# (known finding KF-C14-kw-*): whole-text transformations leave their interior alone so that one known
# root cause does not hide every other boundary of the text; the single-insertion layer reports them.
SINGLE_LITERAL_PAIRS = frozenset([
    ('OCTET', 'STRING'), ('BIT', 'STRING'), ('CHARACTER', 'STRING'), ('OBJECT', 'IDENTIFIER'),
    ('WITH', 'COMPONENT'), ('WITH', 'COMPONENTS'), ('WITH', 'SYNTAX'), ('WITH', 'SUCCESSORS'),
    ('WITH', 'DESCENDANTS'), ('COMPONENTS', 'OF'), ('CONSTRAINED', 'BY'), ('ANY', 'DEFINED'),
    ('DEFINED', 'BY'), ('EXTENSIBILITY', 'IMPLIED'),
])

ASSUMPTIONS = [
    'Token boundaries come from mc.lexer (X.680 clause 12).  Where the standard is open the lexer merges: '
    '"-" directly followed by a digit, runs of "[" or "]", "@" at-notation, "&" + reference, realnumber with its "." '
    'are single items, so no layout is inserted there (unasserted).',
    'Single insertions are enumerated per boundary CONTEXT: the classes (reserved word / symbol by text, other '
    'items by kind) of the w tokens on either side of the boundary; each distinct context is exercised with every '
    'letter on the first text containing it (window w is in the bounds).  Whole-text transformations touch every boundary '
    'of every text.',
    'Fixtures are exercised whole (global transformations) and cut into one-assignment mini-modules (same module '
    'header) for single insertions; a fragment is used only if the library parses it.',
    'The pyparsing grammar object is built once per worker process (asn1tools.parser.create_grammar memoised at '
    'run time; parse_string, ignore_comments and the error mapping run unmodified).  Every original text is also parsed '
    'with a freshly built grammar and both results must agree; every failure is re-confirmed with a fresh grammar.',
    'parse_string is not run under the step budget: a PEG parser over a finite text terminates.',
    'Error positions: the offset reported for a broken text must move by exactly the length of what was inserted '
    'before it (insertion exactly at the reported offset: either side accepted).  With a TAB inserted the column is '
    'accepted raw or tab-expanded (pyparsing expands tabs); the line is always asserted.',
    'A "--" comment at the very end of the text without a new-line is not generated (whether end of text ends a '
    'comment is unasserted).',
    'Interior boundaries of the multi-word keywords that the grammar holds as single literals are excluded from '
    'whole-text transformations and from the relayout of erroneous texts (they are reported by the single-insertion layer).',
]


# ---------------------------------------------------------------------------
# implementation access

_ORIG_CREATE = None
_MEMO = []


def _install_memo():
    global _ORIG_CREATE
    from asn1tools import parser
    if _ORIG_CREATE is None:
        _ORIG_CREATE = parser.create_grammar

        def memo():
            if not _MEMO:
                _MEMO.append(_ORIG_CREATE())
            return _MEMO[0]
        parser.create_grammar = memo


def outcome(text, fresh=False):
    """('ok', dict) | ('ParseError', message) | ('foreign', exception class)."""
    from asn1tools import parser
    _install_memo()
    if fresh:
        saved = parser.create_grammar
        parser.create_grammar = _ORIG_CREATE
    try:
        return ('ok', asn1tools.parse_string(text))
    except asn1tools.ParseError as e:
        return ('ParseError', str(e))
    except RecursionError:
        return ('foreign', 'RecursionError')
    except Exception as e:
        return ('foreign', type(e).__name__)
    finally:
        if fresh:
            parser.create_grammar = saved


def same(a, b):
    if a[0] == 'ok' or b[0] == 'ok':
        return a[0] == b[0] and a[1] == b[1]
    return True      # both rejected


def classify(orig, new):
    if orig[0] == 'ok' and new[0] != 'ok':
        return 'layout-rejects'
    if orig[0] != 'ok' and new[0] == 'ok':
        return 'layout-accepts'
    return 'layout-changes-result'


def brief(o):
    if o[0] == 'ok':
        return 'accepted: ' + repr(o[1])[:300]
    return '%s: %s' % (o[0], o[1][:300])


def original(text, res):
    """Parse the original with the memoised and with a fresh grammar.  They agree except when one of the
    library's parse actions raises IndexError: pyparsing lets that escape from the first call of a parse action of
    a grammar object and turns it into an ordinary mismatch on later calls.  Such a text is not used (the
    verdict 'accepted or not' is then not a function of the text alone, whatever its layout)."""
    o = outcome(text)
    f = outcome(text, fresh=True)
    res.count('fresh_grammar_crosschecks')
    res.count('parses', 2)
    if o[0] != f[0] or o[1] != f[1]:
        if f == ('foreign', 'IndexError') or o == ('foreign', 'IndexError'):
            res.count('texts_where_a_parse_action_raises_IndexError')
            return ('unstable', 'IndexError in a parse action')
        raise RuntimeError('memoised grammar disagrees with a fresh grammar on %r' % text[:200])
    if f == ('foreign', 'IndexError'):
        res.count('texts_where_a_parse_action_raises_IndexError')
        return ('unstable', 'IndexError in a parse action')
    return o


# ---------------------------------------------------------------------------
# relayout

def letter_class(name):
    """white-space letters / comment letters (a pair `a+b` is a comment class if either is)."""
    parts = name.rstrip('*').split('+')
    return 'ws' if all(p in ('sp', 'sp2', 'tab', 'nl', 'crlf') for p in parts) else 'comment'


def legal(lt, rt, L):
    """May letter L be put between tokens lt and rt without creating a different token sequence?
    (hyphen / slash / star adjacency is avoided; everything else is checked by the lexer afterwards)."""
    if lt is not None:
        c = lt.text[-1]
        if L.startswith('--') and c == '-':
            return False
        if L.startswith('/*') and c in '/*':
            return False
    if rt is not None:
        c = rt.text[0]
        if L.endswith('--') and c == '-':
            return False
        if L.endswith('*/') and c in '/*':
            return False
    return True


def insert(text, toks, g, L):
    p = toks[g].start if g < len(toks) else len(text)
    return text[:p] + L + text[p:]


def neighbours(toks, g):
    return (toks[g - 1] if g > 0 else None), (toks[g] if g < len(toks) else None)


def verify(orig_tt, relayout):
    """The model check: the relayout must have the token sequence of the original."""
    if lexer.token_texts(relayout) != orig_tt:
        raise RuntimeError('relayout changed the token sequence (generator error): %r' % relayout[:300])


def interior(lt, rt, nxt=None):
    """Boundaries with a known, separately reported defect (kept out of whole-text transformations and out of
    the relayout of erroneous texts): inside a single-literal keyword; between a class reference and `.&field`."""
    if lt is None or rt is None:
        return False
    if (lt.text, rt.text) in SINGLE_LITERAL_PAIRS:
        return True
    return lt.kind == 'uref' and rt.text == '.' and nxt is not None and nxt.kind == 'fieldref'


def skip_gaps(toks):
    n = len(toks)
    return {g for g in range(1, n) if interior(toks[g - 1], toks[g], toks[g + 1] if g + 1 < n else None)}


def th(text):
    return int.from_bytes(hashlib.blake2b(text.encode('utf-8', 'surrogatepass'), digest_size=8).digest(), 'big')


class Cap:
    """Keeps the number of raw failures per root cause small."""

    def __init__(self, res, per_sig=2):
        self.res = res
        self.per_sig = per_sig
        self.seen = {}

    def wants(self, sig):
        return self.seen.get(sig, 0) < self.per_sig

    def add(self, kind, sig, **fields):
        self.res.count('failures_total')
        self.res.outcome('FAIL ' + sig)
        n = self.seen.get(sig, 0)
        self.seen[sig] = n + 1
        if n < self.per_sig:
            self.res.failures.append(new_failure(ID, kind, sig, **fields))


def confirm(orig_text, relayout):
    """Re-run both texts with a freshly built grammar."""
    return not same(outcome(orig_text, fresh=True), outcome(relayout, fresh=True))


def compare(res, cap, mode, text, orig, relayout, toks, g, lname, extra=None):
    new = outcome(relayout)
    res.count('parses')
    res.count('evaluations')
    if orig[0] == 'ok':
        res.count('nontrivial')
    res.states.add(th(relayout))
    if same(orig, new):
        res.outcome('same:' + orig[0])
        return True
    lt, rt = neighbours(toks, g) if g is not None else (None, None)
    kind = classify(orig, new)
    ctx = '%s~%s' % (lexer.abstract(lt), lexer.abstract(rt)) if g is not None else '*'
    sig = '%s|%s|%s|%s' % (mode, kind, ctx, letter_class(lname) if mode != 'comments' else lname)
    if cap.wants(sig) and not confirm(text, relayout):
        raise RuntimeError('failure not confirmed with a fresh grammar: %r' % relayout[:300])
    f = dict(mode=mode, text=text, relayout=relayout, gap=g, letter=lname,
             left=lt.text if lt else None, right=rt.text if rt else None,
             left_kind=lt.kind if lt else None, right_kind=rt.kind if rt else None,
             after_right=[toks[g + 1].kind, toks[g + 1].text] if g is not None and g + 1 < len(toks) else None,
             gap_text=text[lt.end if lt else 0:rt.start if rt else len(text)] if g is not None else None,
             expected=brief(orig), observed=brief(new), size=len(text))
    if extra:
        f.update(extra)
    cap.add(kind, sig, **f)
    return False


# ---------------------------------------------------------------------------
# work

def work(unit):
    res = Result()
    kind = unit[0]
    cap = Cap(res)
    if kind == 'single':
        work_single(unit, res, cap)
    elif kind == 'pairs':
        work_pairs(unit, res, cap)
    elif kind == 'global':
        work_global(unit, res, cap)
    elif kind == 'comments':
        work_comments(unit, res, cap)
    elif kind == 'cstring':
        work_cstring(unit, res, cap)
    elif kind == 'errors':
        work_errors(unit, res, cap)
    elif kind == 'enumline':
        work_enumline(unit, res, cap)
    else:
        raise RuntimeError('unknown unit kind %r' % (kind,))
    return res


def work_single(unit, res, cap):
    _, label, items = unit
    for text, gaps in items:
        orig = original(text, res)
        res.count('texts')
        res.states.add(th(text))
        if orig[0] != 'ok':
            res.count('texts_rejected_as_given')
            res.count('contexts_on_rejected_texts', len(gaps))
            res.outcome('original:' + orig[0] + (':' + orig[1] if orig[0] == 'foreign' else ''))
            continue
        toks = lexer.tokens(text)
        tt = [(t.kind, t.text) for t in toks]
        if len(res.samples) < 1 and gaps:
            g = gaps[0]
            res.samples.append({'mode': 'single', 'source': label, 'text': text[:300], 'gap': g,
                                'relayout': insert(text, toks, g, LTEXT[9])[:300]})
        for g in gaps:
            lt, rt = neighbours(toks, g)
            res.count('boundaries')
            for li in range(NL):
                L = LTEXT[li]
                if not legal(lt, rt, L):
                    res.count('insertions_not_applicable')
                    continue
                rl = insert(text, toks, g, L)
                verify(tt, rl)
                res.count('insertions')
                compare(res, cap, 'single', text, orig, rl, toks, g, LNAME[li])


def work_pairs(unit, res, cap):
    _, label, text = unit
    orig = original(text, res)
    res.count('texts')
    res.states.add(th(text))
    if orig[0] != 'ok':
        res.count('texts_rejected_as_given')
        return
    toks = lexer.tokens(text)
    tt = [(t.kind, t.text) for t in toks]
    n = len(toks)
    lets = [LNAME.index(x) for x in PAIR_LETTERS]
    skip = skip_gaps(toks)
    for g1 in range(n + 1):
        l1, r1 = neighbours(toks, g1)
        if g1 in skip:
            continue
        for g2 in range(g1, n + 1):
            l2, r2 = neighbours(toks, g2)
            if g2 in skip:
                continue
            for a in lets:
                for b in lets:
                    A, B = LTEXT[a], LTEXT[b]
                    if g1 == g2:
                        L = A + B
                        if not legal(l1, r1, L) or (A.endswith('-') and B.startswith('-')):
                            continue
                        rl = insert(text, toks, g1, L)
                    else:
                        if not legal(l1, r1, A) or not legal(l2, r2, B):
                            continue
                        rl = insert(insert(text, toks, g2, B), toks, g1, A)
                    verify(tt, rl)
                    res.count('insertions', 2)
                    res.count('pair_cases')
                    compare(res, cap, 'pairs', text, orig, rl, toks, g1, LNAME[a] + '+' + LNAME[b],
                            extra={'gap2': g2})


def transform(text, toks, name):
    """Whole-text relayout.  Returns (relayout, number of insertions)."""
    if name == 'strip':
        return lexer.strip_comments(text), sum(1 for l in lexer.scan(text)[1] if l.kind != 'ws')
    mode, k = name.split(':')
    k = int(k)
    out = []
    pos = 0
    n = len(toks)
    cnt = 0
    skip = skip_gaps(toks)
    for g in range(n + 1):
        lt, rt = neighbours(toks, g)
        L = LTEXT[k] if mode == 'same' else LTEXT[(g + k) % NL]
        if g in skip or not legal(lt, rt, L):
            continue
        p = rt.start if rt is not None else len(text)
        out.append(text[pos:p])
        out.append(L)
        pos = p
        cnt += 1
    out.append(text[pos:])
    return ''.join(out), cnt


def localise(text, orig, toks, name, res):
    """A whole-text transformation changed the parse: find one boundary whose insertion alone does (binary
    search over the set of boundaries; None when no single boundary reproduces it)."""
    mode, k = name.split(':')
    k = int(k)
    n = len(toks)
    cand = []
    skip = skip_gaps(toks)
    for g in range(n + 1):
        lt, rt = neighbours(toks, g)
        L = LTEXT[k] if mode == 'same' else LTEXT[(g + k) % NL]
        if g in skip or not legal(lt, rt, L):
            continue
        cand.append((g, L))

    def build(sub):
        out = []
        pos = 0
        for g, L in sub:
            p = toks[g].start if g < n else len(text)
            out.append(text[pos:p])
            out.append(L)
            pos = p
        out.append(text[pos:])
        return ''.join(out)

    def fails(sub):
        res.count('parses')
        return not same(orig, outcome(build(sub)))

    steps = 0
    while len(cand) > 1 and steps < 40:
        steps += 1
        h = len(cand) // 2
        if fails(cand[:h]):
            cand = cand[:h]
        elif fails(cand[h:]):
            cand = cand[h:]
        else:
            return None
    if len(cand) == 1 and fails(cand):
        return cand[0][0], cand[0][1], build(cand)
    return None


def load_source(src):
    if src[0] == 'file':
        with open(os.path.join(T.FIXDIR, src[1]), encoding='utf-8') as f:
            return f.read()
    return src[1]


def work_global(unit, res, cap):
    _, label, src, names = unit
    text = load_source(src)
    toks = lexer.tokens(text)
    tt = [(t.kind, t.text) for t in toks]
    big = len(toks) > 3000
    if big:
        orig = outcome(text)
        res.count('parses')
    else:
        orig = original(text, res)
    res.count('texts')
    res.states.add(th(text))
    res.outcome('original:' + orig[0] + (':' + orig[1] if orig[0] == 'foreign' else ''))
    if orig[0] == 'unstable' or orig == ('foreign', 'IndexError'):
        res.count('whole_texts_skipped_parse_action_IndexError')
        return
    for name in names:
        rl, cnt = transform(text, toks, name)
        verify(tt, rl)
        res.count('insertions', cnt)
        res.count('global_transformations')
        if orig[0] == 'ok':
            res.count('nontrivial')
        if len(res.samples) < 1 and len(text) < 1500 and name.startswith('rot'):
            res.samples.append({'mode': 'global', 'source': label, 'transform': name, 'relayout': rl[:400]})
        new = outcome(rl)
        res.count('parses')
        res.count('evaluations')
        res.states.add(th(rl))
        if same(orig, new):
            res.outcome('same:' + orig[0])
            continue
        loc = None
        if name != 'strip' and len(toks) <= 12000:
            loc = localise(text, orig, toks, name, res)
        if loc is not None:
            g, L, rl1 = loc
            big_text = len(text) >= 4000
            compare(res, cap, 'single', text, orig, rl1, toks, g, LNAME[LTEXT.index(L)],
                    extra={'found_by': 'global ' + name, 'source': label,
                           'text': '(fixture %s)' % label if big_text else text,
                           'relayout': rl1[max(0, toks[max(g - 3, 0)].start):toks[min(g + 3, len(toks) - 1)].end + 40]
                           if big_text else rl1})
        else:
            kind = classify(orig, new)
            cap.add(kind, 'global|%s|%s|%s' % (kind, label, name), mode='global', source=label, transform=name,
                    text=text if len(text) < 4000 else None, src=list(src) if src[0] == 'file' else None,
                    expected=brief(orig), observed=brief(new), size=len(text))


def work_comments(unit, res, cap):
    _, label, items = unit
    for text, idxs in items:
        orig = original(text, res)
        res.count('texts')
        res.states.add(th(text))
        if orig[0] != 'ok':
            res.count('texts_rejected_as_given')
            continue
        toks, lays = lexer.scan(text)
        tt = [(t.kind, t.text) for t in toks]
        for ci in idxs:
            c = lays[ci]
            # the tokens around the comment
            g = 0
            while g < len(toks) and toks[g].start < c.start:
                g += 1
            lt, rt = neighbours(toks, g)
            res.count('comments_edited')
            for rname, R in COMMENT_REPLACEMENTS:
                before, after = text[:c.start], text[c.end:]
                pc = before[-1:] if before else ''
                nc = after[:1] if after else ''
                if R.startswith('--') and pc == '-' or R.endswith('--') and nc == '-':
                    continue
                if R.startswith('/*') and pc in ('/', '*') or R.endswith('*/') and nc in ('/', '*'):
                    continue
                rl = before + R + after
                if lexer.token_texts(rl) != tt:
                    rl = before + R + ' ' + after
                    if lexer.token_texts(rl) != tt:
                        res.count('comment_edits_not_applicable')
                        continue
                res.count('comment_edits')
                compare(res, cap, 'comments', text, orig, rl, toks, g, 'replace-%s-by-%s' % (c.kind, rname),
                        extra={'comment': c.text[:200]})


PLACE = {'-': '§', '/': '¤', '*': '¶'}
UNPLACE = {v: k for k, v in PLACE.items()}
CSTRING_VARIANTS = ['--', 'a--b', 'a--b--c', '-- x', 'a -- b', '/*', 'a/*b', '/* x */', '*/', 'a*/b', '*/ /*', '--/*',
                    'a-b', 'a/b*c', "-- 'x'"]


def unplace(v):
    if isinstance(v, str):
        for a, b in UNPLACE.items():
            v = v.replace(a, b)
        return v
    if isinstance(v, list):
        return [unplace(x) for x in v]
    if isinstance(v, tuple):
        return tuple(unplace(x) for x in v)
    if isinstance(v, dict):
        return {unplace(k): unplace(x) for k, x in v.items()}
    return v


def work_cstring(unit, res, cap):
    """Text inside a character-string literal is never a comment: parse(T["x--y"]) must be parse(T["x§§y"])
    with the place-holder characters mapped back (parsing is uniform in the characters of a cstring)."""
    _, label, items = unit
    for text, ti in items:
        if any(c in text for c in UNPLACE):
            res.count('cstring_hosts_skipped')
            continue
        toks = lexer.tokens(text)
        tok = toks[ti]
        assert tok.kind == 'cstring'
        res.count('texts')
        lt, rt = neighbours(toks, ti)
        ctx = '%s~"~%s' % (lexer.abstract(lt), lexer.abstract(toks[ti + 1]) if ti + 1 < len(toks) else '^')
        for V in CSTRING_VARIANTS:
            P = ''.join(PLACE.get(c, c) for c in V)
            tv = text[:tok.start] + '"' + V + '"' + text[tok.end:]
            tp = text[:tok.start] + '"' + P + '"' + text[tok.end:]
            # model: both are the same token sequence up to the content of that one cstring
            a, b = lexer.token_texts(tv), lexer.token_texts(tp)
            if len(a) != len(b) or any(x != y for i, (x, y) in enumerate(zip(a, b)) if i != ti) \
                    or a[ti] != ('cstring', '"' + V + '"'):
                raise RuntimeError('cstring variant changed the token sequence: %r' % tv[:300])
            base = outcome(tp)
            res.count('parses')
            if base[0] != 'ok':
                res.count('cstring_placeholder_rejected')
                continue
            expected = ('ok', unplace(base[1]))
            new = outcome(tv)
            res.count('parses')
            res.count('evaluations')
            res.count('cstring_cases')
            res.count('nontrivial')
            res.states.add(th(tv))
            if same(expected, new):
                res.outcome('same:ok')
                continue
            if same(('ok', unplace(outcome(tp, fresh=True)[1])), outcome(tv, fresh=True)):
                raise RuntimeError('failure not confirmed with a fresh grammar: %r' % tv[:300])
            marker = 'dash' if '--' in V else 'block-open' if '/*' in V else 'other'
            kind = classify(expected, new)
            cap.add(kind, 'cstring|%s' % marker, mode='cstring', text=tv, placeholder_text=tp,
                    content=V, marker=marker, context=ctx, expected=brief(expected), observed=brief(new),
                    size=len(tv))


POS = re.compile(r'at line (\d+), column (\d+):')
DUP = re.compile(r'Duplicated ENUMERATED number (-?\d+) at line (\d+)\.')


def break_text(text, toks, k, how):
    t = toks[k]
    tt = [(x.kind, x.text) for x in toks]
    if how == 'delete':
        want = tt[:k] + tt[k + 1:]
        b = text[:t.start] + text[t.end:]
        if lexer.token_texts(b) != want:
            b = text[:t.start] + ' ' + text[t.end:]
            if lexer.token_texts(b) != want:
                return None
        return b
    b = text[:t.start] + '?' + text[t.end:]
    want = tt[:k] + [('other', '?')] + tt[k + 1:]
    if lexer.token_texts(b) != want:
        return None
    return b


def expected_cols(text, off):
    line, col = lexer.line_col(text, off)
    ls = text.rfind('\n', 0, off) + 1
    ecol = len(text[ls:off].expandtabs()) + 1
    return line, {col, ecol}


def work_errors(unit, res, cap):
    _, label, text, all_positions, k_lo, k_hi = unit
    toks0 = lexer.tokens(text)
    res.count('texts')
    for k in range(k_lo, min(k_hi, len(toks0))):
        for how in ('delete', 'question'):
            B = break_text(text, toks0, k, how)
            if B is None:
                res.count('error_edits_not_applicable')
                continue
            ob = outcome(B)
            res.count('parses')
            res.count('broken_texts')
            res.states.add(th(B))
            if ob[0] == 'ok':
                res.count('broken_texts_still_accepted')
                continue
            if ob[0] != 'ParseError':
                res.count('broken_texts_foreign_exception')
                res.outcome('broken:' + ob[0] + ':' + ob[1])
                continue
            m = POS.search(ob[1])
            if not m:
                res.count('broken_texts_error_without_position')
                continue
            line, col = int(m.group(1)), int(m.group(2))
            try:
                e = lexer.offset_of(B, line, col)
            except ValueError:
                e = None
            if e is None or e > len(B) or lexer.line_col(B, e) != (line, col):
                # a position that does not exist in the text given, without any relayout
                cap.add('error-position-outside-text', 'errors|position-outside-text', mode='errors', text=B,
                        observed=ob[1][:300], size=len(B))
                continue
            toks = lexer.tokens(B)
            tt = [(t.kind, t.text) for t in toks]
            n = len(toks)
            kk = 0
            while kk < n and toks[kk].start < e:
                kk += 1
            if all_positions:
                gaps = list(range(n + 1))
            else:
                gaps = sorted({0, max(kk - 1, 0), kk, min(kk + 1, n), n})
            if len(res.samples) < 1:
                res.samples.append({'mode': 'errors', 'source': label, 'broken_text': B[:300], 'reported': ob[1][:160]})
            cases = []
            skip = skip_gaps(toks)
            for g in gaps:
                lt, rt = neighbours(toks, g)
                if g in skip:
                    continue
                for li in range(NL):
                    L = LTEXT[li]
                    if not legal(lt, rt, L):
                        continue
                    p = rt.start if rt is not None else len(B)
                    cases.append((LNAME[li], [(p, L)]))
            for li in range(NL):       # every boundary before the error gets the letter
                L = LTEXT[li]
                ins = []
                for g in range(n + 1):
                    lt, rt = neighbours(toks, g)
                    p = rt.start if rt is not None else len(B)
                    if p >= e or g in skip or not legal(lt, rt, L):
                        continue
                    ins.append((p, L))
                if len(ins) > 1:
                    cases.append((LNAME[li] + '*', ins))
            for lname, ins in cases:
                out = []
                pos = 0
                shift = 0
                ambiguous = False
                for p, L in ins:
                    out.append(B[pos:p])
                    out.append(L)
                    pos = p
                    if p < e:
                        shift += len(L)
                    elif p == e:
                        ambiguous = len(L)
                out.append(B[pos:])
                rl = ''.join(out)
                verify(tt, rl)
                res.count('insertions', len(ins))
                new = outcome(rl)
                res.count('parses')
                res.count('evaluations')
                res.count('error_cases')
                res.count('nontrivial')
                res.states.add(th(rl))
                exp_offs = [e + shift] + ([e + shift + ambiguous] if ambiguous else [])
                fields = dict(mode='errors', text=B, relayout=rl, letter=lname, error_offset=e,
                              original_error=ob[1][:300], size=len(B))
                check_position(res, cap, 'errors', lname, new, rl, exp_offs, fields, POS)


def check_position(res, cap, mode, lname, new, rl, exp_offs, fields, pattern):
    """The error raised for relayout `rl` must carry the line (and column, if reported) of one of the offsets
    `exp_offs` of `rl`."""
    base = lname.rstrip('*')
    exp = [expected_cols(rl, o) for o in exp_offs]
    fields['expected_offsets'] = exp_offs
    fields['expected_positions'] = [[l, sorted(cs)] for l, cs in exp]
    fields['expected'] = ' or '.join('line %d column %s' % (l, '/'.join(map(str, sorted(cs)))) for l, cs in exp)
    fields['observed'] = brief(new)
    if new[0] != 'ParseError':
        cap.add('error-became-' + ('accepted' if new[0] == 'ok' else 'foreign'),
                '%s|outcome|%s|%s' % (mode, new[0], letter_class(lname)), **fields)
        return
    m = pattern.search(new[1])
    if not m:
        cap.add('error-changed', '%s|other-error|%s' % (mode, letter_class(lname)), **fields)
        return
    if pattern is POS:
        l2, c2 = int(m.group(1)), int(m.group(2))
    else:
        l2, c2 = int(m.group(2)), None
    fields['observed_line'] = l2
    fields['observed_column'] = c2
    if not any(l2 == l for l, _ in exp):
        cap.add('error-line-wrong', '%s|line|%s' % (mode, base), **fields)
    elif c2 is not None and not any(l2 == l and c2 in cs for l, cs in exp):
        cap.add('error-column-wrong', '%s|column|%s' % (mode, base), **fields)
    else:
        res.outcome('error-position-same')


def work_enumline(unit, res, cap):
    """`Duplicated ENUMERATED number N at line L`: L must be the line of the same token in every layout."""
    _, label, text = unit
    toks = lexer.tokens(text)
    tt = [(t.kind, t.text) for t in toks]
    n = len(toks)
    res.count('texts')
    # anchor: every token on its own line -> the reported line names one token
    parts = [t.text for t in toks]
    spread = '\n'.join(parts) + '\n'
    verify(tt, spread)
    o = outcome(spread)
    res.count('parses')
    m = DUP.search(o[1]) if o[0] == 'ParseError' else None
    if not m:
        raise RuntimeError('enumline host does not raise the duplicate-number error: %r' % (o,))
    anchor = int(m.group(2)) - 1
    if not 0 <= anchor < n:
        cap.add('enum-line-wrong', 'enumline|anchor', mode='enumline', text=spread, observed=o[1], size=len(spread))
        return
    res.outcome('enumline-anchor:' + toks[anchor].text)
    cases = [('given', text, None)]
    skip = skip_gaps(toks)
    for g in range(n + 1):
        lt, rt = neighbours(toks, g)
        if g in skip:
            continue
        for li in range(NL):
            if legal(lt, rt, LTEXT[li]):
                cases.append((LNAME[li], insert(text, toks, g, LTEXT[li]), g))
    for k in range(NL):
        cases.append((LNAME[k] + '*', transform(text, toks, 'same:%d' % k)[0], None))
    for lname, rl, g in cases:
        verify(tt, rl)
        new = outcome(rl)
        res.count('parses')
        res.count('evaluations')
        res.count('enumline_cases')
        res.count('nontrivial')
        res.states.add(th(rl))
        at = lexer.tokens(rl)[anchor]
        fields = dict(mode='enumline', text=text, relayout=rl, letter=lname, gap=g, size=len(text),
                      anchor=toks[anchor].text)
        check_position(res, cap, 'enumline', lname, new, rl, [at.start], fields, DUP)


# ---------------------------------------------------------------------------
# units

ERROR_HOST_LINES = [
    ['vA INTEGER ::= 7', 'A ::= SEQUENCE {', '  a BOOLEAN,', '  b INTEGER (0..7) OPTIONAL,', '  ...,',
     '  [[ c OCTET STRING (SIZE (1..4)) ]]', '}', 'Z ::= BOOLEAN'],
    ['B ::= CHOICE { a [0] IMPLICIT INTEGER { one(1), two(2) } (1..2, ...),', '  b SEQUENCE (SIZE (1..4)) OF B }',
     'C ::= ENUMERATED { r, g(5), ..., b }'],
    ['D ::= SET { a IA5String (SIZE (2)) (FROM ("ab")) DEFAULT "ab",', '  b BIT STRING { x(0), y(1) } DEFAULT {x},',
     '  c OBJECT IDENTIFIER,', '  d REAL (WITH COMPONENTS { mantissa (-5..5), base (2), exponent (-1..1) }) }'],
    ['E ::= SEQUENCE OF SET OF [APPLICATION 3] EXPLICIT F', 'F ::= SEQUENCE { a M.T, b NULL, c D DEFAULT { a "x" } }',
     'oid OBJECT IDENTIFIER ::= { iso(1) 2 vA }'],
]
ERROR_HEADERS = ['M DEFINITIONS AUTOMATIC TAGS ::= BEGIN', 'M { iso(1) 5 } DEFINITIONS EXTENSIBILITY IMPLIED ::= BEGIN',
                 'M DEFINITIONS IMPLICIT TAGS ::= BEGIN\nIMPORTS T, vB FROM N { 1 2 } U FROM O;',
                 'M DEFINITIONS ::= BEGIN\nEXPORTS ALL;']

ENUM_HOSTS = [
    'M DEFINITIONS ::= BEGIN\nA ::= BOOLEAN\nE ::= ENUMERATED { a(0), b(0) }\nEND\n',
    'M DEFINITIONS ::= BEGIN\nS ::= SEQUENCE { x BOOLEAN, e ENUMERATED { a, b, ..., c(1) } OPTIONAL }\nEND\n',
]

CSTRING_HOSTS = [
    'M DEFINITIONS ::= BEGIN\nT ::= IA5String (FROM ("ab"))\nEND\n',
    'M DEFINITIONS ::= BEGIN\nT ::= IA5String (FROM ("ab" | "cd")) -- tail\nU ::= BOOLEAN\nEND\n',
    'M DEFINITIONS ::= BEGIN\nT ::= SEQUENCE { a IA5String DEFAULT "ab", b BOOLEAN }\nEND\n',
    'M DEFINITIONS ::= BEGIN\nv IA5String ::= "ab"\nT ::= BOOLEAN\nEND\n',
    'M DEFINITIONS ::= BEGIN\nT ::= VisibleString (PATTERN "ab")\nEND\n',
    'M DEFINITIONS ::= BEGIN\nT ::= SEQUENCE { a UTF8String (SIZE (1..4)) DEFAULT "ab" } /* c */ U ::= NULL\nEND\n',
]


def params(tier):
    if tier == 'thorough':
        return dict(w_gen=3, w_fix=2, fix_tokens_single=11000, fix_tokens_global=20000, rot=True,
                    pairs=True, error_hosts=None, error_all_positions=True, w_comments=2)
    return dict(w_gen=2, w_fix=2, fix_tokens_single=1300, fix_tokens_global=11000, rot=True,
                pairs=False, error_hosts=2, error_all_positions=False, w_comments=1)


def bounds(tier):
    p = params(tier)
    return {
        'tier': tier, 'letters': LNAME,
        'single_insertion': 'every distinct boundary context (window of %d tokens each side on generated texts, %d on '
                            'fixture fragments) x every letter' % (p['w_gen'], p['w_fix']),
        'generated_texts': 'L0, L0c, L1 (EXPLICIT environment, first units of AUTOMATIC / IMPLICIT / EXTENSIBILITY '
                           'IMPLIED), families; one assignment per mini-module',
        'fixtures_single': 'fixtures of <= %d tokens, cut into one-assignment fragments' % p['fix_tokens_single'],
        'fixtures_global': 'strip + same-letter x %d + rotation x %d on fixtures of <= %d tokens; larger fixtures: strip + '
                           'one rotation' % (NL, NL, p['fix_tokens_global']),
        'two_insertions': ('all boundary pairs x %d^2 letter pairs on the error-host modules' % len(PAIR_LETTERS))
        if p['pairs'] else 'not in this tier',
        'errors': 'every token deleted / replaced by "?" on %s host modules; relayout at %s x every letter, plus every '
                  'boundary before the error' % ('all' if p['error_hosts'] is None else p['error_hosts'],
                                                 'every boundary' if p['error_all_positions'] else
                                                 'the boundaries {first, 2 before, before, after the error, last}'),
        'cstring_variants': CSTRING_VARIANTS,
    }


def error_hosts():
    out = []
    for i, lines in enumerate(ERROR_HOST_LINES[:1] + ERROR_HOST_LINES[2:3] + ERROR_HOST_LINES[1:2] + ERROR_HOST_LINES[3:]):
        out.append(('errhost%d' % i, T.mini(ERROR_HEADERS[i % len(ERROR_HEADERS)], lines)))
    return out


def _batches(items, weight, limit):
    cur, w = [], 0
    for it in items:
        cur.append(it)
        w += weight(it)
        if w >= limit:
            yield cur
            cur, w = [], 0
    if cur:
        yield cur


def units(tier):
    p = params(tier)
    out = []
    # ---- generated texts: single insertions per boundary context ---------------------------------
    gl, gunits = T.gen_lines(tier)
    seen = set()
    hosts = []
    for lab, header, line in gl:
        text = T.mini(header, [line])
        toks = lexer.tokens(text)
        new = []
        for g, c in enumerate(T.contexts(toks, p['w_gen'])):
            if c not in seen:
                seen.add(c)
                new.append(g)
        if new:
            hosts.append((text, new))
    for i, b in enumerate(_batches(hosts, lambda h: len(h[1]) * NL + 2, 700)):
        out.append(('single', 'gen/%d' % i, b))
    # ---- fixtures ------------------------------------------------------------------------------------
    fx = T.fixtures()
    fseen = set()
    if p['w_fix'] == p['w_gen']:
        fseen = seen
    fhosts = []
    chosts = []
    cseen = set()
    cstr_hosts = [(t, next(i for i, k in enumerate(lexer.tokens(t)) if k.kind == 'cstring')) for t in CSTRING_HOSTS]
    cstr_seen = set()
    for t, ti in cstr_hosts:
        tk = lexer.tokens(t)
        cstr_seen.add((lexer.abstract(tk[ti - 1]), lexer.abstract(tk[ti + 1])))
    for rel, s, toks, lays in fx:
        if len(toks) > p['fix_tokens_single']:
            continue
        fr = T.fragments(s, toks)
        if fr is None:
            fr = [s]
        for f in fr:
            ftoks, flays = lexer.scan(f)
            new = []
            for g, c in enumerate(T.contexts(ftoks, p['w_fix'])):
                if c not in fseen:
                    fseen.add(c)
                    new.append(g)
            if new:
                fhosts.append((f, new))
            # comments: context = (class of the token before, kind of comment, class of the token after)
            cidx = []
            w = p['w_comments']
            for ci, l in enumerate(flays):
                if l.kind == 'ws':
                    continue
                g = 0
                while g < len(ftoks) and ftoks[g].start < l.start:
                    g += 1
                key = (tuple(lexer.abstract(ftoks[i]) if 0 <= i < len(ftoks) else '^' for i in range(g - w, g + w)),
                       l.kind, '\n' in l.text)
                if key not in cseen:
                    cseen.add(key)
                    cidx.append(ci)
            if cidx:
                chosts.append((f, cidx))
            for ti, tk in enumerate(ftoks):
                if tk.kind == 'cstring' and 0 < ti < len(ftoks) - 1:
                    key = (lexer.abstract(ftoks[ti - 1]), lexer.abstract(ftoks[ti + 1]))
                    if key not in cstr_seen:
                        cstr_seen.add(key)
                        cstr_hosts.append((f, ti))
    for i, b in enumerate(_batches(fhosts, lambda h: len(h[1]) * NL + 2, 700)):
        out.append(('single', 'fixture-fragments/%d' % i, b))
    for i, b in enumerate(_batches(chosts, lambda h: len(h[1]) * len(COMMENT_REPLACEMENTS) + 2, 500)):
        out.append(('comments', 'fixture-comments/%d' % i, b))
    for i, b in enumerate(_batches(cstr_hosts, lambda h: 2 * len(CSTRING_VARIANTS), 300)):
        out.append(('cstring', 'cstring/%d' % i, b))
    # ---- whole texts ---------------------------------------------------------------------------------
    same_names = ['same:%d' % k for k in range(NL)]
    rot_names = ['rot:%d' % k for k in range(NL)]
    for rel, s, toks, lays in fx:
        n = len(toks)
        src = ('file', rel)
        if n <= p['fix_tokens_global']:
            names = ['strip'] + same_names + rot_names
            per = 31 if n <= 1300 else 8 if n <= 5000 else 3
            for i in range(0, len(names), per):
                out.append(('global', rel, src, names[i:i + per]))
        else:
            out.append(('global', rel, src, ['strip']))
            out.append(('global', rel, src, ['rot:0']))
    for u in gunits[:8] + gunits[8::max(1, len(gunits) // (40 if tier == 'thorough' else 12))]:
        out.append(('global', 'gen:' + u.label, ('text', u.spec), ['strip'] + same_names + rot_names[:3]))
    # ---- errors --------------------------------------------------------------------------------------
    eh = error_hosts()
    if p['error_hosts'] is not None:
        eh = eh[:p['error_hosts']]
    for lab, text in eh:
        nt = len(lexer.tokens(text))
        step = 3 if p['error_all_positions'] else 8
        for lo in range(0, nt, step):
            out.append(('errors', '%s/%d' % (lab, lo), text, p['error_all_positions'], lo, lo + step))
    for i, t in enumerate(ENUM_HOSTS):
        out.append(('enumline', 'enum%d' % i, t))
    if p['pairs']:
        for lab, text in error_hosts():
            for li, line in enumerate(text.split('\n')[1:-2]):
                out.append(('pairs', '%s/%d' % (lab, li), T.mini(text.split('\n')[0], [line])))
    only = os.environ.get('C14_ONLY')       # development aid: run some unit kinds only
    if only:
        out = [u for u in out if u[0] in only.split(',')]
    every = int(os.environ.get('C14_EVERY', '1'))
    if every > 1:
        out = out[::every]
    # big units first so that the tail of the run is short
    out.sort(key=lambda u: 0 if (u[0] == 'global' and u[2][0] == 'file') else 1)
    return out


def attribute(failures):
    """Root-cause grouping.  A failure of a single insertion is keyed by its boundary context; when one letter
    fails at many contexts that are fine with plain white-space the cause is the letter (the comment scanner), and
    those failures are regrouped under the letter.  Returns the number of failures regrouped."""
    ws_bad = set()
    for f in failures:
        if f.get('mode') == 'single' and letter_class(f.get('letter', '')) == 'ws':
            ws_bad.add((f.get('left'), f.get('right')))
    by_letter = {}
    for f in failures:
        if f.get('mode') in ('single', 'pairs', 'comments') and (f.get('left'), f.get('right')) not in ws_bad:
            by_letter.setdefault((f['mode'], f['kind'], f['letter']), set()).add((f.get('left'), f.get('right')))
    n = 0
    for f in failures:
        k = (f.get('mode'), f.get('kind'), f.get('letter'))
        if k in by_letter and len(by_letter[k]) >= 5 and (f.get('left'), f.get('right')) not in ws_bad:
            f['sig'] = '%s|%s|any-context|%s' % k
            f['contexts_failing_with_this_letter'] = len(by_letter[k])
            n += 1
    return n


def coverage(stats, tier):
    ev = stats.get('evaluations', 0)
    return {
        'texts_given_to_parser': stats.get('parses', 0),
        'transitions': stats.get('insertions', 0) + stats.get('comment_edits', 0) + stats.get('broken_texts', 0)
        + stats.get('cstring_cases', 0),
        'traces_validated_against_impl': ev,
        'evaluations': ev,
        'distinct_nontrivial': stats.get('nontrivial', 0),
        'rule': 'states = distinct texts given to parse_string (originals, broken texts, relayouts), counted by hash; '
                'transitions = layout letters inserted + comment edits + token edits + '
                'literal substitutions; a trace is validated when the relayout passed the lexer model '
                '(same token sequence) and its parse (or error position) was compared with that of the original; '
                'non-trivial = the original was accepted (or, for erroneous texts, carried a position)',
        'exhaustive': True,
    }


def replay(case):
    mode = case.get('mode')
    if mode in ('single', 'pairs', 'comments') and case.get('text') and not case['text'].startswith('(fixture'):
        a, b = outcome(case['text'], fresh=True), outcome(case['relayout'], fresh=True)
        if same(a, b):
            return None
        return {'kind': classify(a, b), 'expected': brief(a), 'observed': brief(b)}
    if mode == 'cstring':
        a, b = outcome(case['placeholder_text'], fresh=True), outcome(case['text'], fresh=True)
        if a[0] != 'ok':
            return None
        a = ('ok', unplace(a[1]))
        if same(a, b):
            return None
        return {'kind': classify(a, b), 'expected': brief(a), 'observed': brief(b)}
    if mode in ('errors', 'enumline'):
        b = outcome(case['relayout'], fresh=True)
        pat = POS if mode == 'errors' else DUP
        m = pat.search(b[1]) if b[0] == 'ParseError' else None
        if m:
            l2, c2 = (int(m.group(1)), int(m.group(2))) if mode == 'errors' else (int(m.group(2)), None)
            if any(l2 == l and (c2 is None or c2 in cs) for l, cs in case['expected_positions']):
                return None
        return {'kind': case['kind'], 'observed': brief(b), 'expected': case.get('expected')}
    if mode == 'global' or (case.get('text') or '').startswith('(fixture'):
        src = case.get('src')
        if mode == 'global' and (src or case.get('text')):
            text = load_source(tuple(src)) if src else case['text']
            toks = lexer.tokens(text)
            rl, _ = transform(text, toks, case['transform'])
            a, b = outcome(text, fresh=True), outcome(rl, fresh=True)
            if same(a, b):
                return None
            return {'kind': classify(a, b), 'expected': brief(a), 'observed': brief(b)}
        text = load_source(('file', case['source']))
        toks = lexer.tokens(text)
        rl = insert(text, toks, case['gap'], LTEXT[LNAME.index(case['letter'])])
        a, b = outcome(text, fresh=True), outcome(rl, fresh=True)
        if same(a, b):
            return None
        return {'kind': classify(a, b), 'expected': brief(a), 'observed': brief(b)}
    return {'kind': case.get('kind'), 'note': 'no replay procedure for this mode'}
