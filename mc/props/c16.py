"""C16 A truncated encoding is reported as a decode error, never as a value.

Space: every encoding produced on the standard program space (L0, L0c, L1, L2,
families; distinct (type, bytes) pairs) x EVERY strict prefix length (for long
encodings: every k <= 64, every k within 4 of a 16K/64K fragment or length
boundary, every k >= len-8) x {ber, der, per, uper, oer}.
Oracle: decode(prefix) raises asn1tools.DecodeError; a returned value or any
other exception class is a violation.
"""

from .. import impl, space, budget
from ..runner import Result, new_failure
from ..terms import render_type
from ..values import dom
from ..casefmt import vclass, errclass, valrepr, case_fields, rebuild_case
from .. import shrink as shrinker

ID = 'C16'
LEVEL = 'fault_enumeration'
CODECS = impl.BINARY
ASSUMPTIONS = [
    'Encodings come from the same program/value space as C01 (boundary values, deviation-bounded products).',
    'For encodings longer than 256 bytes only the cut points listed in the docstring are taken.',
    'Step budget: c0=20000 + 4000 events per prefix byte + 60 per element of the encoded value (a decoder that spins is reported as budget-steps).',
]
C0, C1 = 20000, 4000


def bounds(tier):
    return {'tier': tier, 'program_space': 'L0 full; L0c, L1(W2,K1 quick / W2,K2 thorough), L2, families under '
                                           + ('EXPLICIT' if tier == 'quick' else 'EXPLICIT, IMPLICIT, AUTOMATIC'),
            'codecs': list(CODECS),
            'cuts': 'all k for len<=256; else k<=64, |k-16384*i|<=4, |k-65536|<=4, k>=len-8',
            'values_per_type_cap': 'L0 16/40, L0c 4/6, L1 4/6, L2 4/8, families 10/20 (quick/thorough)'}


VALUES_CAP = {'quick': 12, 'thorough': 40}


def setup(tier):
    from .. import values
    values.set_tier(tier)
    values.enable_incomplete(True)


def units(tier):
    """Program space: all of L0; L0c, L1, L2 and the families under the EXPLICIT
    environment (quick) or all environments (thorough).  The number of values per
    type is capped per layer (first and last values of the boundary domain)."""
    thorough = tier == 'thorough'
    envs = (('EXPLICIT', False), ('IMPLICIT', False), ('AUTOMATIC', False)) if thorough else (('EXPLICIT', False),)
    out = []
    for u in space.l0_units(thorough):
        u.extra['vcap'] = 40 if thorough else 16
        out.append(u)
    for u in space.l0c_units(thorough, envs=envs):
        u.extra['vcap'] = 6 if thorough else 4
        out.append(u)
    for u in space.l1_units(2, 2 if thorough else 1, envs=envs):
        u.extra['vcap'] = 6 if thorough else 4
        out.append(u)
    for u in space.l2_units(thorough, envs=envs):
        u.extra['vcap'] = 8 if thorough else 4
        out.append(u)
    for u in space.family_units(envs=envs):
        u.extra['vcap'] = 20 if thorough else 10
        out.append(u)
    return out


def cuts(n):
    if n <= 256:
        return range(n)
    ks = set(range(0, 65))
    for b in (16384, 32768, 49152, 65536):
        ks.update(range(b - 4, b + 5))
    ks.update(range(n - 8, n))
    ks.update(range(128 - 2, 128 + 6))
    ks.update(range(256 - 2, 256 + 6))
    return sorted(k for k in ks if 0 <= k < n)


def check_prefixes(ct, enc, res=None, vsize=0):
    """Returns list of (k, kind, detail) for prefixes that are not rejected properly."""
    out = []
    DecodeError = impl.asn1tools.DecodeError
    for k in cuts(len(enc)):
        pre = enc[:k]
        if res is not None:
            res.count('evaluations')
        try:
            dec, _ = budget.run(C0 + C1 * (k + 1) + 60 * vsize, ct.decode, pre)
        except DecodeError:
            continue
        except budget.BudgetExceeded:
            out.append((k, 'budget-steps-decode', 'BudgetExceeded'))
        except Exception as e:
            out.append((k, 'decode-raised-foreign', errclass(e)))
        else:
            out.append((k, 'value-instead-of-error', type(dec).__name__))
    return out


def _sizeof(v):
    if isinstance(v, (bytes, bytearray, str)):
        return len(v)
    if isinstance(v, (list, tuple)):
        return 1 + sum(_sizeof(x) for x in v)
    if isinstance(v, dict):
        return 1 + sum(_sizeof(x) for x in v.values())
    return 1


def select_values(values, cap):
    if len(values) <= cap:
        return values
    h = cap // 2
    return values[:cap - h] + values[-h:]


def work(unit):
    res = Result()
    compiled = impl.compile_tops(unit, CODECS, (False,))
    cap = unit.extra.get('vcap', 12)
    for i, (name, term, lab) in enumerate(unit.tops):
        res.count('types')
        values = dom(term, unit.env)
        if not values:
            continue
        values = select_values(values, cap)
        for codec in CODECS:
            c = compiled[(False, codec)][i]
            if isinstance(c, BaseException):
                res.count('types_rejected_by_compiler')
                continue
            spec, tname = c
            ct = spec.types[tname]
            seen = set()
            for v in values:
                try:
                    ct.check_types(v)
                    ct.check_constraints(v)
                    enc, _ = budget.run(C0 + C1 * 64, ct.encode, v)
                    enc = bytes(enc)
                except BaseException:
                    res.count('values_not_encodable')
                    continue
                if enc in seen or not enc:
                    continue
                seen.add(enc)
                res.count('encodings')
                res.states.add(hash((codec, term, enc)))
                if len(res.samples) < 2 and len(enc) > 2:
                    res.samples.append({'type': render_type(term, unit.env)[:160], 'codec': codec,
                                        'encoding': enc.hex()[:80], 'prefixes': len(list(cuts(len(enc))))})
                bad = check_prefixes(ct, enc, res, _sizeof(v))
                res.outcome('all-prefixes-rejected' if not bad else 'some-prefix-accepted')
                for k, kind, detail in bad[:3]:
                    # signature by root cause: codec + what happened; the type is found by shrinking
                    sig = '|'.join([kind, codec, detail if kind != 'value-instead-of-error' else lab.split(':')[0]])
                    res.failures.append(new_failure(
                        ID, kind, sig, codec=codec, numeric=False, detail=detail, cut=k, encoded=enc.hex()[:400],
                        size=len(render_type(term, unit.env)) + len(valrepr(v)) + k,
                        layer=lab.split(':')[0], **case_fields(unit, name, term, v)))
    return res


def coverage(stats, tier):
    return {
        'evaluations': stats.get('evaluations', 0),
        'distinct_nontrivial': stats.get('encodings', 0),
        'rule': 'evaluations = truncated decodes executed (one per (type, distinct encoding, cut point, codec)); '
                'distinct_nontrivial = distinct non-empty (type, encoding, codec) triples whose every listed strict '
                'prefix was decoded',
        'states': stats.get('encodings', 0),
        'transitions': stats.get('evaluations', 0),
        'traces_validated_against_impl': stats.get('evaluations', 0),
        'exhaustive': True,
    }


def run_case(failure, unit, name, term, v):
    try:
        spec = impl.compile_parsed(unit.spec, [failure['codec']], False)[failure['codec']]
        ct = spec.types[name]
        ct.check_types(v)
        ct.check_constraints(v)
        enc = bytes(ct.encode(v))
    except Exception:
        return None
    bad = [b for b in check_prefixes(ct, enc, None, _sizeof(v)) if b[1] == failure['kind']]
    want = failure.get('detail')
    for k, kind, detail in bad:
        if kind == 'value-instead-of-error' or detail == want:
            return (kind, detail, enc[:k])
    return None


def shrink(failure):
    return shrinker.shrink_failure(failure, run_case)


def replay(case):
    unit, name, term, v = rebuild_case(case)
    r = run_case(case, unit, name, term, v)
    if r is None:
        return None
    return {'kind': r[0], 'detail': r[1], 'prefix': r[2].hex()}
