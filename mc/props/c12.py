"""C12 Ill-typed or out-of-constraint components are rejected with the exact path.

Space: (term, valid value) from L1 / L2 / families (recursive references unrolled
3 times) plus one container per leaf kind  x  every component position of the
value  x  every corruption applicable there  x  8 codecs (x numeric_enums for
terms with ENUMERATED).
Oracle: spec.encode(T, corrupted, check_types=True, check_constraints=True) raises
asn1tools.EncodeError or asn1tools.ConstraintsError and str(e) starts with
ref_paths path + ': '.  Uncorrupted values pass check_types.
"""

import base64
import pickle
import datetime

from .. import impl, space, budget
from .. import alphabet as A
from ..runner import Result, new_failure
from ..terms import (Leaf, Seq, Cho, Of, Ref, Tag, M, Grp, Rng, has_kind, render_type, all_members,
                     enum_numbers, STRING_KINDS, TIME_KINDS)
from ..values import to_numeric
from ..casefmt import errclass, valrepr
from ..cterms import CRef, layers, make_cunit, single_cunit, referenced
from ..ref_constraints import verdict, leaf_candidates, lengths_for, OUTSIDE
from ..ref_paths import positions, substitute, remove_member, cover_values, kind_of, strip, member_class

ID = 'C12'
LEVEL = 'model_checking'
CODECS = impl.ALL_CODECS
ASSUMPTIONS = [
    'Valid base values are a covering set per term (every component position present in at least one value, '
    'recursive references unrolled 3 times, lists of 2 elements where the SIZE allows), not the full boundary domain.',
    'One component is corrupted at a time. Wrong Python types are only those the type checker documents as rejected '
    '(INTEGER: not int/str; REAL: not float/int; bool is not offered where int is accepted).',
    'Wrong-Python-type and out-of-constraint corruptions run with check_types=True, check_constraints=True; unknown '
    'CHOICE alternative / unknown ENUMERATED name or number / missing mandatory member additionally run with '
    'check_types=False, check_constraints=True, where the codec itself has to report the error.',
    'A missing non-OPTIONAL extension addition may be encoded (the value a relay holds after decoding a version-1 '
    'message): bytes are accepted there, an error must still be the library\'s with the container path.',
    'List elements have no name in the path (the property speaks of member names; the library\'s tests pin '
    '"A: ..." for an element of A); only the first 3 elements of a list are corrupted.',
    'Path rule asserted: Type.member.member with CHOICE alternative names included, type references and tags adding '
    'nothing.',
]

C0, C1 = 30000, 400
UNKNOWN = 'zz-unknown'


def bounds(tier):
    return {'tier': tier,
            'layers': ('L1(W2,K2) EXPLICIT; L2, families, leaf-kind containers in 2 environments' if tier == 'quick'
                       else 'L1(W3,K2) in 2 environments; L2, families, leaf-kind containers in 3'),
            'recursion_unrollings': 3, 'list_elements_corrupted': 3, 'codecs': list(CODECS),
            'modes': ['check_types=True,check_constraints=True', 'check_types=False,check_constraints=True (structural)'],
            'numeric_enums': [False, True]}


# ---------------------------------------------------------------------------
# program space

B = Leaf('BOOLEAN')


def kind_terms():
    """One container of each shape per leaf kind not in the reduced alphabet."""
    leaves = [Leaf('REAL'), Leaf('OID'), Leaf('NULL'), Leaf('BOOLEAN'), Leaf('INTEGER', rng=Rng(0, 7)),
              Leaf('ENUMERATED', enum=(('a', None), ('b', None))),
              Leaf('ENUMERATED', enum=(('a', 3), ('b', 70000)), enum_adds=(('x', None),)),
              Leaf('BITSTRING'), Leaf('BITSTRING', size=Rng(4, 8)), Leaf('OCTETSTRING', size=Rng(1, 2))]
    leaves += [Leaf(k) for k in TIME_KINDS]
    leaves += [Leaf(k) for k in STRING_KINDS]
    leaves += [Leaf('IA5String', alpha='ab', size=Rng(1, 3)), Leaf('UTF8String', size=Rng(1, 2)),
               Leaf('NumericString', size=Rng(2, 2, single=True))]
    out = []
    for l in leaves:
        out.append((l, 'K:top'))
        out.append((Seq((M('pad', B), M('x', l), M('y', l, 'O'))), 'K:seq'))
        out.append((Of(l), 'K:of'))
        out.append((Cho((M('p', B), M('x', l))), 'K:cho'))
        out.append((Seq((M('pad', B),), ext=True, adds=(M('x', l), Grp((M('g', l), M('h', B, 'O'))))), 'K:add'))
        out.append((Cho((M('p', B),), ext=True, adds=(M('x', Of(Seq((M('e', l),)))),)), 'K:cho-add-of-seq'))
        # list elements are encoded through a separate entry point in the text codecs (encode_of): the element
        # kinds that own a path segment (CHOICE alternative, nested list, SEQUENCE) as elements
        out.append((Of(Cho((M('p', B), M('x', l)))), 'K:of-cho'))
        out.append((Of(Cho((M('p', B), M('s', Seq((M('e', l), M('f', B))))))), 'K:of-cho-seq'))
        out.append((Of(Of(l)), 'K:of-of'))
    # nested components with the same name (distinct objects that compare equal by name)
    for l in leaves[:7]:
        out.append((Seq((M('x', Seq((M('x', l), M('y', B, 'O')))),)), 'K:same-name-seq'))
        out.append((Cho((M('x', Cho((M('x', l), M('y', B)))), M('y', B))), 'K:same-name-cho'))
        out.append((Seq((M('x', Of(Seq((M('x', l),)))),)), 'K:same-name-of'))
        out.append((Seq((M('p', B),), ext=True, adds=(M('x', Cho((M('p', B),), ext=True, adds=(M('x', l),))),)),
                    'K:same-name-add'))
    return out


def units(tier):
    thorough = tier == 'thorough'
    envs = (('EXPLICIT', False), ('AUTOMATIC', False), ('IMPLICIT', True)) if thorough else space.ENVS_QUICK
    out = []
    for tags, ei in envs:
        for bi, chunk in enumerate(space.batches(kind_terms(), 60)):
            out.append(space.make_unit('C12/kinds/%s/%d' % (tags, bi), chunk, tags=tags, ext_implied=ei))
    if thorough:
        out += space.l1_units(3, 2, envs=space.ENVS_QUICK)
    else:
        # EXPLICIT: the environment with the most wrapper objects (ExplicitTag) on the error path
        out += space.l1_units(2, 2, envs=(('EXPLICIT', False),))
    out += space.l2_units(thorough, envs=envs)
    out += space.family_units(envs=envs)
    return out


def setup(tier):
    from .. import values
    values.set_tier(tier)


def has_enum(t, env):
    return has_kind(t, env, lambda s: isinstance(s, Leaf) and s.kind == 'ENUMERATED')


# ---------------------------------------------------------------------------
# corruptions

def wrong_pytypes(kind, numeric):
    """Python values the type checker is specified to reject for an ASN.1 kind
    (asn1tools/codecs/type_checker.py, README 'Types')."""
    if kind == 'BOOLEAN':
        return [1, 'TRUE', None]
    if kind == 'INTEGER':
        return [None, 1.5, b'\x01', []]                 # int and str are accepted
    if kind == 'REAL':
        return ['1.0', None, b'\x00']                   # float and int are accepted
    if kind == 'NULL':
        return [0, 'NULL', False]
    if kind == 'BITSTRING':
        return [1, '101', (1, 0, 1), None, (b'\x00', 9), ('a', 1), (b'\x00', 'x'), [b'\x00', 1]]
    if kind == 'OCTETSTRING':
        return ['ab', 1, None, [1, 2]]
    if kind == 'OID' or kind in STRING_KINDS:
        return [1, None, b'ab', ['a']]
    if kind == 'ENUMERATED':
        return ['a', None, 1.5] if numeric else [1, None, b'a']
    if kind in ('SEQUENCE', 'SET'):
        return [[], None, 1, ('a', 1), 'x']
    if kind in ('SEQUENCE OF', 'SET OF'):
        return [{}, None, (True, True), 1, 'x']
    if kind == 'CHOICE':
        return [(1, None), {'a': 1}, None, ('a',), ['a', 1], ('a', 1, 2), 'a']
    if kind in ('UTCTime', 'GeneralizedTime', 'DATE-TIME'):
        return [1.4, None, '2018', datetime.date(2018, 1, 1), datetime.time(1, 2, 3)]
    if kind == 'DATE':
        return [1.4, None, '2018', datetime.time(1, 2, 3)]
    if kind == 'TIME-OF-DAY':
        return [1.4, None, '12:00', datetime.date(2018, 1, 1), datetime.datetime(2018, 1, 1)]
    raise ValueError(kind)


BOTH = ((True, True), (False, True))
CHECKED = ((True, True),)


def corruptions(term, base, pos, env, numeric):
    """[(corruption kind, corrupted whole value, expected path names, modes, lenient)]"""
    out = []
    s = strip(pos.term, env)
    kind = kind_of(pos.term, env)
    for w in wrong_pytypes(kind, numeric):
        out.append(('pytype', substitute(base, pos.steps, w), pos.names, CHECKED, False))
    if isinstance(s, Cho) and isinstance(pos.value, tuple):
        out.append(('choice-unknown', substitute(base, pos.steps, (UNKNOWN, pos.value[1])), pos.names, BOTH, False))
    if isinstance(s, Leaf) and s.kind == 'ENUMERATED':
        if numeric:
            root, adds = enum_numbers(s)
            nums = [n for _, n in root + (adds or [])]
            bad = max(nums) + 1000
        else:
            bad = UNKNOWN
        out.append(('enum-unknown', substitute(base, pos.steps, bad), pos.names, BOTH, False))
    if isinstance(s, Seq) and isinstance(pos.value, dict):
        for m in all_members(s):
            if m.q == 'M' and m.name in pos.value:
                lenient = member_class(s, m.name) in ('add', 'group')
                out.append(('missing-member', remove_member(base, pos.steps, m.name), pos.names, BOTH, lenient))
    _, ls = layers(pos.term, env)
    if ls:
        cands = []
        if isinstance(s, Leaf):
            cands = [c for c, _ in leaf_candidates(s, ls, big=False)]
        elif isinstance(s, Of):
            elems = cover_values(s.elem, env, depth=1)
            if elems:
                if numeric:
                    elems = [to_numeric(s.elem, e, env) for e in elems]
                cands = [[elems[i % len(elems)] for i in range(n)] for n in lengths_for(ls, big=False)]
        n = 0
        for c in cands:
            cv = substitute(base, pos.steps, c)
            if verdict(term, _denumeric(cv), env) == OUTSIDE:
                out.append(('constraint', cv, pos.names, CHECKED, False))
                n += 1
                if n >= 4:
                    break
    return out


def _denumeric(v):
    # the constraint interpreter does not look at ENUMERATED values
    return v


def _sizeof(v):
    if isinstance(v, (bytes, bytearray, str)):
        return len(v)
    if isinstance(v, (list, tuple)):
        return 1 + sum(_sizeof(x) for x in v)
    if isinstance(v, dict):
        return 1 + sum(_sizeof(x) for x in v.values())
    return 1


# ---------------------------------------------------------------------------
# oracle

def observed_path(msg):
    head = msg.split(': ', 1)[0] if ': ' in msg else ''
    return head


def check_case(spec, name, cv, path, mode, lenient):
    """-> None | (kind, detail, exc class name, observed path)"""
    EE, CE = impl.asn1tools.EncodeError, impl.asn1tools.ConstraintsError
    try:
        enc, _ = budget.run(C0 + C1 * _sizeof(cv), spec.encode, name, cv, check_types=mode[0],
                            check_constraints=mode[1])
    except budget.BudgetExceeded:
        return ('foreign-exception', 'BudgetExceeded', 'BudgetExceeded', '')
    except (EE, CE) as e:
        msg = str(e)
        if msg.startswith(path + ': '):
            return None
        return ('wrong-path', msg[:160], type(e).__name__, observed_path(msg))
    except Exception as e:
        return ('foreign-exception', errclass(e), type(e).__name__, '')
    if lenient:
        return None
    return ('corruption-accepted', bytes(enc).hex()[:80], '', '')


def cyclic_refs(term, env):
    """Names of referenced types that lie on a reference cycle."""
    from ..terms import subterms
    graph = {}

    def refs_of(t):
        return {s.name for s in subterms(t) if isinstance(s, Ref)}
    todo = list(refs_of(term))
    while todo:
        n = todo.pop()
        if n in graph or n not in env:
            continue
        graph[n] = refs_of(env[n])
        todo.extend(graph[n])
    out = set()
    for n in graph:
        seen, stack = set(), list(graph[n])
        while stack:
            x = stack.pop()
            if x == n:
                out.add(n)
                break
            if x in seen or x not in graph:
                continue
            seen.add(x)
            stack.extend(graph[x])
    return out


def blob_of(unit, name, term, cv, numeric):
    return base64.b64encode(pickle.dumps((referenced(term, unit.env), unit.tags, unit.ext_implied,
                                          name, term, cv, numeric))).decode()


def rebuild(f):
    env, tags, ei, name, term, cv, numeric = pickle.loads(base64.b64decode(f['blob']))
    # a family top is named after its type; keep that name (it is the head of the path)
    if name in env or not (name.startswith('T') and name[1:].isdigit()):
        from ..terms import Module, render_module
        from ..space import Unit
        from ..tagging import legalize
        types = dict(env)
        types.setdefault(name, term)
        types = {n: legalize(t, types, tags) for n, t in types.items()}
        mod = Module('M', list(types.items()), tags=tags, ext_implied=ei, values=list(A.VALUE_REFS))
        unit = Unit('single', render_module(mod), [(name, types[name], 'single')], dict(types), tags, ei)
        return unit, name, term, cv, numeric
    unit = single_cunit(term, env, tags, ei)
    return unit, 'T0', term, cv, numeric


def work(unit):
    res = Result()
    any_enum = any(has_enum(t, unit.env) for _, t, _ in unit.tops)
    numerics = (False, True) if any_enum else (False,)
    compiled = impl.compile_tops(unit, CODECS, numerics)
    EE = impl.asn1tools.EncodeError
    for i, (name, term, lab) in enumerate(unit.tops):
        res.count('types')
        res.states.add(hash((unit.tags, unit.ext_implied, term)))
        bases = cover_values(term, unit.env, depth=3)
        if not bases:
            res.count('types_without_values')
            continue
        cyc = None
        for numeric in ((False, True) if has_enum(term, unit.env) else (False,)):
            specs = {}
            for codec in CODECS:
                c = compiled[(numeric, codec)][i]
                if isinstance(c, BaseException):
                    res.count('types_rejected_by_compiler')
                    res.outcome('compile-rejected:%s:%s' % (codec, errclass(c)[:60]))
                    continue
                specs[codec] = c
            if not specs:
                continue
            seen = set()
            dup = set()
            for base0 in bases:
                base = to_numeric(term, base0, unit.env) if numeric else base0
                res.count('values')
                # ---- well-typed values are never rejected by the type check -------------
                for codec, (spec, tname) in specs.items():
                    res.count('evaluations')
                    try:
                        spec.types[tname].check_types(base)
                        res.outcome('valid:check_types-ok')
                    except Exception as e:
                        res.outcome('valid:check_types-raised')
                        res.failures.append(_failure(unit, name, term, lab, base, numeric, codec, (True, False),
                                                     'valid-value-rejected-by-check_types', 'none', '', errclass(e),
                                                     type(e).__name__, '', None, (), cyc))
                # ---- codecs that can encode the uncorrupted value (a codec that already fails
                # on a valid component would blame that one, not the corruption) -----------
                usable = {}
                for codec, (spec, tname) in specs.items():
                    try:
                        budget.run(C0 + C1 * _sizeof(base), spec.encode, tname, base, check_types=True,
                                   check_constraints=True)
                        usable[codec] = (spec, tname)
                    except budget.BudgetExceeded:
                        res.count('base_value_not_encodable')
                    except Exception:
                        res.count('base_value_not_encodable')
                # ---- corruptions --------------------------------------------------------
                for pos in positions(term, base, unit.env):
                    res.count('positions')
                    for ckind, cv, names, modes, lenient in corruptions(term, base, pos, unit.env, numeric):
                        key = (ckind, repr(cv), names)
                        if key in seen:
                            continue
                        seen.add(key)
                        res.count('corruptions')
                        res.count('corruptions:' + ckind)
                        res.states.add(hash((unit.tags, unit.ext_implied, term, numeric, key)))
                        path = '.'.join((name,) + names)
                        if len(res.samples) < 2 and len(names) >= 2:
                            res.samples.append({'type': render_type(term, unit.env)[:200], 'corruption': ckind,
                                                'value': valrepr(cv)[:120], 'expected_prefix': path + ': '})
                        for codec, (spec, tname) in usable.items():
                            for mode in modes:
                                res.count('evaluations')
                                r = check_case(spec, tname, cv, path, mode, lenient)
                                if r is None:
                                    res.outcome('ok:%s:%s' % (ckind, 'ct' if mode[0] else 'noct'))
                                    continue
                                kind, detail, exc, obs = r
                                dkey = (key, mode, kind, detail)
                                if ckind in ('pytype', 'constraint') and dkey in dup:
                                    # raised by the (codec-independent) checkers: same observation
                                    res.count('failures_identical_across_codecs')
                                    continue
                                dup.add(dkey)
                                if cyc is None:
                                    cyc = cyclic_refs(term, unit.env)
                                res.outcome('%s:%s:%s' % (kind, ckind, codec))
                                res.failures.append(_failure(unit, name, term, lab, cv, numeric, codec, mode, kind,
                                                             ckind, path, detail, exc, obs, pos, names, cyc))
    return res


def _relation(exp, obs):
    if not obs:
        return 'no-path'
    e, o = exp.split('.'), obs.split('.')
    if o == e[:len(o)]:
        return 'shorter'
    if e == o[:len(e)]:
        return 'longer'
    if len(o) > len(e):
        return 'extra-elements'
    if len(o) < len(e):
        return 'fewer-elements'
    return 'different'


def _failure(unit, name, term, lab, cv, numeric, codec, mode, kind, ckind, path, detail, exc, obs, pos, names, cyc):
    via = [list(x) for x in pos.via] if pos is not None else []
    rec = sorted(r for r in (pos.refs if pos is not None else ()) if cyc and r in cyc)
    sig = '|'.join([kind, ckind, codec if ckind not in ('pytype', 'constraint') or kind != 'wrong-path' else '',
                    'ct' if mode[0] else 'noct', 'ne' if numeric else '', exc,
                    _relation(path, obs) if kind == 'wrong-path' else '',
                    via[-1][-1].split(':')[0] if via else 'top', 'rec' if rec else ''])
    return new_failure(
        ID, kind, sig, codec=codec, numeric=numeric, detail=detail, corruption=ckind, mode=list(mode),
        expected_path=path, observed_path=obs, exc_class=exc, via=via, recursive_refs=rec,
        pos_kind=kind_of(pos.term, unit.env) if pos is not None else None,
        size=len(render_type(term, unit.env)) + len(valrepr(cv)) + 10 * len(names),
        layer=lab.split(':')[0], spec=None, type=name, term=render_type(term, unit.env), value=valrepr(cv)[:2000],
        tags=unit.tags, ext_implied=unit.ext_implied, blob=blob_of(unit, name, term, cv, numeric))


def coverage(stats, tier):
    ev = stats.get('evaluations', 0)
    return {
        'states': stats.get('types', 0) + stats.get('values', 0) + stats.get('corruptions', 0),
        'transitions': stats.get('corruptions', 0),
        'traces_validated_against_impl': ev,
        'evaluations': ev,
        'distinct_nontrivial': ev,
        'rule': 'states = type terms + valid base values + distinct corrupted values; a transition applies one '
                'corruption at one component position; every corrupted value is encoded by every codec in every '
                'applicable check mode and the exception class and path prefix are compared with the model; every '
                'base value is passed through check_types of every codec\'s specification',
        'exhaustive': True,
    }


def replay(case):
    unit, name, term, cv, numeric = rebuild(case)
    codec = case['codec']
    try:
        spec = impl.compile_parsed(unit.spec, [codec], numeric)[codec]
    except Exception as e:
        return {'kind': 'compile-failed', 'detail': errclass(e)}
    if case['kind'] == 'valid-value-rejected-by-check_types':
        try:
            spec.types[name].check_types(cv)
            return None
        except Exception as e:
            return {'kind': case['kind'], 'detail': errclass(e)}
    path = '.'.join([name] + case['expected_path'].split('.')[1:])
    r = check_case(spec, name, cv, path, tuple(case['mode']), False)
    if r is None:
        return None
    return {'kind': r[0], 'detail': r[1], 'exc_class': r[2], 'observed_path': r[3], 'expected_path': path}
