"""C18 A compiled specification is stateless across calls and threads.

Part 1 (histories, explicit-state).  For one module and one codec the state is
the structural hash of the compiled Specification object graph (mc/graphhash.py;
an identifier, not an oracle).  From every reachable state every script of the
operation battery (mc/c18ops.py: encode / decode of valid, ill-typed,
unknown-name, incomplete, out-of-constraint, truncated and foreign inputs on
every type; decode-scramble-decode; encode-morph-encode) is applied; on every
transition each call's result or error (class and text) must equal that call
made alone on a freshly compiled specification and the objects passed in must
be unchanged.  Breadth-first until no new state appears or depth H.

Part 2 (threads, stateless search).  Real threads run real calls on one shared
specification under the baton scheduler of mc/sched.py with a schedule point at
every line executed inside the asn1tools package; every schedule with at most
P preemptions is executed; each thread's observations must equal the
sequential reference.

Module-level state.  A fresh compile in the same process shares the library's
module globals and class attributes with everything that ran before.  Their
hash is taken when this module is imported (before any encode / decode call) and
checked after every battery and harness.  If it ever moves, the unit is repeated
in *tracking* mode: the module-level state becomes part of the state identifier,
it is restored (graphhash.ModuleSnapshot) before every reference call, every
replay of a history and every schedule execution, so that "a freshly compiled
specification" does not share what a previous call left behind.
"""

import copy
import base64
import pickle
from dataclasses import dataclass, field

from .. import impl, space, sched, graphhash
from .. import alphabet as A
from .. import c18ops as ops
from ..runner import Result, new_failure
from ..terms import Leaf, Seq, Cho, Of, Ref, Tag, M, Grp, Rng, render_type, all_members, resolve
from ..values import dom

ID = 'C18'
LEVEL = 'model_checking'
CODECS = impl.ALL_CODECS
NO_DECODER = ('gser',)
ASSUMPTIONS = [
    'State identifier = structural hash of everything reachable from the Specification object (generic walk of '
    '__dict__/__slots__/containers, aliasing-sensitive) plus, separately, a hash of the module globals and class '
    'attributes of asn1tools, asn1tools.compiler/errors/compat and asn1tools.codecs.*; state held elsewhere '
    '(C extension objects, other packages, closures of functions not reachable from those roots) is not identified. '
    'To not depend on the identifier alone, one specification object is also driven through the whole battery in '
    'forward and in reverse order (two real histories of several hundred calls) with every call checked.',
    'The operation alphabet is finite: <= nvalues boundary values per type (mc.values.dom, big=False), ill-typed '
    'variants at every depth (first two elements of lists), strict prefixes (all when <= 12 bytes, a fixed spread '
    'otherwise), encodings of other types of the same module.',
    'numeric_enums=False only (the flag is read at compile time only, see DESIGN 1.2).',
    'Schedule points are line events of frames whose code is under the asn1tools package directory; a preemption '
    'inside one source line is explored only by the opcode-granularity harnesses of the thorough tier.  Lines of '
    'the standard library and of C extensions (bitstruct, json, ElementTree) execute atomically.',
    'Error texts are compared after replacing 0x... addresses; dict key order of results is not compared.',
    'A call whose reference exceeds the deterministic step budget is skipped (C08 owns termination).',
    'Worker threads of the scheduler are reused between executions (thread identity persists; the library has no '
    'thread-local state on the unchanged tree).',
    'A state reached through a transition on which the invariant failed is reported, not expanded (what lies behind '
    'it is a consequence of the reported violation).',
    'If the module-level state of the library moves, the unit is repeated in tracking mode with a reduced battery '
    '(a fixed even spread of 250 / 600 scripts) and a transition budget; such units are reported as capped.',
    'A module or type that a codec\'s compiler rejects (e.g. PER SET with untagged members: TypeError in '
    'compile_members) is left out for that codec and counted (types_rejected_by_compiler); compile-time behaviour '
    'belongs to other properties.',
]

FAIL_CAP = 12           # raw failures kept per unit


# ------------------------------------------------------------------------------------------------
# work units

@dataclass
class HUnit:
    part: str                     # 'hist' | 'sched'
    label: str
    spec: str
    codec: str                    # sched: the codec; hist: set per codec while the unit's codecs are looped over
    codecs: tuple = ()            # hist: codecs explored on this module (one parse)
    types: list = None            # hist: [(name, term)]
    env: dict = None
    family: str = ''
    nvalues: int = 6
    H: int = 3
    state_cap: int = 48
    reverse_pass: bool = True
    # sched
    programs: list = None         # per thread: [symbolic op]
    P: int = 1
    shard: tuple = (0, 1)
    granularity: str = 'line'
    horizon: int = 20000
    hkind: str = ''


def _extra_modules():
    """Module families of C18's own: CHOICE, SET, extension additions, SEQUENCE OF a shared
    reference, and a leaf zoo behind references (shared compiled objects of every leaf class)."""
    R = Rng
    B = Leaf('BOOLEAN')
    i8 = Leaf('INTEGER', rng=R(0, 255))
    i3 = Leaf('INTEGER', rng=R(0, 7))
    iu = Leaf('INTEGER')
    en = Leaf('ENUMERATED', enum=(('red', None), ('green', None)), enum_adds=(('blue', None),))
    oc = Leaf('OCTETSTRING', size=R(0, 3))
    ia = Leaf('IA5String', size=R(1, 4))
    bs = Leaf('BITSTRING', named=(('a', 0), ('b', 1), ('c', 5)))
    sub = Seq((M('a', i8), M('b', B, 'O'), M('c', i3, 'D', default=3)))
    fams = []
    fams.append(('c18-choice', {
        'Sub': sub,
        'En': en,
        'Inner': Cho((M('ia', i3), M('ib', Ref('Sub')))),
        'Ch': Cho((M('p', B), M('q', Ref('Sub')), M('r', Ref('Inner')), M('s', Ref('En'))), ext=True,
                  adds=(M('x', i8), M('y', Ref('Sub')))),
        'Holder': Seq((M('c1', Ref('Ch')), M('c2', Ref('Ch'), 'O'))),
    }))
    fams.append(('c18-set', {
        'Sub': sub,
        'St': Seq((M('a', i8), M('b', Ref('Sub'), 'O'), M('c', B, 'D', default=True), M('d', Tag(7, Ref('Sub')), 'O'),
                   M('e', oc)), is_set=True),
        'StX': Seq((M('a', i8), M('s', Ref('St'), 'O')), ext=True, adds=(M('x', Ref('Sub'), 'O'),), is_set=True),
    }))
    fams.append(('c18-ext', {
        'Sub': sub,
        'V1': Seq((M('a', i8),), ext=True),
        'V2': Seq((M('a', i8),), ext=True, adds=(M('x', Ref('Sub'), 'O'), Grp((M('g1', i8), M('g2', B, 'O'))),
                                                  M('z', ia, 'O'))),
        'V3': Seq((M('a', i8),), ext=True, adds=(M('x', Ref('Sub')),), root2=(M('r', B, 'O'),)),
        'Wrap': Seq((M('v', Ref('V2')), M('w', Ref('V2'), 'O'), M('t', i3))),
    }))
    fams.append(('c18-of', {
        'Sub': sub,
        'L1': Of(Ref('Sub'), size=R(0, 2)),
        'L2': Of(Ref('L1'), size=R(1, 2, ext=True)),
        'S1': Of(i8, is_set=True, size=R(0, 3)),
        'LL': Seq((M('l', Ref('L1')), M('m', Ref('L1'), 'O'), M('s', Ref('S1'), 'D', default_txt='{ }', default=[]))),
    }))
    fams.append(('c18-leaves', {
        'I': iu, 'E': en, 'O': oc, 'S': ia, 'Bs': bs,
        'Rl': Leaf('REAL'), 'Oi': Leaf('OID'), 'N': Leaf('NULL'), 'U': Leaf('UTF8String'),
        'Zoo': Seq((M('i', Ref('I')), M('e', Ref('E')), M('o', Ref('O')), M('s', Ref('S'), 'O'), M('bs', Ref('Bs'), 'O'),
                    M('rl', Ref('Rl'), 'O'), M('oi', Ref('Oi'), 'O'), M('n', Ref('N'), 'O'), M('u', Ref('U'), 'O'),
                    M('i2', Ref('I'), 'D', default=5))),
    }))
    # recursion through tagged members (the BER Recursive codec re-tags a copy of the inner type)
    rg = Seq((M('v', Tag(0, i8, mode='IMPLICIT')), M('n', Tag(1, Ref('RG'), mode='IMPLICIT'), 'O'),
              M('m', Tag(2, Ref('RG'), mode='EXPLICIT'), 'O')))
    rc = Cho((M('leaf', Tag(0, i8, mode='IMPLICIT')), M('pair', Tag(1, Of(Ref('RC'), size=R(0, 2)), mode='IMPLICIT')),
              M('wrap', Tag(2, Ref('RC'), mode='EXPLICIT'))))
    fams.append(('c18-rec', {'RG': rg, 'RC': rc, 'Top': Seq((M('g', Ref('RG')), M('c', Ref('RC'), 'O')))}))
    return fams


def _family_units(envs):
    from ..tagging import legalize
    from ..terms import Module, render_module
    out = list(space.family_units(envs=envs)) + list(space.same_name_units(envs=envs))
    for tags, ei in envs:
        for lab, types in _extra_modules():
            types = {n: legalize(t, types, tags) for n, t in types.items()}
            mod = Module('M', list(types.items()), tags=tags, ext_implied=ei, values=list(A.VALUE_REFS))
            out.append(space.Unit('fam/%s/%s%s' % (lab, tags, '+EI' if ei else ''), render_module(mod),
                                  [(n, types[n], 'fam:' + lab) for n in types], dict(types), tags, ei))
    return out


def _l1_signature(t):
    if isinstance(t, Seq):
        adds = tuple('G%d' % len(a.members) if isinstance(a, Grp) else 'A' for a in t.adds)
        qs = ''.join(sorted({m.q for m in all_members(t)}))
        return ('SET' if t.is_set else 'SEQ', t.ext, adds, bool(t.root2), qs)
    if isinstance(t, Cho):
        return ('CHO', t.ext, len(t.adds))
    return ('OF', t.is_set, None if t.size is None else (t.size.ext, t.size.lb == t.size.ub))


def _l2_signature(t):
    def k(x):
        if isinstance(x, Seq):
            return ('SET' if x.is_set else 'SEQ') + ('x' if x.ext else '') + \
                ('g' if any(isinstance(a, Grp) for a in x.adds) else '')
        if isinstance(x, Cho):
            return 'CHO' + ('x' if x.ext else '')
        if isinstance(x, Of):
            return 'OF' + ('s' if x.is_set else '')
        if isinstance(x, Tag):
            return 'TAG' + x.mode + '>' + k(x.inner)
        return 'L'
    inner = [k(m.t) for m in all_members(t)] if isinstance(t, (Seq, Cho)) else [k(t.elem)]
    q = ''.join(m.q for m in all_members(t)) if isinstance(t, (Seq, Cho)) else ''
    return (k(t), tuple(inner), q)


def _term_modules(tier):
    """A few L1 / L2 terms: the last term (richest letters) of every structural class."""
    out = []
    cls = {}
    for t in A.l1_terms(2, 2):
        cls[_l1_signature(t)] = t
    l1 = list(cls.values())
    l2 = A.l2_terms()
    if tier != 'thorough':
        cls = {}
        for t in l2:
            cls[_l2_signature(t)] = t
        l2 = list(cls.values())
    envs = (('AUTOMATIC', False),) if tier != 'thorough' else (('EXPLICIT', False), ('AUTOMATIC', True))
    for tags, ei in envs:
        for lab, terms in (('L1', l1), ('L2', l2)):
            for bi, chunk in enumerate(space.batches(terms, 3)):
                out.append(space.make_unit('%s/%s%s/%d' % (lab, tags, '+EI' if ei else '', bi),
                                           [(t, lab) for t in chunk], helpers=A.REF_ENV, tags=tags, ext_implied=ei))
    return out


def _rich_values(term, env, n, maxlen):
    """The n largest distinct values of the type whose canonical text has at most maxlen characters.
    Candidates: the value domain and, for recursive types, every sub-value of the same type."""
    d = dom(term, env, big=False) or []
    top = resolve(term, env)
    cand = []
    seen = set()

    def add(v):
        c = ops.canon(v)
        if len(c) <= maxlen and c not in seen:
            seen.add(c)
            cand.append((-len(c), len(cand), v))

    for v in d:
        add(v)
    for v in d[:40]:
        for path, t, sub in ops.positions(term, v, env):
            if path and t is top or (path and t == top):
                add(sub)
    cand.sort(key=lambda x: (x[0], x[1]))
    return [v for _, _, v in cand[:n]]


def _leaves(v):
    if isinstance(v, dict):
        return [x for k in sorted(v) for x in [('k', k)] + _leaves(v[k])]
    if isinstance(v, (list, tuple)):
        return [x for e in v for x in _leaves(e)]
    return [ops.canon(v)]


def _most_different(cands, others):
    """Among cands (largest first) the value whose scalar leaves differ most from those already
    chosen for the other threads, restricted to candidates of at least 60 % of the largest size
    (so that it stays rich); ties keep the larger / earlier one."""
    if not others:
        return cands[0]
    big = len(ops.canon(cands[0]))
    best, bestd = None, -1
    for v in cands:
        if len(ops.canon(v)) < 0.6 * big:
            continue
        lv = _leaves(v)
        d = 0
        for o in others:
            lo = _leaves(o)
            d += sum(1 for a, b in zip(lv, lo) if a != b) + abs(len(lv) - len(lo))
            if ops.canon(o) == ops.canon(v):
                d -= 1000
        if d > bestd:
            best, bestd = v, d
    return best


def _deep_bad(term, v, env):
    """v with its deepest node replaced by an ill-typed object."""
    best = None
    for path, t, sub in ops.positions(term, v, env):
        if best is None or len(path) >= len(best[0]):
            best = (path, sub)
    return ops.replace_at(v, best[0], ops._wrong(best[1]))


PAIRS_QUICK = [('shared', ('P1', 'P2')), ('shared', ('P1', 'P1')), ('rec-list', ('RL', 'RL')),
               ('rec-mutual', ('RA', 'RB')), ('shared-qual', ('Q', 'Q')), ('c18-rec', ('RG', 'RG'), 80)]
PAIRS_MORE = [('shared', ('Sub', 'P2')), ('rec-tree', ('RT', 'RT')), ('rec-ext', ('RE', 'RE')),
              ('shared-qual', ('Q', 'I')), ('ref-chain', ('C', 'A1')), ('c18-choice', ('Ch', 'Holder')),
              ('c18-set', ('St', 'StX')), ('c18-ext', ('V2', 'Wrap')), ('c18-of', ('L2', 'LL')),
              ('c18-leaves', ('Zoo', 'Zoo')), ('c18-rec', ('RC', 'Top'), 80)]
PAIRS_P2 = [('shared', ('P1', 'P2')), ('shared', ('P1', 'P1')), ('rec-list', ('RL', 'RL'), 30),
            ('rec-mutual', ('RA', 'RB')),
            ('c18-rec', ('RG', 'RG'), [{'v': 1, 'n': {'v': 2}}, {'v': 3, 'm': {'v': 4}}])]
TRIPLES = [('shared', ('P1', 'P2', 'Sub')), ('rec-mutual', ('RA', 'RB', 'RA')), ('rec-list', ('RL', 'RL', 'RL'))]
KINDS2 = ['ee', 'cc', 'ed', 'dd', 'xe', 'td', '2x2']
KINDS2_P2 = ['ee', 'ed', 'dd', 'xe']
KINDS3 = ['eee', 'eed', 'edd']


def _programs(kind, names, vals, bads):
    """Symbolic thread programs of one harness kind."""
    def e(i):
        return ('enc', names[i], vals[i], True, False)

    def c(i):
        return ('enc', names[i], vals[i], True, True)

    def d(i):
        return ('dec-of', names[i], vals[i], None)

    def t(i):
        return ('dec-of', names[i], vals[i], 'half')

    def x(i):
        return ('enc', names[i], bads[i], False, False)

    table = {'ee': [[e(0)], [e(1)]], 'cc': [[c(0)], [c(1)]], 'ed': [[e(0)], [d(1)]], 'dd': [[d(0)], [d(1)]],
             'xe': [[x(0)], [e(1)]], 'td': [[t(0)], [d(1)]], '2x2': [[e(0), d(0)], [e(1), d(1)]]}
    if kind in table:
        return table[kind]
    return [[{'e': e, 'd': d}[ch](i)] for i, ch in enumerate(kind)]


def _sched_units(tier):
    fams = {u.label.split('/')[1]: u for u in _family_units((('EXPLICIT', False),))}
    out = []

    def harnesses(fam, names, kinds, P, maxlen, tag, K=1, granularity='line', codecs=CODECS):
        u = fams[fam]
        vals, bads = [], []
        used = {}
        for nm in names:
            if isinstance(maxlen, list):
                j = used.get(nm, 0)
                used[nm] = j + 1
                v = maxlen[j % len(maxlen)]
            else:
                rv = _rich_values(u.env[nm], u.env, 24, maxlen)
                if not rv:
                    return
                v = _most_different(rv, vals)
            vals.append(v)
            bads.append(_deep_bad(u.env[nm], v, u.env))
        for codec in codecs:
            for kind in kinds:
                if codec in NO_DECODER and ('d' in kind or kind == '2x2'):
                    continue
                for k in range(K):
                    out.append(HUnit('sched', 'sched/%s/%s/%s/%s/%s%s' % (tag, fam, '+'.join(names), kind, codec,
                                                                         '' if K == 1 else '#%d' % k),
                                     u.spec, codec, family=fam, programs=_programs(kind, names, vals, bads),
                                     P=P, shard=(k, K), granularity=granularity, hkind=tag + ':' + kind,
                                     horizon=60000 if granularity == 'opcode' else 20000))

    def ml(pair, default):
        if len(pair) > 2:
            return pair[2] if isinstance(pair[2], list) else min(default, pair[2])     # explicit values
        return default

    if tier == 'quick':
        for pair in PAIRS_QUICK:
            harnesses(pair[0], pair[1], KINDS2, 1, ml(pair, 200), 'p1')
    else:
        for pair in PAIRS_QUICK + PAIRS_MORE:
            harnesses(pair[0], pair[1], KINDS2, 1, ml(pair, 200), 'p1')
        for pair in PAIRS_P2:
            harnesses(pair[0], pair[1], KINDS2_P2, 2, ml(pair, 40), 'p2', K=4)
        for pair in TRIPLES:
            harnesses(pair[0], pair[1], KINDS3, 1, ml(pair, 120), 't3')
        harnesses('shared', ('P1', 'P2'), ['ee', 'ed'], 1, 60, 'op', granularity='opcode')
    return out


def _hist_units(tier):
    thorough = tier == 'thorough'
    envs = space.ENVS_QUICK if not thorough else space.ENVS_ALL
    out = []
    for u in _family_units(envs):
        types = [(n, t) for n, t in u.env.items()]
        if 'same-name' in u.label:
            # (the environment of this family also holds virtual entries for constrained references)
            types = [(n, t) for n, t, _ in u.tops]
        out.append(HUnit('hist', 'hist/%s' % u.label, u.spec, '', codecs=CODECS, types=types, env=u.env,
                         family=u.label.split('/')[1], nvalues=8 if thorough else 6,
                         H=5 if thorough else 3, state_cap=96 if thorough else 48))
    for u in _term_modules(tier):
        types = [(n, t) for n, t in u.env.items()]
        out.append(HUnit('hist', 'hist/%s' % u.label, u.spec, '', codecs=CODECS, types=types, env=u.env,
                         family=u.label.split('/')[0], nvalues=4 if thorough else 3,
                         H=5 if thorough else 3, state_cap=96 if thorough else 48, reverse_pass=thorough))
    return out


def units(tier):
    # long units first, so that the pool drains evenly
    s = _sched_units(tier)
    s.sort(key=lambda u: -u.P)
    h = _hist_units(tier)
    return s[:2] + h[:2] + s[2:] + h[2:]


def bounds(tier):
    thorough = tier == 'thorough'
    us = units(tier)
    n = {}
    for u in us:
        k = u.hkind.split(':')[0] if u.part == 'sched' else 'hist'
        if u.part != 'sched' or u.shard[0] == 0:
            n[k] = n.get(k, 0) + 1
    return {'tier': tier,
            'histories': {'depth_H': 5 if thorough else 3, 'state_cap_per_module_and_codec': 96 if thorough else 48,
                          'transition_budget': '%d x battery' % (16 if thorough else 6),
                          'modules': n.get('hist', 0), 'codecs_per_module': list(CODECS),
                          'module_families': 'alphabet.families() (7) + c18-choice/set/ext/of/leaves/rec under %s; '
                                             'one L1 term per structural class and %s L2 terms, 3 types per module'
                                             % ('5 environments' if thorough else 'EXPLICIT and AUTOMATIC tags',
                                                'all 352' if thorough else 'one per structural class of the'),
                          'values_per_type': '8 (families) / 4 (terms)' if thorough else '6 (families) / 3 (terms)',
                          'passes_over_the_battery_on_one_live_specification': 'forward and reverse' if thorough
                          else 'forward and reverse (families), forward (terms)'},
            'schedules': {'2 threads x 1-2 ops, P<=1, line points': '%d harnesses (%d type pairs x %s x codecs)'
                          % (n.get('p1', 0), len(PAIRS_QUICK) + (len(PAIRS_MORE) if thorough else 0), KINDS2),
                          '2 threads x 1 op, P<=2, line points': '%d harnesses (%d pairs x %s x codecs, small values)'
                          % (n.get('p2', 0), len(PAIRS_P2), KINDS2_P2) if thorough else 'not in this tier',
                          '3 threads x 1 op, P<=1, line points': '%d harnesses' % n.get('t3', 0)
                          if thorough else 'not in this tier',
                          '2 threads x 1 op, P<=1, opcode points': '%d harnesses' % n.get('op', 0)
                          if thorough else 'not in this tier',
                          'horizon_points': 20000}}


# ------------------------------------------------------------------------------------------------
# shared helpers

def _compile(parsed, codec):
    return impl.asn1tools.compile_dict(copy.deepcopy(parsed), codec, None, False)


SNAP = graphhash.ModuleSnapshot()       # taken at import: nothing has been encoded or decoded yet


class Unrestorable(Exception):
    """Machinery limit: the library's module-level state moved and could not be put back."""


def _restore():
    if not SNAP.restore():
        raise Unrestorable('module-level state of asn1tools changed and cannot be restored by re-binding')


def _fresh(parsed, codec, tracking):
    if tracking:
        _restore()
    return _compile(parsed, codec)


def _blob(obj):
    return base64.b64encode(pickle.dumps(obj)).decode()


def _unblob(s):
    return pickle.loads(base64.b64decode(s))


# ------------------------------------------------------------------------------------------------
# Part 1: histories

class _Refs:
    """Reference observations: each call alone on a freshly compiled specification (memoised)."""

    def __init__(self, parsed, codec, tracking):
        self.parsed, self.codec, self.tracking = parsed, codec, tracking
        self.memo = {}

    def __call__(self, call):
        k = ops.call_key(call)
        if k not in self.memo:
            if self.tracking:
                raise KeyError('reference not precomputed: ' + k[:100])
            self.memo[k] = ops.do_call(_compile(self.parsed, self.codec), copy.deepcopy(call))[0]
        return self.memo[k]

    def precompute(self, battery):
        for _, script in battery:
            for call in ops.script_calls(script):
                k = ops.call_key(call)
                if k not in self.memo:
                    self.memo[k] = ops.do_call(_fresh(self.parsed, self.codec, True), copy.deepcopy(call))[0]


def _check_transition(unit, res, refs, hist, lab, script, obs, ok, detail, mode, fails):
    """The invariant on one transition.  Returns True when it held."""
    good = True
    calls = ops.script_calls(script)
    for i, (call, o) in enumerate(zip(calls, obs)):
        r = refs(call)
        res.count('calls_checked')
        if r == ('budget',):
            res.count('calls_skipped_reference_over_budget')
            continue
        res.outcome('%s:%s:%s' % (unit.codec, call[0], o[0] if o[0] != 'err' else 'err:' + o[1].split('.')[-1]))
        if o != r:
            good = False
            if len(fails) < FAIL_CAP:
                fails.append(new_failure(
                    ID, 'history-divergence', '|'.join(['history-divergence', unit.codec, lab.split(':')[0], call[0]]),
                    codec=unit.codec, spec=unit.spec, label=unit.label + '/' + unit.codec, mode=mode,
                    history=[ops.script_key(s)[:300] for s in hist], script=lab + ' ' + ops.script_key(script)[:400],
                    call_index=i, expected=repr(r)[:600], observed=repr(o)[:600], size=len(hist),
                    script_kind=script[0], aliases=(detail or {}).get('aliases'),
                    steps_key=None, blob=_blob(('hist', unit.spec, unit.codec, hist, script))))
    if not ok:
        good = False
        if len(fails) < FAIL_CAP:
            fails.append(new_failure(
                ID, 'input-modified', '|'.join(['input-modified', unit.codec, lab.split(':')[0]]),
                codec=unit.codec, spec=unit.spec, label=unit.label + '/' + unit.codec, mode=mode,
                history=[ops.script_key(s)[:300] for s in hist], script=lab + ' ' + ops.script_key(script)[:400],
                detail=detail, size=len(hist), blob=_blob(('hist', unit.spec, unit.codec, hist, script))))
    return good


def _explore_histories(unit, res, parsed, battery, tracking):
    """Breadth-first exploration.  tracking=False: the module-level state is assumed
    constant and only verified; returns 'module-state-moved' when it changed, in which
    case the caller repeats the exploration with tracking=True."""
    codec = unit.codec
    refs = _Refs(parsed, codec, tracking)
    fails = []
    mode = 'tracking-module-state' if tracking else 'plain'
    cur = {'spec': None, 'state': None}
    capped = False
    if tracking:
        # every step costs a restore of the module-level state: a fixed even spread of the battery
        # (all operation classes stay represented) and a transition budget; reported as capped
        n = 600 if unit.H > 3 else 250
        if len(battery) > n:
            battery = ops.pick(battery, n)
            capped = True
        refs.precompute(battery)

    def ident(spec):
        h = graphhash.graph_hash(spec)
        return h + '/' + graphhash.module_hash() if tracking else h

    def step(state, hist, script):
        if cur['spec'] is None or cur['state'] != state:
            spec = _fresh(parsed, codec, tracking)
            for s in hist:
                ops.run_script(spec, copy.deepcopy(s))
            if hist and ident(spec) != state:
                res.count('replays_reaching_a_different_hash')
            cur['spec'] = spec
            res.count('subject_rebuilds')
        obs, ok, detail = ops.run_script(cur['spec'], copy.deepcopy(script))
        new = ident(cur['spec'])
        cur['state'] = new
        return obs, ok, detail, new

    s0 = ident(_fresh(parsed, codec, tracking))
    seen = {s0: []}
    frontier = [s0]
    budget_transitions = (2400 if unit.H > 3 else 750) if tracking else (16 if unit.H > 3 else 6) * len(battery)
    done = 0
    while frontier:
        state = frontier.pop(0)
        hist = seen[state]
        if len(hist) >= unit.H:
            res.count('states_at_depth_bound_not_expanded')
            capped = True
            continue
        passes = [battery]
        if unit.reverse_pass and not hist:
            passes.append(list(reversed(battery)))
        for pas in passes:
            for lab, script in pas:
                if done >= budget_transitions:
                    capped = True
                    break
                obs, ok, detail, new = step(state, hist, script)
                done += 1
                res.count('transitions')
                res.count('transitions_depth_%d' % len(hist))
                good = _check_transition(unit, res, refs, hist, lab, script, obs, ok, detail, mode, fails)
                if new != state:
                    res.count('transitions_changing_state')
                    if not good:
                        # the violation is reported; what lies behind a violated transition is its consequence
                        res.count('states_behind_failing_transitions_not_expanded')
                    elif new not in seen:
                        if len(seen) < unit.state_cap:
                            seen[new] = hist + [script]
                            frontier.append(new)
                        else:
                            capped = True
        res.count('states_expanded')
        if not tracking and SNAP.moved():
            return 'module-state-moved'      # references shared the moved state: nothing found so far is kept
        if len(fails) >= FAIL_CAP:
            capped = True
            break
    for s in seen:
        res.states.add('%s|%s|%s|%s' % (unit.label, unit.codec, mode, s))
    res.count('hist_states', len(seen))
    res.count('hist_units_single_state' if len(seen) == 1 else 'hist_units_multi_state')
    if capped:
        res.count('hist_units_capped')
    else:
        res.count('hist_units_fixpoint')
    res.count('reference_calls', len(refs.memo))
    res.failures.extend(fails)
    return 'done'


def _usable(parsed, codec, res):
    """The parsed module without the types this codec's compiler rejects (compile-time
    limitations are other properties' subject; C18 needs a compiled specification)."""
    modname = list(parsed)[0]
    names = list(parsed[modname]['types'])
    removed = []

    def pruned():
        d = copy.deepcopy(parsed)
        for n in removed:
            del d[modname]['types'][n]
        return d

    def ok():
        try:
            impl.asn1tools.compile_dict(pruned(), codec, None, False)
            return True
        except Exception:
            return False

    while not ok():
        rest = [n for n in names if n not in removed]
        if not rest:
            break
        for n in reversed(rest):
            removed.append(n)
            if ok():
                break
            removed.pop()
        else:
            removed.append(rest[-1])
    if removed:
        res.count('types_rejected_by_compiler', len(removed))
        res.outcome('compile-rejected:%s' % codec, len(removed))
    return pruned(), set(removed)


def _work_hist(unit):
    total = Result()
    parsed_all = impl.asn1tools.parse_string(unit.spec)
    all_types = list(unit.types)
    for codec in unit.codecs:
        unit.codec = codec
        res = Result()
        _restore()
        parsed, removed = _usable(parsed_all, codec, res)
        unit.types = [(n, t) for n, t in all_types if n not in removed]
        battery = _build_battery(unit, parsed)
        res.count('battery_scripts', len(battery))
        res.count('hist_units')
        if codec == 'uper':
            res.samples.append({'unit': unit.label, 'codec': codec, 'scripts': len(battery),
                                'example': [lab + ' ' + ops.script_key(s)[:120] for lab, s in battery[:3]]})
        head = (dict(res.stats), list(res.samples), dict(res.outcomes))
        r = 'module-state-moved' if SNAP.moved() else _explore_histories(unit, res, parsed, battery, False)
        if r == 'module-state-moved':
            res = Result()
            res.stats, res.samples, res.outcomes = head
            res.count('hist_units_rerun_tracking_module_state')
            res.outcome('module-level-state-moved:' + codec)
            _explore_histories(unit, res, parsed, battery, True)
            _restore()
        for k, v in res.stats.items():
            total.count(k, v)
        for k, v in res.outcomes.items():
            total.outcome(k, v)
        total.failures.extend(res.failures)
        total.samples.extend(res.samples)
        total.states.update(res.states)
    unit.types = all_types
    return total


def _build_battery(unit, parsed):
    return ops.build_battery(unit.types, unit.env, lambda: _compile(parsed, unit.codec), unit.codec,
                             nvalues=unit.nvalues, has_decoder=unit.codec not in NO_DECODER,
                             decl=unit.codec in ('ber', 'der'))


# ------------------------------------------------------------------------------------------------
# Part 2: schedules

def _resolve_programs(unit, parsed):
    """Symbolic programs -> calls."""
    out = []
    for prog in unit.programs:
        calls = []
        for op in prog:
            if op[0] == 'dec-of':
                o, r = ops.do_call(_compile(parsed, unit.codec), ('enc', op[1], copy.deepcopy(op[2]), True, False))
                b = bytes(r) if r is not None else b''
                if op[3] == 'half':
                    b = b[:max(0, len(b) // 2)]
                calls.append(('dec', op[1], b, False))
            else:
                calls.append(op)
        out.append(calls)
    return out


def _exec_schedule(unit, parsed, programs, prefix, tracking):
    """One controlled execution on a freshly compiled specification.  Returns (Execution, inputs unmodified)."""
    spec = _fresh(parsed, unit.codec, tracking)
    progs = copy.deepcopy(programs)
    before = [[ops.canon(c[2]) for c in p] for p in progs]

    def body(p):
        def run():
            return [ops.do_call(spec, c, limit=None)[0] for c in p]
        return run

    x = sched.Sched([body(p) for p in progs], prefix, horizon=unit.horizon,
                    tracedir=sched.package_dir(impl.asn1tools), granularity=unit.granularity).run()
    after = [[ops.canon(c[2]) for c in p] for p in progs]
    return x, before == after


def _sched_failure(unit, kind, prefix, cost, x, refs, programs, mode, detail=None):
    return new_failure(
        ID, kind, '|'.join([kind, unit.codec, unit.hkind]),
        codec=unit.codec, spec=unit.spec, label=unit.label, mode=mode,
        threads=[[ops.call_key(c)[:200] for c in p] for p in programs],
        schedule=[list(e[:2]) for e in prefix], preemptions=cost, points=x.n_points if x is not None else None,
        expected=repr(refs)[:800], observed=repr(x.results)[:800] if x is not None else None, detail=detail,
        size=cost * 100000 + (x.n_points if x is not None else 0),
        blob=_blob(('sched', unit, programs, [tuple(e[:2]) for e in prefix])))


def _explore_schedules(unit, res, parsed, programs, tracking):
    mode = 'tracking-module-state' if tracking else 'plain'
    refs = [[ops.do_call(_fresh(parsed, unit.codec, tracking), copy.deepcopy(c))[0] for c in p] for p in programs]

    def run(prefix):
        return _XR(_exec_schedule(unit, parsed, programs, prefix, tracking))

    fails = []
    outcomes = {}
    # determinism of the harness: one schedule with a preemption in the middle, replayed twice
    root = run([])
    mid = None
    order = list(range(root.n_points // 2, root.n_points)) + list(range(1, root.n_points // 2))
    for p in order:
        alts = [t for t in range(len(programs)) if t != root.running[p] and root.finish[t] > p]
        if root.kinds[p] == 'l' and alts:
            mid = [(p, alts[0], (root.running[p], root.kinds[p], root.locs[p]))]
            break
    try:
        if mid is not None:
            a = run(mid).pair[0]
            b = run(mid).pair[0]
            if a.trace_key() != b.trace_key() or a.results != b.results:
                raise sched.SchedulerError('harness %s is not deterministic under replay of %r' % (unit.label, mid))
            res.count('determinism_replays', 2)
        if not tracking and SNAP.moved():
            return 'module-state-moved'

        def on_exec(prefix, cost, xr):
            x, inputs_ok = xr.pair
            key = repr(x.results)
            outcomes[key] = outcomes.get(key, 0) + 1
            res.count('schedule_switches', x.switches)
            res.count('schedule_points_executed', x.n_points)
            if x.aborted:
                fails.append(_sched_failure(unit, 'schedule-horizon', prefix, cost, x, refs, programs, mode))
            elif x.results != refs:
                fails.append(_sched_failure(unit, 'schedule-divergence', prefix, cost, x, refs, programs, mode))
            if not inputs_ok:
                fails.append(_sched_failure(unit, 'input-modified', prefix, cost, x, refs, programs, mode))
            return len(fails) >= 3

        st = sched.explore(run, unit.P, unit.shard, on_exec)
    except sched.SchedulerError:
        if not tracking and SNAP.moved():
            return 'module-state-moved'      # executions did not start from equal states: repeat with tracking
        raise
    if not tracking and SNAP.moved():
        return 'module-state-moved'
    res.count('schedules', st['executions'])
    for c, n in st['by_cost'].items():
        res.count('schedules_with_%d_preemptions' % c, n)
    res.count('sched_harness_shards')
    if unit.shard[0] == 0:
        res.count('sched_harnesses')
        res.count('schedule_points_root_total', st['points_root'])
        res.outcome('points-per-harness:%s' % _bucket(st['points_root']))
    res.count('sched_harness_shards_%s' % unit.hkind.split(':')[0])
    res.outcome('distinct-results-per-harness-shard:%d' % len(outcomes))
    if len(outcomes) == 1 and repr(refs) in outcomes:
        res.count('sched_harness_shards_where_every_schedule_gave_the_reference_result')
    if st['stopped']:
        res.count('sched_harnesses_stopped_at_failures')
    for k in outcomes:
        res.states.add('%s|%s' % (unit.label.split('#')[0], k))
    if len(res.samples) < 1:
        res.samples.append({'harness': unit.label, 'points': st['points_root'], 'schedules': st['executions'],
                            'by_preemptions': st['by_cost'], 'distinct_results': len(outcomes),
                            'reference': repr(refs)[:300]})
    res.failures.extend(fails)
    return 'done'


class _XR:
    """Adapter: sched.explore wants an Execution; we carry (Execution, inputs_ok)."""

    def __init__(self, pair):
        self.pair = pair
        x = pair[0]
        self.n_points, self.kinds, self.running, self.locs = x.n_points, x.kinds, x.running, x.locs
        self.finish, self.aborted = x.finish, x.aborted


def _bucket(n):
    for b in (50, 100, 200, 300, 400, 600, 800, 1200, 2000, 4000, 10000):
        if n <= b:
            return '<=%d' % b
    return '>10000'


def _work_sched(unit):
    res = Result()
    _restore()
    parsed = impl.asn1tools.parse_string(unit.spec)
    try:
        _compile(parsed, unit.codec)
    except Exception as e:
        # this codec's compiler refuses the harness module (e.g. PER and a SET with untagged components):
        # a compile-time limitation is other properties' subject, C18 needs a compiled specification
        res.count('sched_harnesses_not_compilable')
        res.outcome('harness-not-compilable:%s:%s' % (unit.codec, type(e).__name__))
        return res
    programs = _resolve_programs(unit, parsed)
    r = 'module-state-moved' if SNAP.moved() else _explore_schedules(unit, res, parsed, programs, False)
    if r == 'module-state-moved':
        res = Result()
        res.count('sched_harnesses_rerun_tracking_module_state')
        res.outcome('module-level-state-moved:' + unit.codec)
        _explore_schedules(unit, res, parsed, programs, True)
        _restore()
    return res


# ------------------------------------------------------------------------------------------------
# runner interface

def work(unit):
    if unit.part == 'hist':
        return _work_hist(unit)
    return _work_sched(unit)


def coverage(stats, tier):
    g = stats.get
    return {
        'states': g('hist_states', 0) + g('schedules', 0),
        'transitions': g('transitions', 0) + g('schedule_switches', 0),
        'traces_validated_against_impl': g('transitions', 0) + g('schedules', 0),
        'evaluations': g('calls_checked', 0) + g('schedules', 0),
        'distinct_nontrivial': g('transitions', 0) + g('schedules', 0) - g('schedules_with_0_preemptions', 0),
        'graph_hash_states': g('hist_states', 0),
        'history_units': g('hist_units', 0),
        'history_units_with_one_state': g('hist_units_single_state', 0),
        'history_units_at_fixpoint': g('hist_units_fixpoint', 0),
        'history_units_capped': g('hist_units_capped', 0),
        'schedule_executions': g('schedules', 0),
        'schedules_by_preemptions': {k[len('schedules_with_'):]: v for k, v in sorted(stats.items())
                                     if k.startswith('schedules_with_')},
        'schedule_harnesses': g('sched_harnesses', 0),
        'schedule_harness_shards': g('sched_harness_shards', 0),
        'schedule_harness_shards_where_every_schedule_gave_the_reference_result':
            g('sched_harness_shards_where_every_schedule_gave_the_reference_result', 0),
        'vacuity_note': 'on a tree where the property holds every schedule of every harness yields the single '
                        'reference outcome and every history unit has one state; the mutants listed in '
                        'mutants/survivors.json (m15) and mutants/proposed_c18.json show the same harnesses '
                        'producing many distinct outcomes',
        'schedule_points_per_harness_mean': round(g('schedule_points_root_total', 0) / max(1, g('sched_harnesses', 0)), 1),
        'rule': 'states = distinct (unit, graph hash) pairs reached by the history explorer + controlled schedule '
                'executions; transitions = scripts applied to a specification in the history explorer (each checked '
                'call by call against a fresh-compile reference) + context switches forced by the scheduler; '
                'traces_validated_against_impl: every transition and every schedule is an execution of the real '
                'library; non-trivial = history transitions + schedules with at least one preemption or free switch',
        'exhaustive': g('hist_units_capped', 0) == 0 and g('sched_harnesses_stopped_at_failures', 0) == 0,
    }


def replay(case):
    """Re-execute one recorded case; the module-level state is restored before every reference
    call and before the subject execution."""
    data = _unblob(case['blob'])
    if data[0] == 'hist':
        _, spec_text, codec, hist, script = data
        parsed = impl.asn1tools.parse_string(spec_text)
        refs = [ops.do_call(_fresh(parsed, codec, True), copy.deepcopy(c))[0] for c in ops.script_calls(script)]
        spec = _fresh(parsed, codec, True)
        for s in hist:
            ops.run_script(spec, copy.deepcopy(s))
        obs, ok, detail = ops.run_script(spec, copy.deepcopy(script))
        _restore()
        if obs == refs and ok:
            return None
        return {'observed': repr(obs), 'expected': repr(refs), 'inputs_unmodified': ok, 'detail': detail}
    _, unit, programs, prefix = data
    parsed = impl.asn1tools.parse_string(unit.spec)
    refs = [[ops.do_call(_fresh(parsed, unit.codec, True), copy.deepcopy(c))[0] for c in p] for p in programs]
    x, inputs_ok = _exec_schedule(unit, parsed, programs, prefix, True)
    _restore()
    if x.results == refs and inputs_ok and not x.aborted:
        return None
    return {'observed': repr(x.results), 'expected': repr(refs), 'inputs_unmodified': inputs_ok,
            'points': x.n_points, 'aborted': x.aborted}
