"""C01 Binary codecs round-trip every value of every compilable type.

Space: standard program space (L0, L0c, L1, L2, families) x boundary values x
{ber, der, per, uper, oer} x numeric_enums (only for terms with ENUMERATED).
Oracle: (1) a value accepted by the library's checks encodes; (2) decode gives
an abstractly equal value; (3) the decoded value encodes again; (4) canonical
codecs reproduce the bytes.  All calls run under the deterministic step budget.
"""

from .. import impl, space, budget
from ..runner import Result, new_failure
from ..terms import Leaf, has_kind, render_type
from ..values import dom, to_numeric, is_incomplete
from .. import absval
from ..casefmt import vclass, errclass, valrepr, case_fields, rebuild_case, leafkeys, attribute_to_leaf_failures
from .. import shrink as shrinker

ID = 'C01'
LEVEL = 'model_checking'
CODECS = impl.BINARY
CANONICAL = ('der', 'per', 'uper', 'oer')
ASSUMPTIONS = [
    'Inside constructors (L1/L2) members are drawn from the 12-letter reduced alphabet Sigma_r; the full '
    'leaf alphabet is tied to containers by the L0c context layer (every leaf in 13 contexts).',
    'Value domains are boundary sets (DESIGN 1.3), products are deviation-bounded (k<=2) above 48 elements; one long '
    'component (600 / 16384 items; thorough: 511..65536) is tried in every composite; earlier-version values '
    '(mandatory extension additions absent from some addition on) are included: the encoder may refuse them with '
    'EncodeError, if it returns bytes the round trip must hold.',
    '-0.0 and NaN are not in the REAL domain.',
    'Step budget constants: c0=20000, c1=4000 events per encoded byte.',
]

C0, C1 = 20000, 4000


def bounds(tier):
    return {'tier': tier, 'layers': 'L0,L0c,L2,families under EXPLICIT and AUTOMATIC TAGS; L1(W2,K2) under EXPLICIT, L1(W2,K1) under AUTOMATIC' if tier == 'quick'
            else 'L0,L0c,L1(W3,K2),L2,families; 5 environments',
            'value_deviation_k': 2, 'codecs': list(CODECS), 'numeric_enums': [False, True]}


def units(tier):
    return space.standard_units(tier)


def setup(tier):
    from .. import values
    values.set_tier(tier)
    values.enable_incomplete(True)


def has_enum(t, env):
    return has_kind(t, env, lambda s: isinstance(s, Leaf) and s.kind == 'ENUMERATED')


def check_value(spec, codec, name, term, env, v, numeric, res, lab, unit):
    """Run the round-trip oracle on one (type, value, codec). Returns failure or None."""
    ct = spec.types[name]
    pv = to_numeric(term, v, env) if numeric else v
    try:
        ct.check_types(pv)
        ct.check_constraints(pv)
    except (impl.asn1tools.EncodeError, impl.asn1tools.ConstraintsError):
        res.count('values_rejected_by_checks')
        return None
    except Exception as e:
        return ('check-raised-foreign', errclass(e), None)
    res.count('evaluations')
    limit = C0
    try:
        enc, _ = budget.run(C0 + C1 * 64 + 60 * _sizeof(pv), ct.encode, pv)
        enc = bytes(enc)
    except budget.BudgetExceeded:
        return ('budget-steps-encode', 'BudgetExceeded', None)
    except Exception as e:
        if isinstance(e, impl.asn1tools.EncodeError) and is_incomplete(term, v, env):
            # an earlier-version value (mandatory addition absent) may be refused by the encoder
            res.count('incomplete_values_refused_by_encoder')
            return None
        return ('encode-raised', errclass(e), None)
    limit = C0 + C1 * (len(enc) + 1) + 60 * _sizeof(pv)
    try:
        dec, _ = budget.run(limit, ct.decode, enc)
    except budget.BudgetExceeded:
        return ('budget-steps-decode', 'BudgetExceeded', enc)
    except Exception as e:
        return ('decode-raised', errclass(e), enc)
    if not absval.eq(term, pv, dec, env, numeric):
        return ('roundtrip-mismatch', valrepr(dec)[:200], enc)
    try:
        ct.check_types(dec)
        ct.check_constraints(dec)
        enc2 = bytes(ct.encode(dec))
    except Exception as e:
        return ('reencode-raised', errclass(e), enc)
    if codec in CANONICAL and enc2 != enc:
        return ('reencode-mismatch', enc2.hex()[:200], enc)
    res.outcome('ok:' + codec)
    return None


def _sizeof(v):
    if isinstance(v, (bytes, bytearray, str)):
        return len(v)
    if isinstance(v, (list, tuple)):
        return 1 + sum(_sizeof(x) for x in v)
    if isinstance(v, dict):
        return 1 + sum(_sizeof(x) for x in v.values())
    return 1


def work(unit):
    res = Result()
    any_enum = any(has_enum(t, unit.env) for _, t, _ in unit.tops)
    compiled = impl.compile_tops(unit, CODECS, (False, True) if any_enum else (False,))
    for i, (name, term, lab) in enumerate(unit.tops):
        res.count('types')
        res.states.add(hash((unit.tags, unit.ext_implied, term)))
        values = dom(term, unit.env)
        if not values:
            res.count('types_without_values')
            continue
        res.count('values', len(values))
        enum = has_enum(term, unit.env)
        if len(res.samples) < 2:
            res.samples.append({'type': render_type(term, unit.env)[:200], 'env': [unit.tags, unit.ext_implied],
                                'value': valrepr(values[len(values) // 2])[:120], 'codecs': list(CODECS)})
        for numeric in ((False, True) if enum else (False,)):
            for codec in CODECS:
                c = compiled[(numeric, codec)][i]
                if isinstance(c, BaseException):
                    res.count('types_rejected_by_compiler')
                    res.outcome('compile-rejected:%s:%s' % (codec, errclass(c)[:50]))
                    continue
                spec, tname = c
                for v in values:
                    r = check_value(spec, codec, tname, term, unit.env, v, numeric, res, lab, unit)
                    if r is not None:
                        kind, detail, enc = r
                        sig = '|'.join([kind, codec, 'ne' if numeric else '', lab, vclass(v),
                                        detail if kind.endswith('raised') or kind.startswith('budget') else ''])
                        res.outcome(kind + ':' + codec)
                        res.failures.append(new_failure(
                            ID, kind, sig, codec=codec, numeric=numeric, detail=detail,
                            encoded=enc.hex()[:400] if enc is not None else None,
                            size=len(render_type(term, unit.env)) + len(valrepr(v)),
                            layer=lab.split(':')[0],
                            leafkeys=None if lab.startswith('L0:') else leafkeys(term, v, unit.env),
                            **case_fields(unit, name, term, v)))
    return res


def attribute(failures):
    return attribute_to_leaf_failures(failures)


def coverage(stats, tier):
    return {
        'states': stats.get('types', 0) + stats.get('values', 0),
        'transitions': stats.get('evaluations', 0) * 3,
        'traces_validated_against_impl': stats.get('evaluations', 0),
        'evaluations': stats.get('evaluations', 0),
        'distinct_nontrivial': stats.get('evaluations', 0),
        'rule': 'every (environment, type term, boundary value, codec, numeric_enums) tuple is enumerated once '
                '(terms and values are deduplicated before enumeration); a case is non-trivial when the value '
                'passed the library\'s own type and constraint checks and was encoded, decoded and re-encoded; '
                'states = distinct type terms + values enumerated, transitions = encode/decode/re-encode calls',
        'exhaustive': True,
    }


def run_case(failure, unit, name, term, v):
    res = Result()
    try:
        spec = impl.compile_parsed(unit.spec, [failure['codec']], failure['numeric'])[failure['codec']]
    except Exception as e:
        return None
    return check_value(spec, failure['codec'], name, term, unit.env, v, failure['numeric'], res, '', unit)


def shrink(failure):
    if failure['kind'] == 'module-rejected':
        return failure
    return shrinker.shrink_failure(failure, run_case)


def replay(case):
    if case['kind'] == 'module-rejected':
        try:
            impl.compile_parsed(case['spec'], CODECS, False)
            impl.compile_parsed(case['spec'], CODECS, True)
            return None
        except Exception as e:
            return {'kind': 'module-rejected', 'error': errclass(e)}
    unit, name, term, v = rebuild_case(case)
    r = run_case(case, unit, name, term, v)
    if r is None:
        return None
    return {'kind': r[0], 'detail': r[1], 'encoded': r[2].hex() if r[2] is not None else None}
