"""C20 GSER output is well-formed value notation that determines the value.

Space: the standard program space x boundary values x codec gser x indent in
{None, 0, 2, 4} x numeric_enums.  Oracle: an independent RFC 3641 reader
(mc/ref_gser.py), type-directed by the term, parses the whole text to an
abstractly equal value for every indent; within each type two abstractly
different values never produce the same text.
"""

from .. import impl, space, budget, ref_gser
from ..runner import Result, new_failure
from ..terms import Leaf, has_kind, render_type
from ..values import dom, to_numeric
from .. import absval
from ..casefmt import (vclass, errclass, valrepr, case_fields, rebuild_case, leafkeys,
                       attribute_to_leaf_failures)
from .. import shrink as shrinker
from .c02 import SPECIAL_STRINGS

ID = 'C20'
LEVEL = 'model_checking'
INDENTS = (None, 0, 2, 4)
ASSUMPTIONS = [
    'The reader accepts the library\'s `valuename TypeName ::= ` wrapper and then requires RFC 3641 Value syntax; '
    'white space is lenient (any run of blanks/line feeds is sp/msp; sp allowed around ":") - strict RFC 3641 '
    'white space is not asserted.',
    'DATE / TIME-OF-DAY / DATE-TIME are not in RFC 3641; they are read as StringValue holding the ISO 8601 text.',
    'Program/value space as C01; indent variants beyond None are run on the first 6 values of each type.',
]
C0, C1 = 20000, 4000


def bounds(tier):
    return {'tier': tier, 'program_space': 'standard_units(%s) + quote/markup strings' % tier,
            'indents': list(INDENTS), 'numeric_enums': [False, True]}


def setup(tier):
    from .. import values
    values.set_tier(tier)


def units(tier):
    us = space.standard_units(tier)
    tops = [(Leaf(k), 'L0:special:' + k) for k in ('UTF8String', 'IA5String', 'VisibleString', 'PrintableString',
                                                    'GeneralString', 'BMPString', 'UniversalString')]
    su = space.make_unit('special-strings', tops)
    su.extra['values'] = SPECIAL_STRINGS + ['"', '""', 'a""b', '"a"', '', 'x"']
    return [su] + space.special_string_units(SPECIAL_STRINGS + ['"', '""', 'a""b', '"a"', '', 'x"']) + us


def has_enum(t, env):
    return has_kind(t, env, lambda s: isinstance(s, Leaf) and s.kind == 'ENUMERATED')


def _sizeof(v):
    if isinstance(v, (bytes, bytearray, str)):
        return len(v)
    if isinstance(v, (list, tuple)):
        return 1 + sum(_sizeof(x) for x in v)
    if isinstance(v, dict):
        return 1 + sum(_sizeof(x) for x in v.values())
    return 1


def check_value(spec, name, term, env, v, numeric, res, indents, texts=None):
    ct = spec.types[name]
    pv = to_numeric(term, v, env) if numeric else v
    try:
        ct.check_types(pv)
        ct.check_constraints(pv)
    except (impl.asn1tools.EncodeError, impl.asn1tools.ConstraintsError):
        res.count('values_rejected_by_checks')
        return None
    except Exception as e:
        return ('check-raised-foreign', errclass(e), None)
    for indent in indents:
        res.count('evaluations')
        kwargs = {} if indent is None else {'indent': indent}
        try:
            enc, _ = budget.run(C0 + C1 * 64 + 200 * _sizeof(pv), lambda: bytes(ct.encode(pv, **kwargs)))
        except budget.BudgetExceeded:
            return ('budget-steps-encode', 'BudgetExceeded', None)
        except Exception as e:
            return ('encode-raised', errclass(e), None)
        try:
            text = enc.decode('utf-8')
            got = ref_gser.read(text, name, term, env)
        except (ref_gser.GserError, UnicodeDecodeError, ValueError) as e:
            return ('not-well-formed', errclass(e), enc)
        if not absval.eq(term, v, got, env, False):
            return ('reader-value-mismatch', valrepr(got)[:200], enc)
        if texts is not None and indent is None:
            key = absval.norm(term, v, env)
            prev = texts.get(text)
            if prev is not None and prev != key:
                return ('not-injective', text[:100], enc)
            texts[text] = key
    res.outcome('ok')
    return None


def work(unit):
    res = Result()
    any_enum = any(has_enum(t, unit.env) for _, t, _ in unit.tops)
    compiled = impl.compile_tops(unit, ('gser',), (False, True) if any_enum else (False,))
    for i, (name, term, lab) in enumerate(unit.tops):
        res.count('types')
        res.states.add(hash((unit.tags, unit.ext_implied, term)))
        values = space.values_of(unit, term)
        if not values:
            continue
        res.count('values', len(values))
        if len(res.samples) < 2:
            res.samples.append({'type': render_type(term, unit.env)[:200],
                                'value': valrepr(values[len(values) // 2])[:120], 'indents': list(INDENTS)})
        for numeric in ((False, True) if has_enum(term, unit.env) else (False,)):
            c = compiled[(numeric, 'gser')][i]
            if isinstance(c, BaseException):
                res.count('types_rejected_by_compiler')
                res.outcome('compile-rejected:%s' % errclass(c)[:50])
                continue
            spec, tname = c
            texts = {}
            for vi, v in enumerate(values):
                indents = INDENTS if vi < 6 or unit.extra.get('all_indents') else (None,)
                r = check_value(spec, tname, term, unit.env, v, numeric, res, indents, texts)
                if r is not None:
                    kind, detail, enc = r
                    sig = '|'.join([kind, 'ne' if numeric else '', lab, vclass(v),
                                    detail if kind in ('encode-raised', 'not-well-formed') else ''])
                    res.outcome(kind)
                    res.failures.append(new_failure(
                        ID, kind, sig, codec='gser', numeric=numeric, detail=detail,
                        encoded=enc.decode('utf-8', 'replace')[:400] if enc is not None else None,
                        size=len(render_type(term, unit.env)) + len(valrepr(v)),
                        layer=lab.split(':')[0],
                        leafkeys=None if lab.startswith('L0:') else leafkeys(term, v, unit.env),
                        **case_fields(unit, name, term, v)))
    return res


def attribute(failures):
    return attribute_to_leaf_failures(failures)


def coverage(stats, tier):
    return {
        'states': stats.get('types', 0) + stats.get('values', 0),
        'transitions': stats.get('evaluations', 0) * 2,
        'traces_validated_against_impl': stats.get('evaluations', 0),
        'evaluations': stats.get('evaluations', 0),
        'distinct_nontrivial': stats.get('evaluations', 0),
        'rule': 'every (environment, type term, boundary value, indent, numeric_enums) tuple is enumerated once; '
                'non-trivial = the value passed the library\'s checks, was encoded and the text was parsed by the '
                'independent RFC 3641 reader; states = terms + values, transitions = encode + read',
        'exhaustive': True,
    }


def run_case(failure, unit, name, term, v):
    res = Result()
    try:
        spec = impl.compile_parsed(unit.spec, ['gser'], failure['numeric'])['gser']
    except Exception:
        return None
    if failure['kind'] == 'not-injective':
        return ('not-injective', failure['detail'], None)
    return check_value(spec, name, term, unit.env, v, failure['numeric'], res, INDENTS)


def shrink(failure):
    if failure['kind'] == 'not-injective':
        return failure
    return shrinker.shrink_failure(failure, run_case)


def replay(case):
    unit, name, term, v = rebuild_case(case)
    r = run_case(case, unit, name, term, v)
    if r is None:
        return None
    return {'kind': r[0], 'detail': r[1]}
