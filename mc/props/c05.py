"""C05 PER and UPER encodings are bit-exact X.691.

Space: the standard program space (L0, L0c, L1, L2, families) restricted to the
property's type list, plus terms the standard space lacks (additions whose
open-type encoding is empty / 1 bit / 8 bits / > 127 octets / > 16K octets,
SEQUENCEs and CHOICEs with 63 / 64 / 65 additions, CHOICE and SET with tags out of
textual order, permitted alphabets on both sides of the re-indexing rule) x
boundary values x {per, uper} (x numeric_enums for L0 / L0c / extra terms with
ENUMERATED).

Oracle, for every value accepted by the library's own checks:
  (1) impl.encode(v) is one of ref_per.encodings(v)      (bit-exact X.691)
  (2) impl.decode(e) == v for the model's encoding(s) e   (decoder accepts the prescribed bits)
  (3) ref_per.decode(impl.encode(v)) == v                 (localises the deviating side)
and ref_per.decode(ref_per.encode(v)) == v on every case (model self-consistency; a
failure of that is a machinery error, exit 2, never a verdict).
"""

import os

from .. import impl, space, budget, ref_per, kp_c05
from ..runner import Result, new_failure
from ..terms import (Leaf, Seq, Cho, Of, Ref, Tag, M, Grp, Rng, MAX, has_kind, render_type, TIME_KINDS,
                     resolve, all_members)
from ..values import dom, to_numeric
from .. import absval
from ..casefmt import vclass, errclass, valrepr, case_fields, rebuild_case, leafkeys, attribute_to_leaf_failures
from .. import shrink as shrinker

ID = 'C05'
LEVEL = 'model_checking'
CODECS = ('per', 'uper')
C0, C1 = 20000, 4000
KEEP = 3

ASSUMPTIONS = [
    'Reference model mc/ref_per.py (X.691 clauses 10-30, own code, no asn1tools import) validated by '
    'ref_per.selftest(): the Annex A.1-A.4 worked examples in both variants plus 531 vectors asserted by '
    '/repo/tests/test_per.py and test_uper.py (incl. RRC 8.6.0, LPP, ETSI CAM, OMA ULP messages); 13 asserted '
    'repository vectors pin deviations and are excluded with the deciding clause (mc/vectors/per_harvested.py).',
    'Unasserted rules (the model yields every admissible encoding and the check accepts any of them): '
    + '; '.join(sorted(k for k, v in ref_per.LEDGER.items() if v.startswith('unasserted'))),
    'UTCTime, GeneralizedTime, DATE, TIME-OF-DAY, DATE-TIME are left out of the asserted alphabet (not in the '
    'property\'s type list; the X.691 rules for the time types were not reconstructed).',
    'GeneralString / GraphicString / TeletexString / ObjectDescriptor are asserted for ASCII values only.',
    'A type the codec refuses to compile with one of the library\'s own error classes is recorded as an outcome, '
    'not as a violation; a foreign exception (TypeError, ...) while compiling is reported.',
    'Inside constructors (L1/L2) members are drawn from the 12-letter reduced alphabet Sigma_r; the full leaf '
    'alphabet is tied to containers by the L0c context layer.',
    'Value domains are boundary sets (DESIGN 1.3), products are deviation-bounded (k<=2). -0.0 and NaN are not in the REAL domain.',
    'numeric_enums=True is explored for L0, L0c and the extra terms that contain ENUMERATED (the flag is read only by the '
    'Enumerated codec object).',
    'Decoder obligation: for switches that are an encoder\'s option (default-structured) the decoder must accept '
    'every admissible encoding; for unasserted rules it must accept the encodings of at least one reading.',
]

OPTION_SWITCHES = ('default-structured',)


def bounds(tier):
    return {'tier': tier,
            'layers': ('L0,L0c,L2,families under EXPLICIT and AUTOMATIC; L1(W2,K2) EXPLICIT, L1(W2,K1) AUTOMATIC' if tier == 'quick'
                       else 'L0,L0c,L1(W3,K2),L2,families; 5 environments') + '; extra C05 terms in '
                      + ('EXPLICIT, AUTOMATIC' if tier == 'quick' else 'EXPLICIT, IMPLICIT, AUTOMATIC, EXPLICIT+EI, AUTOMATIC+EI'),
            'value_deviation_k': 2, 'codecs': list(CODECS),
            'lengths': 'every X.691 threshold up to ' + ('65536' if tier == 'quick' else '70000'),
            'additions': [63, 64, 65]}


def setup(tier):
    from .. import values
    values.set_tier(tier)


# ---------------------------------------------------------------------------
# extra terms

B = Leaf('BOOLEAN')
NUL = Leaf('NULL')
U3 = Leaf('INTEGER', rng=Rng(0, 7))
U8 = Leaf('INTEGER', rng=Rng(0, 255))


def extra_terms(thorough):
    out = []

    def add(lab, t):
        out.append((t, 'X:' + lab))

    # (a) open-type sizes
    payloads = [('empty-null', NUL), ('empty-int1', Leaf('INTEGER', rng=Rng(5, 5, single=True))),
                ('empty-str0', Leaf('IA5String', size=Rng(0, 0, single=True))),
                ('empty-seqof0', Of(B, size=Rng(0, 0, single=True))),
                ('empty-enum1', Leaf('ENUMERATED', enum=(('only', None),))),
                ('empty-cho-null', Cho((M('n', NUL),))),
                ('bit1', B), ('bits3', U3), ('bits8', U8), ('bits9', Seq((M('i', U8), M('b', B)))),
                ('oct127', Leaf('OCTETSTRING', size=Rng(127, 127, single=True))),
                ('oct128', Leaf('OCTETSTRING', size=Rng(128, 128, single=True))),
                ('oct130v', Leaf('OCTETSTRING', size=Rng(0, 130))),
                ('oct-any', Leaf('OCTETSTRING')),
                ('int-any', Leaf('INTEGER'))]
    if thorough:
        payloads += [('oct16383', Leaf('OCTETSTRING', size=Rng(16383, 16383, single=True))),
                     ('oct16384', Leaf('OCTETSTRING', size=Rng(16384, 16384, single=True)))]
    else:
        payloads += [('oct16384', Leaf('OCTETSTRING', size=Rng(16384, 16384, single=True)))]
    for lab, p in payloads:
        add('add:' + lab, Seq((M('pad', B),), ext=True, adds=(M('x', p), M('y', U8, 'O'))))
        add('add2:' + lab, Seq((M('pad', B),), ext=True, adds=(M('w', B, 'O'), M('x', p, 'O'), M('y', p, 'O'))))
        add('grp:' + lab, Seq((M('pad', B),), ext=True, adds=(Grp((M('x', p), M('y', B, 'O'))), M('z', p, 'O'))))
        add('grp1:' + lab, Seq((M('pad', U3),), ext=True, adds=(Grp((M('x', p),)),)))
        add('choadd:' + lab, Cho((M('p', B),), ext=True, adds=(M('x', p), M('y', U8))))
        add('choadd2:' + lab, Cho((M('p', B), M('q', U3)), ext=True, adds=(M('w', B), M('x', p))))
        add('setadd:' + lab, Seq((M('pad', B), M('q', U3)), ext=True, adds=(M('x', p),), is_set=True))
        add('top:' + lab, p)
    # (b) 63 / 64 / 65 additions
    for n in (1, 2, 63, 64, 65) + ((127, 128, 129) if thorough else ()):
        for lab, p in (('bool', B), ('null', NUL), ('u8', U8)):
            add('seq%d:%s' % (n, lab), Seq((M('a', B),), ext=True,
                                           adds=tuple(M('x%d' % i, p, 'O') for i in range(n))))
        add('seq%d:grp' % n, Seq((M('a', B, 'O'),), ext=True,
                                 adds=tuple(Grp((M('x%d' % i, U3, 'O'), M('y%d' % i, B, 'O'))) for i in range(n))))
        add('cho%d' % n, Cho((M('a', B),), ext=True, adds=tuple(M('x%d' % i, U3) for i in range(n))))
        add('choroot%d' % n, Cho(tuple(M('r%d' % i, U3) for i in range(n))))
    # (c) tags out of textual order
    i5 = Leaf('IA5String', size=Rng(1, 1, single=True))
    shuffles = [
        ('ctx', (M('a', Tag(2, B)), M('b', Tag(0, U3)), M('c', Tag(1, NUL)))),
        ('ctx-big', (M('a', Tag(16384, B)), M('b', Tag(31, U3)), M('c', Tag(127, NUL)), M('d', Tag(128, U8)))),
        ('classes', (M('a', Tag(1, B, cls='PRIVATE')), M('b', Tag(5, U3)), M('c', Tag(9, NUL, cls='APPLICATION')),
                     M('d', U8))),
        ('universal', (M('a', i5), M('b', U3), M('c', B), M('d', NUL))),
        ('universal2', (M('a', Leaf('OCTETSTRING', size=Rng(1, 1, single=True))), M('b', Leaf('BITSTRING', size=Rng(2, 2, single=True))),
                        M('c', Leaf('ENUMERATED', enum=(('p', None), ('q', None)))), M('d', Leaf('REAL')))),
        ('mixed', (M('a', U3), M('b', Tag(0, B)), M('c', B))),
        ('nested-cho', (M('a', Cho((M('x', U3), M('y', NUL)))), M('b', B))),
        ('ref', (M('a', Ref('RefT')), M('b', Tag(3, Ref('RefT'))), M('c', B))),
        ('impl-expl', (M('a', Tag(7, U3, mode='EXPLICIT')), M('b', Tag(3, B, mode='IMPLICIT')))),
    ]
    for lab, ms in shuffles:
        add('cho-order:' + lab, Cho(ms))
        add('cho-order-ext:' + lab, Cho(ms, ext=True, adds=(M('z', Tag(40, B)),)))
        add('set-order:' + lab, Seq(ms, is_set=True))
        add('set-order-opt:' + lab, Seq(tuple(M(m.name, m.t, 'O') for m in ms), is_set=True))
        add('set-order-ext:' + lab, Seq(ms, ext=True, adds=(M('z', Tag(40, B), 'O'),), root2=(M('r2', Tag(41, U3)),),
                                        is_set=True))
        add('seq-of-cho:' + lab, Of(Cho(ms), size=Rng(0, 2)))
    # (d) permitted alphabets around the re-indexing rule and bits-per-character boundaries
    vis91 = ''.join(chr(c) for c in range(32, 123))
    az = 'abcdefghijklmnopqrstuvwxyz'
    for lab, l in [
            ('vis91', Leaf('VisibleString', alpha=vis91, alpha_ranges=((' ', 'z'),))),
            ('vis91-sz', Leaf('VisibleString', alpha=vis91, alpha_ranges=((' ', 'z'),), size=Rng(0, 3))),
            ('ia5-65', Leaf('IA5String', alpha=vis91[:65], alpha_ranges=((' ', '`'),), size=Rng(1, 2))),
            ('ia5-64', Leaf('IA5String', alpha=vis91[:64], alpha_ranges=((' ', '_'),), size=Rng(1, 2))),
            ('print-az', Leaf('PrintableString', alpha=az, alpha_ranges=(('a', 'z'),), size=Rng(0, 4))),
            ('bmp-az', Leaf('BMPString', alpha=az, alpha_ranges=(('a', 'z'),))),
            ('bmp-az-sz', Leaf('BMPString', alpha=az, alpha_ranges=(('a', 'z'),), size=Rng(2, 2, single=True))),
            ('bmp-01', Leaf('BMPString', size=Rng(0, 1))),
            ('bmp-1', Leaf('BMPString', size=Rng(1, 1, single=True))),
            ('bmp-2', Leaf('BMPString', size=Rng(2, 2, single=True))),
            ('uni-az', Leaf('UniversalString', alpha=az, alpha_ranges=(('a', 'z'),), size=Rng(1, 3))),
            ('num-03', Leaf('NumericString', size=Rng(0, 3))),
            ('num-04', Leaf('NumericString', size=Rng(0, 4))),
            ('num-05', Leaf('NumericString', size=Rng(0, 5))),
            ('num-4', Leaf('NumericString', size=Rng(4, 4, single=True))),
            ('num-5', Leaf('NumericString', size=Rng(5, 5, single=True))),
            ('num-012', Leaf('NumericString', alpha='012', size=Rng(0, 7))),
            ('num-sp012', Leaf('NumericString', alpha=' 012', size=Rng(0, 8)))]:
        add('alpha:' + lab, l)
        add('alpha-seq:' + lab, Seq((M('pad', B), M('x', l), M('tail', B))))
    return out


def extra_units(tier):
    thorough = tier == 'thorough'
    envs = space.ENVS_ALL if thorough else space.ENVS_QUICK
    terms = extra_terms(thorough)
    from ..alphabet import REF_ENV
    for tags, ei in envs:
        for bi, chunk in enumerate(space.batches(terms, 40)):
            yield space.make_unit('X/%s%s/%d' % (tags, '+EI' if ei else '', bi), chunk, helpers=REF_ENV,
                                  tags=tags, ext_implied=ei)


def units(tier):
    out = list(space.standard_units(tier)) + list(extra_units(tier))
    only = os.environ.get('VERIF_C05_ONLY')          # development aid: comma-separated unit label prefixes
    if only:
        out = [u for u in out if u.label.startswith(tuple(only.split(',')))]
    return out


# ---------------------------------------------------------------------------

def has_enum(t, env):
    return has_kind(t, env, lambda s: isinstance(s, Leaf) and s.kind == 'ENUMERATED')


def _sizeof(v):
    if isinstance(v, (bytes, bytearray, str)):
        return len(v)
    if isinstance(v, (list, tuple)):
        return 1 + sum(_sizeof(x) for x in v)
    if isinstance(v, dict):
        return 1 + sum(_sizeof(x) for x in v.values())
    return 1


def rule_part(policy):
    return tuple(sorted((k, v) for k, v in policy.items() if k not in OPTION_SWITCHES))


def check_value(spec, codec, name, term, unit, v, numeric, res):
    """The C05 oracle on one (type, value, codec). Returns None or (kind, detail, impl bytes | None)."""
    env = unit.env
    ct = spec.types[name]
    pv = to_numeric(term, v, env) if numeric else v
    try:
        ct.check_types(pv)
        ct.check_constraints(pv)
    except (impl.asn1tools.EncodeError, impl.asn1tools.ConstraintsError):
        res.count('values_rejected_by_checks')
        return None
    except Exception as e:
        res.count('values_check_raised_foreign')
        res.outcome('check-raised-foreign:' + errclass(e)[:40])
        return None                    # C11/C12 territory
    aligned = codec == 'per'
    try:
        encs = ref_per.encodings(term, pv, env, unit.tags, unit.ext_implied, aligned, numeric)
    except ref_per.NotInType as e:
        res.count('values_not_in_type_per_model')
        res.outcome('model-not-in-type')
        return None                    # the library's checks accepted a value outside the type: C11
    except ref_per.Unsupported as e:
        res.count('values_outside_model')
        res.outcome('model-unsupported:' + str(e)[:30])
        return None
    res.count('evaluations')
    if len(encs) > 1:
        res.count('evaluations_with_several_admissible_encodings')
    # model self-consistency (machinery, not verdict)
    for data, pol in encs:
        back = ref_per.decode(term, data, env, unit.tags, unit.ext_implied, aligned, numeric, policy=pol)
        if not absval.eq(term, back, pv, env, numeric):
            raise RuntimeError('ref_per is not self-consistent on %s value %s (%s): decoded %r'
                               % (render_type(term, env)[:200], valrepr(pv)[:200], codec, back))
    res.count('transitions', 2 * len(encs))
    # (1) the implementation's encoding
    sz = _sizeof(pv)
    try:
        ienc, _ = budget.run(C0 + C1 * 64 + 60 * sz, ct.encode, pv)
        ienc = bytes(ienc)
    except budget.BudgetExceeded:
        return ('budget-steps-encode', 'BudgetExceeded', None)
    except Exception as e:
        return ('encode-raised', errclass(e), None)
    res.count('transitions')
    admissible = [d for d, _ in encs]
    if ienc not in admissible:
        # (3) does the model at least read the implementation's bits back?
        reads = False
        try:
            for back, pol in ref_per.decodings(term, ienc, env, unit.tags, unit.ext_implied, aligned, numeric):
                if absval.eq(term, back, pv, env, numeric):
                    reads = True
        except Exception:
            reads = False
        return ('encoding-differs', 'impl=%s model=%s%s' % (ienc.hex()[:80], admissible[0].hex()[:80],
                                                           ' (model decoder reads impl bits as v)' if reads else ''), ienc)
    # (3) on an admissible encoding: the model decodes it under the matching policy (checked above)
    # (2) the implementation's decoder on the model's encodings
    ok = {}
    first_err = None
    for data, pol in encs:
        if data in ok:
            continue
        try:
            dec, _ = budget.run(C0 + C1 * (len(data) + 1) + 60 * sz, ct.decode, data)
            good = absval.eq(term, dec, pv, env, numeric)
            if not good and first_err is None:
                first_err = ('decode-of-model-encoding-differs', 'decoded %s from %s' % (valrepr(dec)[:80], data.hex()[:80]))
        except budget.BudgetExceeded:
            good = False
            first_err = first_err or ('budget-steps-decode', 'BudgetExceeded')
        except Exception as e:
            good = False
            first_err = first_err or ('decode-of-model-encoding-raised', errclass(e))
        ok[data] = good
        res.count('transitions')
    by_rules = {}
    for data, pol in encs:
        by_rules.setdefault(rule_part(pol), []).append(ok[data])
    if not any(all(flags) for flags in by_rules.values()):
        return (first_err[0], first_err[1], ienc)
    res.outcome('ok:' + codec)
    return None


def value_list(term, unit, lab):
    t = resolve(term, unit.env)
    if isinstance(t, Seq) and len(all_members(t)) > 12:
        return wide_dom(t, unit.env)
    return dom(term, unit.env)


def wide_dom(t, env):
    """Values of a SEQUENCE with many (optional) components: nothing optional present; every single
    optional component present (full member domain at the first / last position and around the 63/64/65
    boundary, the base value elsewhere); the first and last together; the last two; everything."""
    from ..values import _dedupe
    mems = all_members(t)
    doms = [dom(m.t, env, False) or [] for m in mems]
    base = {m.name: d[0] for m, d in zip(mems, doms) if m.q == 'M'}
    opt = [i for i, m in enumerate(mems) if m.q != 'M' and doms[i]]
    out = [dict(base)]
    hot = set(opt[:1] + opt[-1:] + [i for i in opt if len(opt) > 60 and opt.index(i) in (62, 63, 64, 126, 127, 128)])
    for i in opt:
        for x in (doms[i] if i in hot else doms[i][:1]):
            out.append(dict(base, **{mems[i].name: x}))
    if len(opt) >= 2:
        out.append(dict(base, **{mems[opt[0]].name: doms[opt[0]][0], mems[opt[-1]].name: doms[opt[-1]][-1]}))
        out.append(dict(base, **{mems[opt[-2]].name: doms[opt[-2]][-1], mems[opt[-1]].name: doms[opt[-1]][0]}))
    out.append(dict(base, **{mems[i].name: doms[i][(i % len(doms[i]))] for i in opt}))
    order = {m.name: i for i, m in enumerate(mems)}
    out = [{k: v[k] for k in sorted(v, key=lambda k: order[k])} for v in out]
    return _dedupe(out)


def work(unit):
    res = Result()
    tops = [(i, n, t, lab) for i, (n, t, lab) in enumerate(unit.tops) if ref_per.modelled(t, unit.env)]
    res.count('types_outside_asserted_alphabet', len(unit.tops) - len(tops))
    numerics_wanted = any(has_enum(t, unit.env) and _numeric_layer(lab) for _, _, t, lab in tops)
    compiled = impl.compile_tops(unit, CODECS, (False, True) if numerics_wanted else (False,))
    for i, name, term, lab in tops:
        res.count('types')
        res.states.add(hash((unit.tags, unit.ext_implied, term)))
        values = value_list(term, unit, lab)
        if not values:
            res.count('types_without_values')
            continue
        res.count('values', len(values))
        if len(res.samples) < 2:
            res.samples.append({'type': render_type(term, unit.env)[:200], 'env': [unit.tags, unit.ext_implied],
                                'value': valrepr(values[len(values) // 2])[:120], 'codecs': list(CODECS)})
        numerics = (False, True) if (has_enum(term, unit.env) and _numeric_layer(lab)) else (False,)
        for numeric in numerics:
            for codec in CODECS:
                c = compiled[(numeric, codec)][i]
                if isinstance(c, BaseException):
                    res.count('types_rejected_by_compiler')
                    cls = errclass(c)
                    res.outcome('compile-rejected:%s:%s' % (codec, cls[:50]))
                    if not isinstance(c, (impl.asn1tools.CompileError, impl.asn1tools.ParseError)):
                        feats = sorted(kp_c05.type_features(term, unit.env, unit.tags, unit.ext_implied, numeric))
                        sig = '|'.join(['compile-raised-foreign', codec, cls, '+'.join(feats)])
                        res.failures.append(new_failure(
                            ID, 'compile-raised-foreign', sig, codec=codec, numeric=numeric, detail=cls, encoded=None,
                            features=feats, size=len(render_type(term, unit.env)), layer=lab.split(':')[0], leafkeys=None,
                            **case_fields(unit, name, term, values[0])))
                    continue
                spec, tname = c
                for v in values:
                    r = check_value(spec, codec, tname, term, unit, v, numeric, res)
                    if r is not None:
                        kind, detail, enc = r
                        res.outcome(kind + ':' + codec)
                        res.count('failing_cases')
                        res.failures.append(make_failure(unit, name, term, v, lab, codec, numeric, kind, detail, enc))
    # a root cause that shows on thousands of cases: keep the KEEP smallest cases of every group of this
    # unit (all cases are counted in stats['failing_cases'] and in the outcome classes)
    by_sig = {}
    for f in res.failures:
        by_sig.setdefault(f['sig'], []).append(f)
    kept = []
    for sig in sorted(by_sig):
        g = sorted(by_sig[sig], key=lambda f: (f.get('size', 0), f.get('term') or '', f.get('value') or ''))
        res.count('failures_not_kept', max(0, len(g) - KEEP))
        kept.extend(g[:KEEP])
    res.failures = kept
    return res


def _numeric_layer(lab):
    return lab.startswith(('L0:', 'L0c:', 'X:'))


def make_failure(unit, name, term, v, lab, codec, numeric, kind, detail, enc):
    """Raw failures are grouped by root cause: the set of known deviation-triggering input shapes the
    case shows (mc/kp_c05.features); a case that shows none is grouped by layer label and value class."""
    pv = to_numeric(term, v, unit.env) if numeric else v
    feats = sorted(kp_c05.features(term, pv, unit.env, unit.tags, unit.ext_implied, codec, numeric))
    dclass = detail if kind.endswith('raised') or kind.startswith('budget') else ''
    if feats:
        sig = '|'.join([kind, codec, '+'.join(feats)])
    else:
        sig = '|'.join([kind, codec, 'ne' if numeric else '', coarse_label(lab), vclass(v)[:40], dclass])
    return new_failure(
        ID, kind, sig, codec=codec, numeric=numeric, detail=detail, features=feats,
        encoded=enc.hex()[:400] if enc is not None else None,
        size=len(render_type(term, unit.env)) + len(valrepr(v)),
        layer=lab.split(':')[0],
        leafkeys=None if (lab.startswith('L0:') or feats) else leafkeys(term, v, unit.env),
        **case_fields(unit, name, term, v))


def coarse_label(lab):
    """'L0c:seq-grp:INTEGER (0..7)' -> 'L0c:seq-grp:INTEGER' (unexplained failures are grouped per layer,
    context and leaf kind, not per constraint)."""
    parts = lab.split(':', 2)
    if len(parts) == 3 and parts[0] in ('L0c',):
        return parts[0] + ':' + parts[1] + ':' + parts[2].split(' (')[0].split(' {')[0]
    if len(parts) >= 2 and parts[0] == 'L0':
        return 'L0:' + lab[3:].split(' (')[0].split(' {')[0]
    return lab


def attribute(failures):
    return attribute_to_leaf_failures(failures)


def coverage(stats, tier):
    ev = stats.get('evaluations', 0)
    return {
        'states': stats.get('types', 0) + stats.get('values', 0),
        'transitions': stats.get('transitions', 0),
        'traces_validated_against_impl': ev,
        'evaluations': ev,
        'distinct_nontrivial': ev,
        'rule': 'every (environment, type term, boundary value, codec, numeric_enums) tuple is enumerated once; a case is '
                'non-trivial when the value passed the library\'s own checks and the model produced its encoding(s), '
                'which were then compared bit for bit with the implementation\'s and decoded by both sides; states = '
                'distinct type terms + values enumerated, transitions = encode / decode executions on either side',
        'exhaustive': True,
        'ledger': dict(sorted(ref_per.LEDGER.items())),
        'model_vectors': 'ref_per.selftest(): 8 Annex A + 531 repository vectors (run by ./check --selftest)',
    }


def run_case(failure, unit, name, term, v):
    """Re-run one case; returns None or (kind, detail, impl bytes, features of the case)."""
    res = Result()
    codec = failure['codec']
    numeric = failure['numeric']
    if not ref_per.modelled(term, unit.env):
        return None
    try:
        spec = impl.compile_parsed(unit.spec, [codec], numeric)[codec]
    except (impl.asn1tools.CompileError, impl.asn1tools.ParseError):
        return None
    except Exception as e:
        return ('compile-raised-foreign', errclass(e), None,
                sorted(kp_c05.type_features(term, unit.env, unit.tags, unit.ext_implied, numeric)))
    if failure['kind'] == 'compile-raised-foreign':
        return None
    r = check_value(spec, codec, name, term, unit, v, numeric, res)
    if r is None:
        return None
    pv = to_numeric(term, v, unit.env) if numeric else v
    return r + (sorted(kp_c05.features(term, pv, unit.env, unit.tags, unit.ext_implied, codec, numeric)),)


def same_root_cause(failure, r):
    """A shrink step must not introduce a known deviation-triggering shape the original case did not
    show (otherwise an unexplained failure could be 'explained' by shrinking it into a known one, and a
    case showing shape A could drift to shape B)."""
    return set(r[3]) <= set(failure.get('features') or ())


def shrink(failure):
    # a case that needs 64+ components cannot get small; every test compiles the whole type again
    wide = len(failure.get('term') or '') > 1500
    keep = shrinker.MAX_TESTS
    if wide:
        shrinker.MAX_TESTS = 40
    try:
        out = shrinker.shrink_failure(failure, run_case, same=same_root_cause)
    finally:
        shrinker.MAX_TESTS = keep
    if '_term' in out:
        pv = to_numeric(out['_term'], out['_value'], out['_env']) if out.get('numeric') else out['_value']
        if out['kind'] == 'compile-raised-foreign':
            out['features'] = sorted(kp_c05.type_features(out['_term'], out['_env'], out.get('tags'), out.get('ext_implied'),
                                                          out.get('numeric', False)))
        else:
            out['features'] = sorted(kp_c05.features(out['_term'], pv, out['_env'], out.get('tags'), out.get('ext_implied'),
                                                     out['codec'], out.get('numeric', False)))
    return out


def replay(case):
    unit, name, term, v = rebuild_case(case)
    r = run_case(case, unit, name, term, v)
    if r is None:
        return None
    return {'kind': r[0], 'detail': r[1], 'encoded': r[2].hex() if r[2] is not None else None, 'features': r[3]}
