"""ref_oer -- an independent executable model of Basic OER (Rec. ITU-T X.696 |
ISO/IEC 8825-7, clauses 8-29), driven only by the framework's own type terms
(mc/terms.py) and python values.  Nothing here imports asn1tools.

    encode(term, value, env, tags, ext_implied, numeric=False, omit_defaults=True) -> bytes
    decode(term, data,  env, tags, ext_implied, numeric=False)                      -> value
    encode_traced(...) -> (bytes, [(rule, bytes)], Info)   # which rule emitted which octets
    decode_checked(...) -> (value, Info)                   # Info.notes: encoder options seen
    divergence(chunks, other) -> (offset, rule)            # first octet where `other` departs
    selftest() -> number of vectors replayed

`encode` emits the canonical choice wherever Basic OER leaves the encoder an
option (shortest length determinant, minimal variable-size integers, 0xFF for
TRUE, DER contents for REAL, DEFAULT-valued components omitted unless
omit_defaults=False).  `decode` is the acceptance side: it accepts every form
Basic OER allows an encoder to emit (and records in Info.notes which options it
saw) and raises RefError for octets that no conforming encoder can produce.

Every rule carries a status in LEDGER:
  certain    - unambiguous clause of X.696 recalled with confidence and
               cross-checked against at least one frozen vector or a second
               implementation's known behaviour;
  vector     - pinned by a worked example / checked repository vector;
  unasserted - the model does not know; it accepts the admissible variants
               and the check never reports a deviation there.
"""

import struct
import datetime
from fractions import Fraction

from .terms import (Leaf, Seq, Cho, Of, Ref, Tag, M, Grp, Rng, all_members,
                    enum_numbers, KNOWN_MULT, STRING_KINDS, TIME_KINDS)
from .tagging import UNIVERSAL, CLASS_ORDER, auto_tagged
from . import absval
from .values import to_numeric


class RefError(Exception):
    """The model cannot encode this value / these octets are not a Basic OER
    encoding of a value of the type."""


# ---------------------------------------------------------------------------
# rule ledger

LEDGER = {
    'length-short': ('certain', 'X.696 8.6: length determinant 0..127 in one octet'),
    'length-long': ('certain', 'X.696 8.6: 0x80+n followed by n octets, big-endian; the encoder emits the fewest '
                               'octets, Basic OER lets an encoder use more (accepted from the implementation)'),
    'boolean': ('certain', 'X.696 9: FALSE = 00, TRUE = FF (any non-zero octet is accepted from an encoder)'),
    'int-fixed-unsigned': ('certain', 'X.696 10: lb >= 0 and ub <= 2^8-1 / 2^16-1 / 2^32-1 / 2^64-1 -> 1/2/4/8 '
                                      'octets unsigned, no length'),
    'int-fixed-signed': ('certain', 'X.696 10: lb < 0, lb >= -2^(8n-1) and ub <= 2^(8n-1)-1 for n = 1/2/4/8 -> n '
                                    'octets two\'s complement, no length'),
    'int-var-unsigned': ('certain', 'X.696 10: lb >= 0 and (no ub or ub > 2^64-1) -> length + unsigned octets'),
    'int-var-signed': ('certain', 'X.696 10: no lb, or lb < 0 outside the 64-bit signed range / no ub, or no '
                                  'OER-visible constraint -> length + two\'s complement octets'),
    'int-ext-not-visible': ('certain', 'X.696 8.2: a constraint with an extension marker is not OER-visible, so an '
                                       'extensible INTEGER constraint yields length + two\'s complement octets'),
    'enum-short': ('certain', 'X.696 11: enumeration value 0..127 in one octet (bit 8 = 0)'),
    'enum-long': ('certain', 'X.696 11: otherwise 0x80+n followed by n octets two\'s complement'),
    'real-binary32': ('certain', 'X.696 12: base 2, mantissa within +-(2^24-1), exponent -149..104 -> IEEE 754 '
                                 'binary32, 4 octets big-endian'),
    'real-binary64': ('certain', 'X.696 12: base 2, mantissa within +-(2^53-1), exponent -1074..971 -> IEEE 754 '
                                 'binary64, 8 octets big-endian'),
    'real-contents': ('certain', 'X.696 12: otherwise length + X.690 REAL contents octets; the model emits the DER '
                                 'form (X.690 11.3), which every decoder must accept'),
    'real-der-form': ('unasserted', 'whether Basic OER obliges an ENCODER to use the DER restrictions (minimal '
                                    'mantissa/exponent octets, base 2, odd mantissa) for REAL contents: any X.690 8.5 '
                                    'form with the same value is accepted from the implementation'),
    'null': ('certain', 'X.696 15: NULL is empty'),
    'bits-fixed': ('certain', 'X.696 13: fixed non-extensible SIZE(n) -> ceil(n/8) octets, unused bits zero, no length'),
    'bits-var': ('certain', 'X.696 13: otherwise length, one octet with the number of unused bits (0..7), octets'),
    'bits-named-trim': ('unasserted', 'removal/addition of trailing zero bits for BIT STRING with named bits: the '
                                      'value is encoded with the bit count it was given'),
    'octets-fixed': ('certain', 'X.696 14: fixed non-extensible SIZE(n) -> n octets, no length'),
    'octets-var': ('certain', 'X.696 14: otherwise length + octets'),
    'oid': ('certain', 'X.696 22: length + X.690 8.19 contents (first subidentifier 40*X+Y, base-128 groups)'),
    'str-km-fixed': ('certain', 'X.696 27: known-multiplier string (IA5/Visible/Numeric/Printable 1 octet, BMP 2, '
                                'Universal 4 per character) with fixed non-extensible SIZE -> octets, no length'),
    'str-length': ('certain', 'X.696 27: every other restricted string -> length in octets + octets'),
    'str-size-not-visible': ('certain', 'X.696 8.2/27: SIZE on UTF8String and the other non-known-multiplier strings, '
                                        'extensible SIZE and FROM are not OER-visible -> length + octets'),
    'time-visible': ('certain', 'X.696 28/29 + X.680: UTCTime / GeneralizedTime are VisibleString encodings -> '
                                'length + characters'),
    'time-char-form': ('unasserted', 'which of the X.680 character forms (seconds present, fraction digits, Z) a '
                                     'Basic OER encoder must choose: any form denoting the same time is accepted'),
    'time-date': ('vector', 'X.696 29 (recalled): DATE as SEQUENCE { year INTEGER, month INTEGER (1..12), day '
                            'INTEGER (1..31) }; TIME-OF-DAY as { hours (0..24), minutes (0..59), seconds (0..60) }; '
                            'DATE-TIME as both in sequence'),
    'seq-preamble': ('vector', 'X.696 16.2: extension bit (if extensible) then one bit per OPTIONAL/DEFAULT root '
                               'component in encoding order, zero-padded to octets; absent when there are no bits'),
    'seq-ext-bitmap': ('certain', 'X.696 16.4: when any addition is present: extension bit 1, then the presence '
                                  'bitmap as length + unused-bits octet (0..7) + one bit per extension addition '
                                  '(type or group), zero-padded'),
    'seq-ext-open': ('certain', 'X.696 16.5: each present addition as length + encoding (open type)'),
    'seq-ext-group': ('certain', 'X.696 16.3: an extension addition group [[ ]] is ONE addition, encoded as a '
                                 'SEQUENCE of its components (own presence preamble, no extension bit); absent when '
                                 'none of its components is present'),
    'default-option': ('certain', 'X.696 16.2: in Basic OER a component equal to its DEFAULT may be present or '
                                  'absent at the encoder\'s option (both accepted; a decoder must accept both)'),
    'set-order': ('certain', 'X.696 18 + X.680 8.6: SET root components in canonical tag order (class, number; an '
                             'untagged CHOICE by its smallest tag); additions in textual order'),
    'of-quantity': ('vector', 'X.696 17/19: quantity as length + unsigned integer octets, then the elements; SIZE '
                              'is not used; SET OF in the order given (Basic OER)'),
    'choice-tag': ('vector', 'X.696 8.7/20: outermost tag of the alternative: class in bits 8-7, number < 63 in '
                             'bits 6-1'),
    'choice-tag-long': ('vector', 'X.696 8.7: number >= 63 -> bits 6-1 all ones, then base-128 octets, most '
                                  'significant first, bit 8 set on all but the last, no leading 0x80'),
    'choice-ext-open': ('vector', 'X.696 20.2: an alternative after the extension marker is wrapped in a length'),
    'choice-untagged-nested': ('vector', 'X.696 20.1 (repository\'s intended vector test_choice_default_tags, '
                                         'asn1c agrees): an alternative that is an untagged CHOICE contributes the '
                                         'tag of ITS chosen alternative, and then encodes itself (tag again)'),
    'auto-tags': ('certain', 'X.680 (AUTOMATIC TAGS): context tags 0.. in textual order when no component of the '
                             'constructor is tagged textually'),
    'ext-implied': ('certain', 'X.680 (EXTENSIBILITY IMPLIED): every SEQUENCE/SET/CHOICE without a marker is extensible'),
}


class Info:
    """Side information of one encode / decode: rules exercised, options seen."""

    def __init__(self):
        self.rules = {}
        self.notes = set()

    def use(self, rule):
        self.rules[rule] = self.rules.get(rule, 0) + 1

    def note(self, n):
        self.notes.add(n)


class _Ctx:
    def __init__(self, env, tags, ext_implied, numeric, omit_defaults=True):
        self.env = env or {}
        self.tags = tags
        self.ext_implied = ext_implied
        self.numeric = numeric
        self.omit_defaults = omit_defaults
        self.info = Info()
        self.depth = 0


# ---------------------------------------------------------------------------
# primitives

def length_octets(n):
    if n < 0:
        raise RefError('negative length')
    if n < 128:
        return bytes([n])
    k = (n.bit_length() + 7) // 8
    if k > 127:
        raise RefError('length too large')
    return bytes([0x80 | k]) + n.to_bytes(k, 'big')


def signed_octets(v):
    """Two's complement in the fewest octets (at least one)."""
    n = 1
    while not (-(1 << (8 * n - 1)) <= v < (1 << (8 * n - 1))):
        n += 1
    return v.to_bytes(n, 'big', signed=True)


def unsigned_octets(v):
    if v < 0:
        raise RefError('negative value for an unsigned field')
    return v.to_bytes(max(1, (v.bit_length() + 7) // 8), 'big')


CLASS_BITS = {'UNIVERSAL': 0x00, 'APPLICATION': 0x40, 'CONTEXT': 0x80, '': 0x80, 'PRIVATE': 0xc0}
BITS_CLASS = {0x00: 'UNIVERSAL', 0x40: 'APPLICATION', 0x80: 'CONTEXT', 0xc0: 'PRIVATE'}


def tag_octets(tag):
    cls, num = tag
    c = CLASS_BITS[cls]
    if num < 63:
        return bytes([c | num])
    groups = []
    n = num
    while True:
        groups.append(n & 0x7f)
        n >>= 7
        if n == 0:
            break
    groups.reverse()
    return bytes([c | 0x3f] + [g | 0x80 for g in groups[:-1]] + [groups[-1]])


def int_class(rng):
    """OER encoding class of an INTEGER with value constraint rng:
    ('fixed', signed, noctets) | ('var', signed, None)."""
    if rng is None or rng.ext:
        return ('var', True, None)
    lo, hi = rng.lo(), rng.hi()
    if lo is not None and lo >= 0:
        if hi is not None:
            for n in (1, 2, 4, 8):
                if hi <= (1 << (8 * n)) - 1:
                    return ('fixed', False, n)
        return ('var', False, None)
    if lo is not None and hi is not None:
        for n in (1, 2, 4, 8):
            if lo >= -(1 << (8 * n - 1)) and hi <= (1 << (8 * n - 1)) - 1:
                return ('fixed', True, n)
    return ('var', True, None)


def fixed_size(size):
    """n when `size` is an OER-visible fixed size constraint, else None."""
    if size is None or size.ext:
        return None
    lo, hi = size.lo(), size.hi()
    if lo is not None and hi is not None and lo == hi:
        return lo
    return None


# X.690 REAL -----------------------------------------------------------------

def der_real(f):
    """X.690 8.5 / 11.3 contents octets of python float f."""
    f = float(f)
    if f != f:
        return b'\x42'
    if f == float('inf'):
        return b'\x40'
    if f == float('-inf'):
        return b'\x41'
    if f == 0.0:
        if struct.pack('>d', f)[0] & 0x80:
            return b'\x43'
        return b''
    bits = struct.unpack('>Q', struct.pack('>d', f))[0]
    sign = bits >> 63
    e = (bits >> 52) & 0x7ff
    frac = bits & ((1 << 52) - 1)
    if e == 0:
        m, x = frac, -1074
    else:
        m, x = frac | (1 << 52), e - 1075
    while m % 2 == 0:
        m >>= 1
        x += 1
    eo = signed_octets(x)
    first = 0x80 | (0x40 if sign else 0)
    if len(eo) <= 3:
        head = bytes([first | (len(eo) - 1)]) + eo
    else:
        head = bytes([first | 3, len(eo)]) + eo
    return head + m.to_bytes((m.bit_length() + 7) // 8, 'big')


def ber_real(c):
    """Value of X.690 8.5 contents octets c (any BER form)."""
    if len(c) == 0:
        return 0.0
    b0 = c[0]
    if b0 & 0x80:
        sign = -1 if b0 & 0x40 else 1
        base = {0: 2, 1: 8, 2: 16}.get((b0 >> 4) & 3)
        if base is None:
            raise RefError('REAL: reserved base')
        scale = (b0 >> 2) & 3
        ef = b0 & 3
        if ef < 3:
            n, off = ef + 1, 1
        else:
            if len(c) < 2:
                raise RefError('REAL: truncated')
            n, off = c[1], 2
        if n == 0 or len(c) < off + n + 0:
            raise RefError('REAL: truncated exponent')
        exp = int.from_bytes(c[off:off + n], 'big', signed=True)
        mant = int.from_bytes(c[off + n:], 'big') if len(c) > off + n else 0
        val = Fraction(sign * mant * (1 << scale)) * (Fraction(base) ** exp)
        try:
            return float(val)
        except OverflowError:
            raise RefError('REAL: out of double range')
    if b0 & 0x40:
        if len(c) != 1 or b0 not in (0x40, 0x41, 0x42, 0x43):
            raise RefError('REAL: bad special value')
        return {0x40: float('inf'), 0x41: float('-inf'), 0x42: float('nan'), 0x43: -0.0}[b0]
    if b0 not in (1, 2, 3):
        raise RefError('REAL: bad decimal form')
    try:
        return float(bytes(c[1:]).decode('ascii').strip().replace(',', '.'))
    except ValueError:
        raise RefError('REAL: bad decimal text')


# OBJECT IDENTIFIER ------------------------------------------------------------

def oid_contents(s):
    try:
        arcs = [int(x) for x in s.split('.')]
    except (ValueError, AttributeError):
        raise RefError('OID: not dotted decimal')
    if len(arcs) < 2 or arcs[0] not in (0, 1, 2) or min(arcs) < 0 or (arcs[0] < 2 and arcs[1] > 39):
        raise RefError('OID: illegal arcs')
    subs = [40 * arcs[0] + arcs[1]] + arcs[2:]
    out = bytearray()
    for n in subs:
        groups = [n & 0x7f]
        n >>= 7
        while n:
            groups.append(0x80 | (n & 0x7f))
            n >>= 7
        out.extend(reversed(groups))
    return bytes(out)


def oid_value(c):
    if not c or c[-1] & 0x80:
        raise RefError('OID: truncated subidentifier')
    subs = []
    n = 0
    start = True
    for b in c:
        if start and b == 0x80:
            raise RefError('OID: leading 0x80 in subidentifier')
        start = False
        n = (n << 7) | (b & 0x7f)
        if not b & 0x80:
            subs.append(n)
            n = 0
            start = True
    f = subs[0]
    arcs = [f // 40, f % 40] if f < 80 else [2, f - 80]
    return '.'.join(str(a) for a in arcs + subs[1:])


# strings ------------------------------------------------------------------------

_WIDTH = {'BMPString': 2, 'UniversalString': 4}


def string_octets(kind, s):
    if not isinstance(s, str):
        raise RefError('string expected')
    if kind == 'UTF8String':
        return s.encode('utf-8')
    if kind == 'BMPString':
        if any(ord(ch) > 0xffff for ch in s):
            raise RefError('BMPString: character outside the BMP')
        return b''.join(ord(ch).to_bytes(2, 'big') for ch in s)
    if kind == 'UniversalString':
        return b''.join(ord(ch).to_bytes(4, 'big') for ch in s)
    if kind in ('IA5String', 'VisibleString', 'NumericString', 'PrintableString'):
        if any(ord(ch) > 0x7f for ch in s):
            raise RefError('%s: non-ASCII character' % kind)
        return bytes(ord(ch) for ch in s)
    # GeneralString, GraphicString, TeletexString, ObjectDescriptor: only the
    # G0 (ASCII) repertoire is modelled; other characters need ISO 2022 escapes
    if any(ord(ch) > 0x7f for ch in s):
        raise RefError('%s: only the ASCII repertoire is modelled' % kind)
    return bytes(ord(ch) for ch in s)


def string_value(kind, b):
    try:
        if kind == 'UTF8String':
            return bytes(b).decode('utf-8')
        if kind == 'BMPString':
            if len(b) % 2:
                raise RefError('BMPString: odd number of octets')
            return ''.join(chr(int.from_bytes(b[i:i + 2], 'big')) for i in range(0, len(b), 2))
        if kind == 'UniversalString':
            if len(b) % 4:
                raise RefError('UniversalString: octets not a multiple of 4')
            return ''.join(chr(int.from_bytes(b[i:i + 4], 'big')) for i in range(0, len(b), 4))
    except (UnicodeDecodeError, ValueError, OverflowError):
        raise RefError('%s: undecodable octets' % kind)
    if any(x > 0x7f for x in b):
        raise RefError('%s: octet above 0x7f' % kind)
    return ''.join(chr(x) for x in b)


# times --------------------------------------------------------------------------

def utctime_text(dt):
    if not isinstance(dt, datetime.datetime):
        raise RefError('UTCTime: datetime expected')
    if dt.tzinfo is not None:
        off = dt.utcoffset()
        dt = (dt - off).replace(tzinfo=None)
    if not (1950 <= dt.year <= 2049):
        raise RefError('UTCTime: year outside 1950..2049')
    return dt.strftime('%y%m%d%H%M%S') + 'Z'


def gentime_text(dt):
    if not isinstance(dt, datetime.datetime):
        raise RefError('GeneralizedTime: datetime expected')
    suffix = ''
    if dt.tzinfo is not None:
        off = dt.utcoffset()
        dt = (dt - off).replace(tzinfo=None)
        suffix = 'Z'
    s = '%04d%02d%02d%02d%02d%02d' % (dt.year, dt.month, dt.day, dt.hour, dt.minute, dt.second)
    if dt.microsecond:
        s += ('.%06d' % dt.microsecond).rstrip('0')
    return s + suffix


def _zone(s):
    """Split a trailing Z / +hhmm / -hhmm / +hh. Returns (body, tzinfo|None|'Z')."""
    if s.endswith('Z'):
        return s[:-1], 'Z'
    for i in (5, 3):
        if len(s) > i and s[-i] in '+-' and s[-i + 1:].isdigit():
            hh = int(s[-i + 1:-i + 3])
            mm = int(s[-i + 3:]) if i == 5 else 0
            d = datetime.timedelta(hours=hh, minutes=mm)
            if s[-i] == '-':
                d = -d
            return s[:-i], datetime.timezone(d)
    return s, None


def utctime_value(s):
    body, z = _zone(s)
    if z is None or len(body) not in (10, 12) or not body.isdigit():
        raise RefError('UTCTime: bad form %r' % s)
    yy = int(body[0:2])
    year = 2000 + yy if yy < 50 else 1900 + yy
    try:
        dt = datetime.datetime(year, int(body[2:4]), int(body[4:6]), int(body[6:8]), int(body[8:10]),
                               int(body[10:12]) if len(body) == 12 else 0)
    except ValueError:
        raise RefError('UTCTime: bad date %r' % s)
    if z == 'Z':
        return dt
    return dt.replace(tzinfo=z)


def gentime_value(s):
    body, z = _zone(s)
    frac = ''
    for sep in '.,':
        if sep in body:
            body, frac = body.split(sep, 1)
            break
    if len(body) not in (10, 12, 14) or not body.isdigit() or (frac and not frac.isdigit()):
        raise RefError('GeneralizedTime: bad form %r' % s)
    try:
        dt = datetime.datetime(int(body[0:4]), int(body[4:6]), int(body[6:8]), int(body[8:10]),
                               int(body[10:12]) if len(body) >= 12 else 0,
                               int(body[12:14]) if len(body) >= 14 else 0)
    except ValueError:
        raise RefError('GeneralizedTime: bad date %r' % s)
    if frac:
        unit = {14: 1, 12: 60, 10: 3600}[len(body)]
        dt += datetime.timedelta(microseconds=int(Fraction(int(frac), 10 ** len(frac)) * unit * 1000000))
    if z == 'Z':
        return dt.replace(tzinfo=datetime.timezone.utc)
    if z is not None:
        return dt.replace(tzinfo=z)
    return dt


# ---------------------------------------------------------------------------
# tags

def outer_tag(t, C, _seen=()):
    """(class, number) of the outermost tag of t, or None for an untagged CHOICE."""
    while True:
        if isinstance(t, Ref):
            if t.name in _seen:
                raise RefError('reference cycle while computing a tag')
            _seen = _seen + (t.name,)
            t = C.env[t.name]
        else:
            break
    if isinstance(t, Tag):
        return (t.cls or 'CONTEXT', t.num)
    if isinstance(t, Leaf):
        return ('UNIVERSAL', UNIVERSAL[t.kind])
    if isinstance(t, (Seq, Of)):
        return ('UNIVERSAL', 17 if t.is_set else 16)
    if isinstance(t, Cho):
        return None
    raise TypeError(t)


def _struct(t, C):
    """Strip Ref / Tag wrappers."""
    n = 0
    while isinstance(t, (Ref, Tag)):
        t = C.env[t.name] if isinstance(t, Ref) else t.inner
        n += 1
        if n > 60:
            raise RefError('reference cycle')
    return t


def member_tags(t, C):
    """Outermost tag of every member of constructor t (all_members order);
    None for an untagged CHOICE member."""
    ms = all_members(t)
    if auto_tagged(t, C.tags):
        C.info.use('auto-tags')
        return [('CONTEXT', i) for i in range(len(ms))]
    return [outer_tag(m.t, C) for m in ms]


def choice_tagset(t, C, _depth=0):
    """All tags an untagged CHOICE t can present."""
    if _depth > 8:
        return set()
    out = set()
    for m, tg in zip(all_members(t), member_tags(t, C)):
        if tg is None:
            out |= choice_tagset(_struct(m.t, C), C, _depth + 1)
        else:
            out.add(tg)
    return out


def _tagkey(tg):
    return (CLASS_ORDER[tg[0]], tg[1])


def canonical_order(members, tags, C):
    """Members sorted into the X.680 8.6 canonical order."""
    keyed = []
    for m, tg in zip(members, tags):
        if tg is None:
            ts = choice_tagset(_struct(m.t, C), C)
            if not ts:
                raise RefError('SET: untagged CHOICE without tags')
            k = min(_tagkey(x) for x in ts)
        else:
            k = _tagkey(tg)
        keyed.append((k, m))
    ks = [k for k, _ in keyed]
    if len(set(ks)) != len(ks):
        raise RefError('SET: components without distinct tags')
    return [m for _, m in sorted(keyed, key=lambda km: km[0])]


def _root_members(t, C):
    """Root components of a SEQUENCE/SET in encoding order."""
    root = list(t.root) + list(t.root2)
    if t.is_set and len(root) > 1:
        C.info.use('set-order')
        ms = all_members(t)
        tags = member_tags(t, C)
        bym = {id(m): tg for m, tg in zip(ms, tags)}
        root = canonical_order(root, [bym[id(m)] for m in root], C)
    return root


# ---------------------------------------------------------------------------
# encoder

def _emit(out, rule, data, C, shape=None):
    """Append octets; the chunk label is the rule plus a short description of
    what is being encoded (used to name the point of divergence)."""
    C.info.use(rule)
    out.append((rule if shape is None else '%s(%s)' % (rule, shape), bytes(data)))


def _emit_len(out, n, C, owner):
    C.info.use('length-short' if n < 128 else 'length-long')
    out.append(('length(%s)' % owner, length_octets(n)))


def size_shape(size):
    if size is None:
        return 'nosize'
    if size.ext:
        return 'ext'
    return 'fixed' if fixed_size(size) is not None else 'range'


def int_shape(rng):
    form, signed, n = int_class(rng)
    s = '%s-%s%s' % (form, 'signed' if signed else 'unsigned', n or '')
    if rng is not None and rng.ext:
        s += ',ext,lb%s' % ('MIN' if rng.lo() is None else '>=0' if rng.lo() >= 0 else '<0')
    return s


def _size(chunks):
    return sum(len(b) for _, b in chunks)


def _enc(t, v, out, C, noext=False):
    C.depth += 1
    if C.depth > 200:
        raise RefError('nesting too deep')
    try:
        if isinstance(t, Ref):
            return _enc(C.env[t.name], v, out, C)
        if isinstance(t, Tag):
            return _enc(t.inner, v, out, C)
        if isinstance(t, Leaf):
            return _enc_leaf(t, v, out, C)
        if isinstance(t, Seq):
            return _enc_seq(t, v, out, C, noext)
        if isinstance(t, Cho):
            return _enc_cho(t, v, out, C)
        if isinstance(t, Of):
            return _enc_of(t, v, out, C)
        raise TypeError(t)
    finally:
        C.depth -= 1


def _enc_int(rng, v, out, C):
    if isinstance(v, bool) or not isinstance(v, int):
        raise RefError('INTEGER: int expected')
    form, signed, n = int_class(rng)
    if rng is not None and rng.ext:
        C.info.use('int-ext-not-visible')
    if form == 'fixed':
        lo, hi = rng.lo(), rng.hi()
        if not lo <= v <= hi:
            raise RefError('INTEGER: value outside its non-extensible constraint')
        _emit(out, 'int-fixed-signed' if signed else 'int-fixed-unsigned', v.to_bytes(n, 'big', signed=signed), C, n)
    elif signed:
        o = signed_octets(v)
        _emit_len(out, len(o), C, 'INTEGER,' + int_shape(rng))
        _emit(out, 'int-var-signed', o, C, int_shape(rng))
    else:
        if v < 0:
            raise RefError('INTEGER: negative value under a non-negative constraint')
        o = unsigned_octets(v)
        _emit_len(out, len(o), C, 'INTEGER,' + int_shape(rng))
        _emit(out, 'int-var-unsigned', o, C, int_shape(rng))


def _enum_number(l, v, C):
    root, adds = enum_numbers(l)
    if C.numeric:
        nums = [n for _, n in root] + [n for _, n in (adds or [])]
        if isinstance(v, bool) or not isinstance(v, int) or v not in nums:
            raise RefError('ENUMERATED: unknown number %r' % (v,))
        return v
    d = dict(root + (adds or []))
    if not isinstance(v, str) or v not in d:
        raise RefError('ENUMERATED: unknown identifier %r' % (v,))
    return d[v]


def _enc_leaf(l, v, out, C):
    k = l.kind
    if k == 'BOOLEAN':
        if not isinstance(v, bool):
            raise RefError('BOOLEAN: bool expected')
        _emit(out, 'boolean', b'\xff' if v else b'\x00', C)
    elif k == 'INTEGER':
        _enc_int(l.rng, v, out, C)
    elif k == 'ENUMERATED':
        n = _enum_number(l, v, C)
        if 0 <= n <= 127:
            _emit(out, 'enum-short', bytes([n]), C)
        else:
            o = signed_octets(n)
            _emit(out, 'enum-long', bytes([0x80 | len(o)]) + o, C)
    elif k == 'REAL':
        if isinstance(v, bool) or not isinstance(v, (int, float)):
            raise RefError('REAL: number expected')
        if l.wc in ('binary32', 'binary64'):
            fmt = '>f' if l.wc == 'binary32' else '>d'
            try:
                o = struct.pack(fmt, v)
            except (OverflowError, struct.error):
                raise RefError('REAL: not representable in ' + l.wc)
            if struct.unpack(fmt, o)[0] != v and v == v:
                raise RefError('REAL: not exactly representable in ' + l.wc)
            _emit(out, 'real-' + l.wc, o, C)
        else:
            try:
                o = der_real(v)
            except OverflowError:
                raise RefError('REAL: out of range')
            _emit_len(out, len(o), C, 'REAL')
            _emit(out, 'real-contents', o, C)
    elif k == 'NULL':
        if v is not None:
            raise RefError('NULL: None expected')
        C.info.use('null')
    elif k == 'BITSTRING':
        if not (isinstance(v, tuple) and len(v) == 2 and isinstance(v[0], (bytes, bytearray))):
            raise RefError('BIT STRING: (bytes, nbits) expected')
        data, nbits = bytes(v[0]), v[1]
        if nbits < 0 or nbits > 8 * len(data):
            raise RefError('BIT STRING: bit count exceeds the data')
        nbytes = (nbits + 7) // 8
        data = bytearray(data[:nbytes])
        if nbits % 8:
            data[-1] &= (0xff << (8 - nbits % 8)) & 0xff
        if l.named:
            C.info.use('bits-named-trim')
        fs = fixed_size(l.size)
        if fs is not None:
            if nbits != fs:
                raise RefError('BIT STRING: size differs from the fixed SIZE')
            _emit(out, 'bits-fixed', data, C)
        else:
            _emit_len(out, nbytes + 1, C, 'BIT STRING,' + size_shape(l.size))
            _emit(out, 'bits-var', bytes([(-nbits) % 8]) + bytes(data), C, size_shape(l.size))
    elif k == 'OCTETSTRING':
        if not isinstance(v, (bytes, bytearray)):
            raise RefError('OCTET STRING: bytes expected')
        fs = fixed_size(l.size)
        if fs is not None:
            if len(v) != fs:
                raise RefError('OCTET STRING: size differs from the fixed SIZE')
            _emit(out, 'octets-fixed', v, C)
        else:
            _emit_len(out, len(v), C, 'OCTET STRING,' + size_shape(l.size))
            _emit(out, 'octets-var', v, C, size_shape(l.size))
    elif k == 'OID':
        o = oid_contents(v)
        _emit_len(out, len(o), C, 'OID')
        _emit(out, 'oid', o, C)
    elif k in STRING_KINDS:
        o = string_octets(k, v)
        fs = fixed_size(l.size) if k in KNOWN_MULT else None
        if l.size is not None and fs is None:
            C.info.use('str-size-not-visible')
        if fs is not None:
            if len(v) != fs:
                raise RefError('string: size differs from the fixed SIZE')
            _emit(out, 'str-km-fixed', o, C, k)
        else:
            _emit_len(out, len(o), C, '%s,%s' % (k, size_shape(l.size)))
            _emit(out, 'str-length', o, C, '%s,%s' % (k, size_shape(l.size)))
    elif k == 'UTCTime':
        o = utctime_text(v).encode('ascii')
        _emit_len(out, len(o), C, k)
        _emit(out, 'time-visible', o, C, k)
    elif k == 'GeneralizedTime':
        o = gentime_text(v).encode('ascii')
        _emit_len(out, len(o), C, k)
        _emit(out, 'time-visible', o, C, k)
    elif k == 'DATE':
        if not isinstance(v, datetime.date) or isinstance(v, datetime.datetime):
            raise RefError('DATE: date expected')
        _enc_date(v, out, C)
    elif k == 'TIME-OF-DAY':
        if not isinstance(v, datetime.time):
            raise RefError('TIME-OF-DAY: time expected')
        _enc_tod(v, out, C)
    elif k == 'DATE-TIME':
        if not isinstance(v, datetime.datetime):
            raise RefError('DATE-TIME: datetime expected')
        _enc_date(v, out, C)
        _enc_tod(v, out, C)
    else:
        raise RefError('unsupported leaf kind ' + k)


def _enc_date(v, out, C):
    o = signed_octets(v.year)
    _emit(out, 'time-date', length_octets(len(o)) + o + bytes([v.month, v.day]), C)


def _enc_tod(v, out, C):
    _emit(out, 'time-date', bytes([v.hour, v.minute, v.second]), C)


def _default_of(m, C):
    d = m.default
    if C.numeric:
        d = to_numeric(m.t, d, C.env)
    return d


def _present(m, v, C):
    if m.name not in v:
        return False
    if m.q == 'D' and absval.eq(m.t, v[m.name], _default_of(m, C), C.env, C.numeric):
        C.info.use('default-option')
        C.info.note('default-equal')
        return not C.omit_defaults
    return True


def _bits_to_octets(bits):
    bits = list(bits) + [0] * ((-len(bits)) % 8)
    return bytes(int(''.join(str(b) for b in bits[i:i + 8]), 2) for i in range(0, len(bits), 8))


def _enc_seq(t, v, out, C, noext=False):
    if not isinstance(v, dict):
        raise RefError('SEQUENCE/SET: dict expected')
    names = {m.name for m in all_members(t)}
    if set(v) - names:
        raise RefError('SEQUENCE/SET: unknown components %s' % sorted(set(v) - names))
    ext = t.ext or (C.ext_implied and not noext)
    if ext and not t.ext:
        C.info.use('ext-implied')
    root = _root_members(t, C)
    # extension additions first (their presence decides the extension bit)
    add_chunks = []
    for a in t.adds:
        if isinstance(a, Grp):
            if any(_present(m, v, C) for m in a.members):
                C.info.use('seq-ext-group')
                sub = []
                gv = {m.name: v[m.name] for m in a.members if m.name in v}
                _enc_seq(Seq(root=tuple(a.members)), gv, sub, C, noext=True)
                add_chunks.append(sub)
            else:
                add_chunks.append(None)
        else:
            if _present(a, v, C):
                sub = []
                _enc(a.t, v[a.name], sub, C)
                add_chunks.append(sub)
            else:
                add_chunks.append(None)
    any_add = any(c is not None for c in add_chunks)
    bits = []
    if ext:
        bits.append(1 if any_add else 0)
    pres = {}
    for m in root:
        if m.q in ('O', 'D'):
            p = _present(m, v, C)
            pres[m.name] = p
            bits.append(1 if p else 0)
        elif m.name not in v:
            raise RefError('SEQUENCE/SET: mandatory component %s missing' % m.name)
    if bits:
        _emit(out, 'seq-preamble', _bits_to_octets(bits), C)
    for m in root:
        if pres.get(m.name, True):
            _enc(m.t, v[m.name], out, C)
    if any_add:
        n = len(add_chunks)
        bm = _bits_to_octets([0 if c is None else 1 for c in add_chunks])
        _emit_len(out, len(bm) + 1, C, 'ext-bitmap')
        _emit(out, 'seq-ext-bitmap', bytes([(-n) % 8]) + bm, C)
        for a, c in zip(t.adds, add_chunks):
            if c is not None:
                C.info.use('seq-ext-open')
                _emit_len(out, _size(c), C, 'ext-group' if isinstance(a, Grp) else 'ext-addition')
                out.extend(c)


def choice_value_tag(t, v, C, _depth=0):
    """Tag presented by value v of untagged CHOICE t."""
    if _depth > 8 or not (isinstance(v, tuple) and len(v) == 2):
        raise RefError('CHOICE: (name, value) expected')
    for m, tg in zip(all_members(t), member_tags(t, C)):
        if m.name == v[0]:
            if tg is None:
                return choice_value_tag(_struct(m.t, C), v[1], C, _depth + 1)
            return tg
    raise RefError('CHOICE: unknown alternative %r' % (v[0],))


def _enc_cho(t, v, out, C):
    if not (isinstance(v, tuple) and len(v) == 2):
        raise RefError('CHOICE: (name, value) expected')
    ms = all_members(t)
    tags = member_tags(t, C)
    for i, m in enumerate(ms):
        if m.name == v[0]:
            break
    else:
        raise RefError('CHOICE: unknown alternative %r' % (v[0],))
    tg = tags[i]
    if tg is None:
        C.info.use('choice-untagged-nested')
        tg = choice_value_tag(_struct(m.t, C), v[1], C)
    _emit(out, 'choice-tag' if tg[1] < 63 else 'choice-tag-long', tag_octets(tg), C, tg[0])
    if i >= len(t.root):
        sub = []
        _enc(m.t, v[1], sub, C)
        C.info.use('choice-ext-open')
        _emit_len(out, _size(sub), C, 'choice-ext')
        out.extend(sub)
    else:
        _enc(m.t, v[1], out, C)


def _enc_of(t, v, out, C):
    if not isinstance(v, list):
        raise RefError('SEQUENCE OF / SET OF: list expected')
    o = unsigned_octets(len(v))
    _emit(out, 'of-quantity', length_octets(len(o)) + o, C)
    for x in v:
        _enc(t.elem, x, out, C)


def encode_traced(term, value, env, tags='EXPLICIT', ext_implied=False, numeric=False, omit_defaults=True):
    C = _Ctx(env, tags, ext_implied, numeric, omit_defaults)
    out = []
    try:
        _enc(term, value, out, C)
    except (KeyError, AttributeError, TypeError, ValueError, OverflowError, RecursionError) as e:
        raise RefError('model cannot encode: %s: %s' % (type(e).__name__, e))
    return b''.join(b for _, b in out), out, C.info


def encode(term, value, env, tags='EXPLICIT', ext_implied=False, numeric=False, omit_defaults=True):
    return encode_traced(term, value, env, tags, ext_implied, numeric, omit_defaults)[0]


def divergence(chunks, other):
    """First octet offset at which `other` departs from the traced encoding, and
    the rule that emitted the model's octet there ('end' when one is a prefix)."""
    pos = 0
    for rule, b in chunks:
        for i in range(len(b)):
            if pos + i >= len(other) or other[pos + i] != b[i]:
                return pos + i, rule
        pos += len(b)
    if len(other) > pos:
        return pos, 'trailing-octets'
    return None, None


# ---------------------------------------------------------------------------
# decoder (acceptance side)

class _Cur:
    __slots__ = ('data', 'pos', 'end')

    def __init__(self, data, pos=0, end=None):
        self.data = data
        self.pos = pos
        self.end = len(data) if end is None else end

    def take(self, n):
        if n < 0 or self.pos + n > self.end:
            raise RefError('out of data at octet %d (need %d)' % (self.pos, n))
        b = self.data[self.pos:self.pos + n]
        self.pos += n
        return b

    def byte(self):
        return self.take(1)[0]

    def sub(self, n):
        if self.pos + n > self.end:
            raise RefError('out of data at octet %d (open type of %d octets)' % (self.pos, n))
        c = _Cur(self.data, self.pos, self.pos + n)
        self.pos += n
        return c


def _dec_len(cur, C):
    b = cur.byte()
    if b < 0x80:
        return b
    n = b & 0x7f
    if n == 0:
        raise RefError('length determinant 0x80')
    o = cur.take(n)
    v = int.from_bytes(o, 'big')
    if v < 128 or o[0] == 0:
        C.info.note('option:length-not-shortest')
    return v


def _dec(t, cur, C, noext=False):
    C.depth += 1
    if C.depth > 200:
        raise RefError('nesting too deep')
    try:
        if isinstance(t, Ref):
            return _dec(C.env[t.name], cur, C)
        if isinstance(t, Tag):
            return _dec(t.inner, cur, C)
        if isinstance(t, Leaf):
            return _dec_leaf(t, cur, C)
        if isinstance(t, Seq):
            return _dec_seq(t, cur, C, noext)
        if isinstance(t, Cho):
            return _dec_cho(t, cur, C)
        if isinstance(t, Of):
            return _dec_of(t, cur, C)
        raise TypeError(t)
    finally:
        C.depth -= 1


def _dec_int(rng, cur, C):
    form, signed, n = int_class(rng)
    if form == 'fixed':
        v = int.from_bytes(cur.take(n), 'big', signed=signed)
        if not rng.lo() <= v <= rng.hi():
            raise RefError('INTEGER: value %d outside its constraint' % v)
        return v
    ln = _dec_len(cur, C)
    if ln == 0:
        raise RefError('INTEGER: zero octets')
    o = cur.take(ln)
    v = int.from_bytes(o, 'big', signed=signed)
    if (signed_octets(v) if signed else unsigned_octets(v)) != o:
        C.info.note('option:integer-not-minimal')
    return v


def _dec_leaf(l, cur, C):
    k = l.kind
    if k == 'BOOLEAN':
        b = cur.byte()
        if b not in (0, 0xff):
            C.info.note('option:boolean-true-not-ff')
        return b != 0
    if k == 'INTEGER':
        return _dec_int(l.rng, cur, C)
    if k == 'ENUMERATED':
        b = cur.byte()
        if b < 0x80:
            n = b
        else:
            cnt = b & 0x7f
            if cnt == 0:
                raise RefError('ENUMERATED: long form with zero octets')
            o = cur.take(cnt)
            n = int.from_bytes(o, 'big', signed=True)
            if signed_octets(n) != o or 0 <= n <= 127:
                C.info.note('option:enumerated-not-minimal')
        root, adds = enum_numbers(l)
        for name, num in root + (adds or []):
            if num == n:
                return n if C.numeric else name
        raise RefError('ENUMERATED: number %d is not in the type' % n)
    if k == 'REAL':
        if l.wc == 'binary32':
            return struct.unpack('>f', cur.take(4))[0]
        if l.wc == 'binary64':
            return struct.unpack('>d', cur.take(8))[0]
        c = cur.take(_dec_len(cur, C))
        v = ber_real(c)
        if v == v and der_real(v) != bytes(c):
            C.info.note('unasserted:real-der-form')
        return v
    if k == 'NULL':
        return None
    if k == 'BITSTRING':
        fs = fixed_size(l.size)
        if fs is not None:
            data = cur.take((fs + 7) // 8)
            nbits = fs
        else:
            ln = _dec_len(cur, C)
            if ln < 1:
                raise RefError('BIT STRING: no unused-bits octet')
            unused = cur.byte()
            data = cur.take(ln - 1)
            if unused > 7 or (unused and not data):
                raise RefError('BIT STRING: unused-bits octet %d' % unused)
            nbits = 8 * len(data) - unused
        if nbits % 8 and data[-1] & (0xff >> (nbits % 8)):
            raise RefError('BIT STRING: unused bits not zero')
        return (bytes(data), nbits)
    if k == 'OCTETSTRING':
        fs = fixed_size(l.size)
        return bytes(cur.take(fs if fs is not None else _dec_len(cur, C)))
    if k == 'OID':
        return oid_value(cur.take(_dec_len(cur, C)))
    if k in STRING_KINDS:
        fs = fixed_size(l.size) if k in KNOWN_MULT else None
        if fs is not None:
            return string_value(k, cur.take(fs * _WIDTH.get(k, 1)))
        return string_value(k, cur.take(_dec_len(cur, C)))
    if k in ('UTCTime', 'GeneralizedTime'):
        raw = cur.take(_dec_len(cur, C))
        s = string_value('VisibleString', raw)
        v = utctime_value(s) if k == 'UTCTime' else gentime_value(s)
        canon = utctime_text(v) if k == 'UTCTime' else gentime_text(v)
        if canon != s:
            C.info.note('unasserted:time-char-form')
        return v
    if k == 'DATE':
        return _dec_date(cur, C)
    if k == 'TIME-OF-DAY':
        return _dec_tod(cur, C)
    if k == 'DATE-TIME':
        d = _dec_date(cur, C)
        t = _dec_tod(cur, C)
        return datetime.datetime(d.year, d.month, d.day, t.hour, t.minute, t.second)
    raise RefError('unsupported leaf kind ' + k)


def _dec_date(cur, C):
    y = _dec_int(None, cur, C)
    m, d = cur.byte(), cur.byte()
    try:
        return datetime.date(y, m, d)
    except ValueError:
        raise RefError('DATE: %d-%d-%d' % (y, m, d))


def _dec_tod(cur, C):
    h, m, s = cur.byte(), cur.byte(), cur.byte()
    try:
        return datetime.time(h, m, s)
    except ValueError:
        raise RefError('TIME-OF-DAY: %d:%d:%d' % (h, m, s))


def _read_bits(cur, n):
    o = cur.take((n + 7) // 8)
    bits = []
    for b in o:
        for i in range(7, -1, -1):
            bits.append((b >> i) & 1)
    if any(bits[n:]):
        raise RefError('padding bits not zero')
    return bits[:n]


def _dec_seq(t, cur, C, noext=False):
    ext = t.ext or (C.ext_implied and not noext)
    root = _root_members(t, C)
    opt = [m for m in root if m.q in ('O', 'D')]
    nbits = (1 if ext else 0) + len(opt)
    bits = _read_bits(cur, nbits) if nbits else []
    extbit = bits.pop(0) if ext else 0
    pres = dict(zip((m.name for m in opt), bits))
    v = {}
    for m in root:
        if pres.get(m.name, 1):
            v[m.name] = _dec(m.t, cur, C)
            if m.q == 'D' and absval.eq(m.t, v[m.name], _default_of(m, C), C.env, C.numeric):
                C.info.note('option:default-value-encoded')
    if extbit:
        ln = _dec_len(cur, C)
        if ln < 1:
            raise RefError('extension bitmap: no unused-bits octet')
        unused = cur.byte()
        if unused > 7:
            raise RefError('extension bitmap: unused-bits octet is %d (must be 0..7)' % unused)
        n = 8 * (ln - 1) - unused
        if n < 0:
            raise RefError('extension bitmap: unused bits without an octet')
        abits = _read_bits(cur, n)
        if n != len(t.adds):
            raise RefError('extension bitmap has %d bits for %d extension additions' % (n, len(t.adds)))
        if not any(abits):
            raise RefError('extension bit set although no addition is present')
        for a, b in zip(t.adds, abits):
            if not b:
                continue
            sub = cur.sub(_dec_len(cur, C))
            if isinstance(a, Grp):
                gv = _dec_seq(Seq(root=tuple(a.members)), sub, C, noext=True)
                v.update(gv)
            else:
                v[a.name] = _dec(a.t, sub, C)
                if a.q == 'D' and absval.eq(a.t, v[a.name], _default_of(a, C), C.env, C.numeric):
                    C.info.note('option:default-value-encoded')
            if sub.pos != sub.end:
                raise RefError('extension addition: %d octets left inside its length' % (sub.end - sub.pos))
    return v


def _dec_tag(cur):
    b = cur.byte()
    cls = BITS_CLASS[b & 0xc0]
    num = b & 0x3f
    if num < 63:
        return (cls, num)
    num = 0
    first = True
    while True:
        o = cur.byte()
        if first and o == 0x80:
            raise RefError('tag: leading 0x80 in the number')
        first = False
        num = (num << 7) | (o & 0x7f)
        if not o & 0x80:
            break
    if num < 63:
        raise RefError('tag: long form used for a number below 63')
    return (cls, num)


def _dec_cho(t, cur, C):
    start = cur.pos
    tg = _dec_tag(cur)
    ms = all_members(t)
    for i, (m, mt) in enumerate(zip(ms, member_tags(t, C))):
        if mt == tg:
            nested = False
        elif mt is None and tg in choice_tagset(_struct(m.t, C), C):
            nested = True
        else:
            continue
        c = cur
        if i >= len(t.root):
            c = cur.sub(_dec_len(cur, C))
        x = _dec(m.t, c, C)
        if c is not cur and c.pos != c.end:
            raise RefError('CHOICE extension alternative: octets left inside its length')
        return (m.name, x)
    raise RefError('CHOICE: tag %s %d at octet %d matches no alternative' % (tg[0], tg[1], start))


def _dec_of(t, cur, C):
    ln = _dec_len(cur, C)
    if ln == 0:
        raise RefError('quantity: zero octets')
    o = cur.take(ln)
    n = int.from_bytes(o, 'big')
    if unsigned_octets(n) != o:
        C.info.note('option:integer-not-minimal')
    if n > cur.end - cur.pos and not _may_be_empty(t.elem, C):
        raise RefError('quantity %d exceeds the remaining octets' % n)
    return [_dec(t.elem, cur, C) for _ in range(n)]


def _may_be_empty(t, C):
    t = _struct(t, C)
    if isinstance(t, Leaf):
        if t.kind == 'NULL':
            return True
        if t.kind in ('BITSTRING', 'OCTETSTRING') or t.kind in STRING_KINDS:
            return fixed_size(t.size) == 0
        return False
    if isinstance(t, Seq):
        return True
    return False


def decode_checked(term, data, env, tags='EXPLICIT', ext_implied=False, numeric=False):
    C = _Ctx(env, tags, ext_implied, numeric)
    cur = _Cur(bytes(data))
    try:
        v = _dec(term, cur, C)
    except (KeyError, AttributeError, TypeError, ValueError, OverflowError, RecursionError, IndexError) as e:
        raise RefError('model cannot decode: %s: %s' % (type(e).__name__, e))
    if cur.pos != cur.end:
        raise RefError('%d octets left after the value' % (cur.end - cur.pos))
    return v, C.info


def decode(term, data, env, tags='EXPLICIT', ext_implied=False, numeric=False):
    return decode_checked(term, data, env, tags, ext_implied, numeric)[0]


# ---------------------------------------------------------------------------
# self test

def selftest():
    """Replay the frozen vectors (worked examples of the 'overview of OER' kind
    and checked repository vectors) through encoder and decoder; return the count."""
    from .vectors import oer_vectors
    n = 0
    for vec in oer_vectors.VECTORS:
        term, env = vec['term'], vec.get('env', {})
        tags, ei = vec.get('tags', 'AUTOMATIC'), vec.get('ext_implied', False)
        want = bytes.fromhex(vec['hex'])
        got = encode(term, vec['value'], env, tags, ei, omit_defaults=vec.get('omit_defaults', True))
        if got != want:
            raise AssertionError('ref_oer vector %s: encode gives %s, expected %s' % (vec['id'], got.hex(), want.hex()))
        back, info = decode_checked(term, want, env, tags, ei)
        if not absval.eq(term, back, vec['value'], env):
            raise AssertionError('ref_oer vector %s: decode gives %r' % (vec['id'], back))
        n += 1
    for vec in oer_vectors.PINNED_DEFECTS:
        # repository vectors that contradict X.696: the model must NOT reproduce them
        got = encode(vec['term'], vec['value'], vec.get('env', {}), vec.get('tags', 'AUTOMATIC'), False)
        if got == bytes.fromhex(vec['repo_hex']) or got != bytes.fromhex(vec['hex']):
            raise AssertionError('ref_oer pinned-defect vector %s: %s' % (vec['id'], got.hex()))
        n += 1
    # primitives
    assert length_octets(127) == b'\x7f' and length_octets(128) == b'\x81\x80' and length_octets(999) == b'\x82\x03\xe7'
    assert tag_octets(('CONTEXT', 62)) == b'\xbe' and tag_octets(('APPLICATION', 63)) == b'\x7f\x3f'
    assert tag_octets(('PRIVATE', 963)) == b'\xff\x87\x43' and tag_octets(('CONTEXT', 128)) == b'\xbf\x81\x00'
    assert int_class(Rng(0, 255)) == ('fixed', False, 1) and int_class(Rng(0, 256)) == ('fixed', False, 2)
    assert int_class(Rng(-128, 127)) == ('fixed', True, 1) and int_class(Rng(-129, 127)) == ('fixed', True, 2)
    assert int_class(Rng(0, 2**64 - 1)) == ('fixed', False, 8) and int_class(Rng(0, 2**64)) == ('var', False, None)
    assert int_class(Rng(-2**63 - 1, 0)) == ('var', True, None) and int_class(Rng(0, 255, ext=True)) == ('var', True, None)
    assert int_class(Rng('MIN', 5)) == ('var', True, None) and int_class(Rng(-5, 'MAX')) == ('var', True, None)
    for f in (1.0, 100.0, -100.0, 0.1, 5e-324, 1.7976931348623157e308, 16777215.0, 1e10):
        assert ber_real(der_real(f)) == f
    assert der_real(1.0) == b'\x80\x00\x01' and der_real(100.0) == b'\x80\x02\x19' and der_real(-100.0) == b'\xc0\x02\x19'
    assert der_real(16777215.0) == b'\x80\x00\xff\xff\xff'
    return n + 8
