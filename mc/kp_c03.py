"""Known-finding predicates for C03 (named by known/c03.json).

Every predicate looks only at the *minimal* (shrunk) case.  Two conditions are
always required:
 (a) the attribution computed by mc.der_dev on exactly that case: the
     implementation's bytes are what the independent model produces when ONE
     named deviation is switched on, and nothing else (`emul:<switch>` in the
     failure detail - any further difference makes the case `unexplained` or adds
     a second switch, and then no predicate here matches);
 (b) the shape of the minimal case: the type (through references and tags) is
     the constructor / leaf the defect lives in and the value is of the class
     that triggers it.
"""

from .terms import Leaf, Seq, Cho, Of, Ref, Tag, all_members
from . import absval
from .der_dev import default_class

KINDS = ('model-mismatch', 'equal-values-differ')


def _emul(f):
    d = f.get('detail') or ''
    if 'emul:' not in d:
        return None
    return set(d.split('emul:')[1].split('+'))


def _variant(f):
    d = f.get('detail') or ''
    return d.split(';')[0] if f.get('kind') == 'equal-values-differ' else None


def _strip(t, env):
    n = 0
    while isinstance(t, (Ref, Tag)) and n < 64:
        t = env[t.name] if isinstance(t, Ref) else t.inner
        n += 1
    return t


def _case(f, switch):
    if f.get('kind') not in KINDS or f.get('codec') != 'der':
        return None
    if _emul(f) != {switch}:
        return None
    if '_term' not in f:
        return None
    env = f.get('_env') or {}
    return _strip(f['_term'], env), f['_value'], env


def der_set_additions_after_root(f):
    """SET with a present extension addition and a present root component: the implementation
    writes the root components (tag order) and then the additions (textual order)."""
    c = _case(f, 'set_additions_after_root')
    if c is None or f['kind'] != 'model-mismatch':
        return False
    t, v, env = c
    if not (isinstance(t, Seq) and t.is_set and isinstance(v, dict)):
        return False
    root = {m.name for m in t.root} | {m.name for m in t.root2}
    present = [m.name for m in all_members(t) if m.name in v]
    return any(n in root for n in present) and any(n not in root for n in present)


def der_set_of_elements_in_input_order(f):
    """SET OF with at least two elements given in non-ascending order of their encodings."""
    c = _case(f, 'setof_input')
    if c is None:
        return False
    t, v, env = c
    if not (isinstance(t, Of) and t.is_set and isinstance(v, list) and len(v) >= 2):
        return False
    if f['kind'] == 'equal-values-differ':
        return (_variant(f) or '').startswith('setof-')
    return True


def der_named_bit_string_keeps_trailing_zero_bits(f):
    """BIT STRING with a named bit list and a value whose last bit(s) are 0."""
    c = _case(f, 'named_bits_kept')
    if c is None:
        return False
    t, v, env = c
    if not (isinstance(t, Leaf) and t.kind == 'BITSTRING' and t.named and isinstance(v, tuple) and len(v) == 2):
        return False
    if f['kind'] == 'equal-values-differ':
        return (_variant(f) or '').startswith('named-trailing')
    data, n = v
    if n == 0:
        return False
    last = (bytes(data)[(n - 1) // 8] >> (7 - (n - 1) % 8)) & 1
    return last == 0


def der_sequence_trailing_root_before_additions(f):
    """SEQUENCE with components after the second extension marker: an addition and
    a trailing root component are both present."""
    c = _case(f, 'seq_root2_first')
    if c is None or f['kind'] != 'model-mismatch':
        return False
    t, v, env = c
    if not (isinstance(t, Seq) and not t.is_set and t.root2 and t.adds and isinstance(v, dict)):
        return False
    root2 = {m.name for m in t.root2}
    root = {m.name for m in t.root}
    adds = {m.name for m in all_members(t)} - root - root2
    return bool(set(v) & root2) and bool(set(v) & adds)


def _default_kept(f, cls):
    c = _case(f, 'keep_default:' + cls)
    if c is None:
        return False
    t, v, env = c
    if not (isinstance(t, Seq) and isinstance(v, dict)):
        return False
    hits = [m for m in all_members(t) if m.q == 'D' and default_class(m, env) == cls]
    if not hits:
        return False
    if f['kind'] == 'equal-values-differ':
        return _variant(f) == 'default-explicit'
    numeric = bool(f.get('numeric'))
    return any(m.name in v and absval.eq(m.t, v[m.name], m.default, env, numeric) for m in hits)


def der_default_real_not_omitted(f):
    """x REAL DEFAULT <number>: the parser keeps the default as text, the value equal to it is encoded."""
    return _default_kept(f, 'REAL')


def der_default_object_identifier_not_omitted(f):
    return _default_kept(f, 'OID')


def der_default_choice_not_omitted(f):
    return _default_kept(f, 'CHOICE')


def der_default_sequence_value_not_omitted(f):
    return _default_kept(f, 'SEQ')


def der_default_list_value_not_omitted(f):
    return _default_kept(f, 'OF')


def der_default_boolean_through_reference_not_omitted(f):
    return _default_kept(f, 'REFBOOL')


def der_default_null_not_omitted(f):
    return _default_kept(f, 'NULL')


def der_default_numeric_looking_string_not_omitted(f):
    return _default_kept(f, 'NUMSTR')


def der_real_mantissa_has_leading_zero_octet(f):
    """REAL value whose odd mantissa has a bit length that is a multiple of 8 (255.0, 16777215.0, 1e10)."""
    c = _case(f, 'real_mantissa_padded')
    if c is None or f['kind'] != 'model-mismatch':
        return False
    t, v, env = c
    if not (isinstance(t, Leaf) and t.kind == 'REAL' and isinstance(v, (int, float)) and not isinstance(v, bool)):
        return False
    if v != v or v in (0.0, float('inf'), float('-inf')):
        return False
    num, den = abs(float(v)).as_integer_ratio()
    while num % 2 == 0:
        num //= 2
    return num.bit_length() % 8 == 0


def der_tag_on_reference_to_tagged_choice_made_explicit(f):
    """IMPLICIT / AUTOMATIC TAGS: `[n] T` (no keyword, or an automatic tag) where T is a reference to a
    *tagged* CHOICE type; the minimal case is that tagged type itself or one constructor around it."""
    if f.get('kind') != 'model-mismatch' or f.get('codec') != 'der' or '_term' not in f:
        return False
    if _emul(f) != {'tagged_choice_ref_explicit'} or f.get('tags') not in ('IMPLICIT', 'AUTOMATIC'):
        return False
    env = f.get('_env') or {}

    def tagged_choice_ref(t):
        if not isinstance(t, Ref):
            return False
        u = env.get(t.name)
        n = 0
        while isinstance(u, Ref) and n < 64:
            u = env.get(u.name)
            n += 1
        return isinstance(u, Tag) and isinstance(_strip(u, env), Cho)

    t = f['_term']
    if isinstance(t, Tag) and t.mode == '' and tagged_choice_ref(t.inner):
        return True
    if isinstance(t, (Seq, Cho)) and f.get('tags') == 'AUTOMATIC':
        return any(tagged_choice_ref(m.t) or (isinstance(m.t, Tag) and m.t.mode == '' and tagged_choice_ref(m.t.inner))
                   for m in all_members(t))
    if isinstance(t, Seq):
        return any(isinstance(m.t, Tag) and m.t.mode == '' and tagged_choice_ref(m.t.inner) for m in all_members(t))
    return False
