"""X.680 tagging rules on terms: universal tags, the set of outermost tags a
type can present, tag-distinctness (legality) of SEQUENCE / SET / CHOICE, and
`legalize`, which inserts context tags where a generated term would otherwise be
an illegal program under a non-AUTOMATIC tagging environment."""

from dataclasses import replace
from .terms import Leaf, Seq, Cho, Of, Ref, Tag, M, Grp, all_members

UNIVERSAL = {
    'BOOLEAN': 1, 'INTEGER': 2, 'BITSTRING': 3, 'OCTETSTRING': 4, 'NULL': 5, 'OID': 6,
    'ObjectDescriptor': 7, 'REAL': 9, 'ENUMERATED': 10, 'UTF8String': 12,
    'NumericString': 18, 'PrintableString': 19, 'TeletexString': 20, 'IA5String': 22,
    'UTCTime': 23, 'GeneralizedTime': 24, 'GraphicString': 25, 'VisibleString': 26,
    'GeneralString': 27, 'UniversalString': 28, 'BMPString': 30,
    'DATE': 31, 'TIME-OF-DAY': 32, 'DATE-TIME': 33,
}
CLASS_ORDER = {'UNIVERSAL': 0, 'APPLICATION': 1, '': 2, 'CONTEXT': 2, 'PRIVATE': 3}


def outer_tags(t, env, _seen=()):
    """Set of (class, number) the encoding of t may start with."""
    if isinstance(t, Ref):
        if t.name in _seen:
            return set()
        return outer_tags(env[t.name], env, _seen + (t.name,))
    if isinstance(t, Tag):
        return {(t.cls or 'CONTEXT', t.num)}
    if isinstance(t, Leaf):
        return {('UNIVERSAL', UNIVERSAL[t.kind])}
    if isinstance(t, Seq):
        return {('UNIVERSAL', 17 if t.is_set else 16)}
    if isinstance(t, Of):
        return {('UNIVERSAL', 17 if t.is_set else 16)}
    if isinstance(t, Cho):
        out = set()
        for m in all_members(t):
            out |= outer_tags(m.t, env, _seen)
        if t.ext:
            # an untagged extensible CHOICE may grow any tag in a later version:
            # treat it as colliding with everything so that it is only used
            # where it gets a tag of its own or stands alone
            out.add(ANY)
        return out
    raise TypeError(t)


def auto_tagged(t, mode):
    """True when AUTOMATIC TAGS applies to constructor t (no member tagged textually)."""
    if mode != 'AUTOMATIC':
        return False
    return not any(isinstance(m.t, Tag) for m in all_members(t))


ANY = ('ANY', -1)


def _distinct(sets):
    seen = set()
    n_any = 0
    for s in sets:
        if seen & s:
            return False
        if ANY in s:
            n_any += 1
        seen |= s
    if n_any and len(sets) > 1:
        return False
    return True


def constructor_legal(t, env, mode):
    if auto_tagged(t, mode):
        return True
    ms = all_members(t)
    tags = [outer_tags(m.t, env) for m in ms]
    if isinstance(t, Cho) or (isinstance(t, Seq) and t.is_set):
        return _distinct(tags)
    # SEQUENCE: every run of optional-like components plus the next one must be distinct
    nroot = len(t.root)
    nadds = len(ms) - nroot - len(t.root2)
    optional_like = []
    for i, m in enumerate(ms):
        is_add = nroot <= i < nroot + nadds
        optional_like.append(m.q != 'M' or is_add)
    i = 0
    while i < len(ms):
        if optional_like[i]:
            j = i
            while j < len(ms) and optional_like[j]:
                j += 1
            run = tags[i:j + 1]
            if not _distinct(run):
                return False
            i = j
        else:
            i += 1
    return True


def legalize(t, env, mode):
    """Return t with context tags added to the members of every constructor that
    would otherwise violate tag distinctness in tagging environment `mode`."""
    if isinstance(t, Tag):
        return replace(t, inner=legalize(t.inner, env, mode))
    if isinstance(t, Of):
        return replace(t, elem=legalize(t.elem, env, mode))
    if isinstance(t, (Seq, Cho)):
        def lm(m):
            return replace(m, t=legalize(m.t, env, mode))

        def ladd(a):
            return Grp(tuple(lm(m) for m in a.members)) if isinstance(a, Grp) else lm(a)
        kw = dict(root=tuple(lm(m) for m in t.root), adds=tuple(ladd(a) for a in t.adds))
        if isinstance(t, Seq):
            kw['root2'] = tuple(lm(m) for m in t.root2)
        t = replace(t, **kw)
        if not constructor_legal(t, env, mode):
            used = {m.t.num for m in all_members(t) if isinstance(m.t, Tag) and not m.t.cls}
            nxt = [10]

            seen_tags = set()

            def tagm(m):
                if isinstance(m.t, Tag):
                    key = (m.t.cls, m.t.num)
                    if key not in seen_tags:
                        seen_tags.add(key)
                        return m
                    # a second member with the same textual tag: renumber it
                    while nxt[0] in used:
                        nxt[0] += 1
                    n = nxt[0]
                    nxt[0] += 1
                    return replace(m, t=replace(m.t, num=n, cls=''))
                while nxt[0] in used:
                    nxt[0] += 1
                n = nxt[0]
                nxt[0] += 1
                return replace(m, t=Tag(n, m.t))

            def tadd(a):
                return Grp(tuple(tagm(m) for m in a.members)) if isinstance(a, Grp) else tagm(a)
            kw = dict(root=tuple(tagm(m) for m in t.root), adds=tuple(tadd(a) for a in t.adds))
            if isinstance(t, Seq):
                kw['root2'] = tuple(tagm(m) for m in t.root2)
            t = replace(t, **kw)
        return t
    return t


def program_legal(t, env, mode, _seen=None):
    """Whole-term legality (every constructor)."""
    from .terms import subterms
    for s in subterms(t):
        if isinstance(s, (Seq, Cho)) and not constructor_legal(s, env, mode):
            return False
    return True
