"""Case serialisation helpers shared by the property modules."""

import re
import base64
import pickle
import datetime

from .terms import render_type


def valrepr(v):
    return repr(v)


def parse_value(s):
    return eval(s, {'datetime': datetime, 'inf': float('inf'), 'nan': float('nan'), '__builtins__': {}})


_num = re.compile(r'-?\d+')


def errclass(e):
    """Exception class plus a normalised message head (numbers and quoted text removed)."""
    msg = str(e)
    msg = re.sub(r"'[^']*'", "'_'", msg)
    msg = re.sub(r'b"[^"]*"', "b'_'", msg)
    msg = _num.sub('N', msg)
    return '%s: %s' % (type(e).__name__, msg[:70])


def vclass(v):
    """A coarse class of a value, used only to group failures before shrinking."""
    if isinstance(v, bool):
        return 'bool'
    if v is None:
        return 'null'
    if isinstance(v, int):
        if v < 0:
            return 'int<0/%d' % ((-v).bit_length() // 8)
        return 'int/%d' % (v.bit_length() // 8)
    if isinstance(v, float):
        if v != v or v in (float('inf'), float('-inf')):
            return 'real-special'
        if v == 0:
            return 'real0'
        return 'real-big' if abs(v) > 1e15 else 'real-small' if abs(v) < 1e-15 else 'real'
    if isinstance(v, str):
        n = len(v)
        b = '0' if n == 0 else '1' if n == 1 else 's' if n < 128 else 'm' if n < 16384 else 'l'
        a = 'a' if all(ord(c) < 128 for c in v) else 'u'
        return 'str%s%s' % (b, a)
    if isinstance(v, (bytes, bytearray)):
        n = len(v)
        return 'oct' + ('0' if n == 0 else 's' if n < 128 else 'm' if n < 16384 else 'l')
    if isinstance(v, tuple) and len(v) == 2 and isinstance(v[0], (bytes, bytearray)):
        n = v[1]
        return 'bits' + ('0' if n == 0 else 's' if n < 128 else 'm' if n < 16384 else 'l')
    if isinstance(v, tuple) and len(v) == 2:
        return 'cho:%s(%s)' % (v[0], vclass(v[1]))
    if isinstance(v, list):
        n = len(v)
        return 'list' + ('0' if n == 0 else 's' if n < 128 else 'm' if n < 16384 else 'l')
    if isinstance(v, dict):
        return 'dict{' + ','.join('%s=%s' % (k, vclass(x)) for k, x in sorted(v.items())) + '}'
    return type(v).__name__


def case_fields(unit, name, term, v):
    blob = base64.b64encode(pickle.dumps((referenced(term, unit.env), unit.tags, unit.ext_implied,
                                          name, term, v))).decode()
    return {'spec': unit.spec if len(unit.tops) <= 3 else None, 'type': name,
            'term': render_type(term, unit.env), 'value': valrepr(v)[:2000],
            'tags': unit.tags, 'ext_implied': unit.ext_implied, 'blob': blob}


def rebuild_case(f):
    """Rebuild (unit, name, term, value) for a failure; the unit is re-rendered
    with only the failing type and the helpers it references."""
    from . import space
    env, tags, ei, name, term, v = pickle.loads(base64.b64decode(f['blob']))
    unit = single_unit(term, env, tags, ei)
    return unit, 'T0', term, v


def referenced(term, env, acc=None):
    from .terms import subterms, Ref
    acc = acc if acc is not None else {}
    for s in subterms(term):
        if isinstance(s, Ref) and s.name not in acc:
            acc[s.name] = env[s.name]
            referenced(env[s.name], env, acc)
    return acc


def single_unit(term, env, tags, ei):
    from . import space
    helpers = referenced(term, env)
    return space.make_unit('single', [(term, 'single')], helpers=helpers, tags=tags, ext_implied=ei)


def leaf_components(term, v, env, _depth=0):
    """(leaf term, leaf value) pairs of a composite value."""
    from .terms import Leaf, Seq, Cho, Of, Ref, Tag, all_members
    if _depth > 12:
        return
    if isinstance(term, Ref):
        yield from leaf_components(env[term.name], v, env, _depth + 1)
    elif isinstance(term, Tag):
        yield from leaf_components(term.inner, v, env, _depth + 1)
    elif isinstance(term, Leaf):
        yield term, v
    elif isinstance(term, Seq) and isinstance(v, dict):
        for m in all_members(term):
            if m.name in v:
                yield from leaf_components(m.t, v[m.name], env, _depth + 1)
    elif isinstance(term, Cho) and isinstance(v, tuple):
        for m in all_members(term):
            if m.name == v[0]:
                yield from leaf_components(m.t, v[1], env, _depth + 1)
    elif isinstance(term, Of) and isinstance(v, list):
        seen = set()
        for x in v:
            k = repr(x)
            if k not in seen and len(seen) < 6:
                seen.add(k)
                yield from leaf_components(term.elem, x, env, _depth + 1)


def leafkeys(term, v, env):
    return sorted({(render_type(l), repr(x)[:300]) for l, x in leaf_components(term, v, env)})


def attribute_to_leaf_failures(failures, extra_key=lambda f: (f.get('codec'), f.get('numeric'))):
    """Static attribution: a composite failure one of whose leaf components
    (same leaf term, same value) fails on its own as a top-level L0 case with the
    same kind, codec and options is grouped with that leaf-level failure (which
    is itself triaged and reported).  Returns the number of failures attributed."""
    index = {}
    for f in failures:
        if f.get('layer') == 'L0':
            index[(f['kind'],) + tuple(extra_key(f)) + (f['term'], f['value'][:300])] = f['sig']
    n = 0
    for f in failures:
        if f.get('layer') == 'L0' or not f.get('leafkeys'):
            continue
        for lt, lv in f['leafkeys']:
            sig = index.get((f['kind'],) + tuple(extra_key(f)) + (lt, lv))
            if sig is not None:
                f['sig'] = sig
                f['attributed'] = True
                f['size'] = f.get('size', 0) + 100000     # never the representative
                n += 1
                break
    return n
