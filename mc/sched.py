"""Controlled thread scheduler and CHESS-style iterative preemption bounding.

Real ``threading.Thread`` objects execute the real library code, but only the
holder of the *baton* runs: every thread owns a semaphore and blocks on it
unless it has been handed the baton.  A *schedule point* is

* the start of the execution (which thread runs first),
* every ``line`` event (``sys.settrace``) of a frame whose code lives under the
  traced directory (the asn1tools package), or every ``opcode`` event when
  ``granularity='opcode'``,
* the end of a thread (which of the remaining threads continues).

Points are numbered 0, 1, 2, ... in the order in which they occur.  At a point
the *default* is to let the running thread continue (at a start / end point:
the lowest-numbered unfinished thread).  A *schedule* is a list of deviations
``(point, thread)`` from the default; a deviation at a line point is a
preemption (cost 1), one at a start / end point is free (cost 0) because the
scheduler has to pick somebody anyway.  After the last deviation the execution
runs non-preemptively to completion.  `explore` enumerates every schedule of
cost <= P, cost level by cost level (iterative preemption bounding); a
divergence while a prefix is replayed (another thread, kind or line at the
recorded point than in the parent execution) is a SchedulerError.

The threads are long-lived daemon workers that are reused by successive
executions (thread creation costs more than a controlled execution).

The library under test has no locks, so the baton is the only
synchronisation.  A global horizon (number of points) aborts executions that
do not end; threads are daemons and the controller waits with a wall-clock
backstop that is reported as a machinery error, never as a verdict.
"""

import os
import sys
import threading

WALL_BACKSTOP = 60.0     # seconds; only to keep a broken run from hanging


class SchedulerError(Exception):
    """The machinery failed (divergence while replaying a prefix, hang)."""


class _Abort(BaseException):
    """Raised inside a thread to unwind it when the horizon is passed."""


class Execution:
    """Summary of one controlled execution."""
    __slots__ = ('results', 'n_points', 'running', 'kinds', 'locs', 'finish', 'aborted', 'switches')

    def __init__(self):
        self.results = None      # per thread: whatever the body returned, or ('ABORTED',)
        self.n_points = 0
        self.running = []        # running[p]: thread that continues by default at point p
        self.kinds = []          # kinds[p]: 's' start, 'l' line, 'e' end of a thread
        self.locs = []           # locs[p]: line number at a line point (0 otherwise)
        self.finish = []         # finish[t]: index of thread t's end point
        self.aborted = False
        self.switches = 0

    def trace_key(self):
        return (tuple(self.running), ''.join(self.kinds), tuple(self.locs))


class _Pool:
    """n long-lived daemon threads.  Worker i sleeps on mail[i]; the baton of an
    execution *is* that semaphore, so handing the baton to a thread that has not
    run yet in this execution starts its body.  Creating fresh threads for every
    execution costs more than the execution itself; the threads are as real."""

    def __init__(self, n):
        self.n = n
        self.mail = [threading.Semaphore(0) for _ in range(n)]
        self.sched = None
        self.threads = [threading.Thread(target=self._worker, args=(i,), daemon=True, name='sched-%d' % i)
                        for i in range(n)]
        for t in self.threads:
            t.start()

    def _worker(self, i):
        while True:
            self.mail[i].acquire()
            s = self.sched
            if s is None:
                return
            s._thread(i)


_pools = {}


def _pool(n):
    p = _pools.get((os.getpid(), n))
    if p is None:
        p = _pools[(os.getpid(), n)] = _Pool(n)
    return p


def drop_pools():
    """Forget the worker threads (after a hang, or in a forked child where they do not exist)."""
    _pools.clear()


class Sched:
    def __init__(self, bodies, prefix=(), horizon=20000, tracedir=None, granularity='line'):
        self.bodies = bodies
        self.n = len(bodies)
        self.pool = _pool(self.n)
        self.prefix = list(prefix)
        self.pi = 0
        self.horizon = horizon
        self.tracedir = tracedir
        self.opcode = granularity == 'opcode'
        self.sems = self.pool.mail
        self.all_done = threading.Semaphore(0)
        self.finished = [False] * self.n
        self.x = Execution()
        self.x.results = [None] * self.n
        self.x.finish = [-1] * self.n
        self.aborting = False
        self.error = None
        self._codecache = {}
        self._tracers = [self._make_tracer(i) for i in range(self.n)]

    # -- decisions -------------------------------------------------------------------------------
    def _decide(self, default, kind, lineno, finishing=None):
        """Register a schedule point; returns the thread that runs after it."""
        x = self.x
        p = x.n_points
        x.n_points = p + 1
        x.running.append(default)
        x.kinds.append(kind)
        x.locs.append(lineno)
        if p > self.horizon and not self.aborting:
            self.aborting = True
            x.aborted = True
        if self.pi < len(self.prefix) and self.prefix[self.pi][0] == p:
            ent = self.prefix[self.pi]
            self.pi += 1
            t = ent[1]
            if len(ent) > 2 and ent[2] is not None and ent[2] != (default, kind, lineno):
                self.error = 'divergence at point %d: expected %r, got %r' % (p, ent[2], (default, kind, lineno))
                self.aborting = True
                return default
            if t == default or self.finished[t] or t == finishing:
                self.error = 'divergence at point %d: thread %d is not an enabled alternative' % (p, t)
                self.aborting = True
                return default
            x.switches += 1
            return t
        return default

    def _make_tracer(self, i):
        sched = self
        tracedir = self.tracedir
        cache = self._codecache
        opcode = self.opcode

        def local(frame, event, arg):
            if event == ('opcode' if opcode else 'line'):
                if sched.aborting:
                    raise _Abort()
                t = sched._decide(i, 'l', frame.f_lineno if not opcode else frame.f_lineno * 4096 + frame.f_lasti)
                if sched.aborting:
                    raise _Abort()
                if t != i:
                    sched.sems[t].release()
                    sched.sems[i].acquire()
                    if sched.aborting:
                        raise _Abort()
            return local

        def glob(frame, event, arg):
            code = frame.f_code
            ok = cache.get(code)
            if ok is None:
                ok = cache[code] = code.co_filename.startswith(tracedir)
            if not ok:
                return None
            if opcode:
                frame.f_trace_opcodes = True
                frame.f_trace_lines = False
            return local

        return glob

    # -- threads ---------------------------------------------------------------------------------
    def _thread(self, i):
        try:
            if self.aborting:
                raise _Abort()
            sys.settrace(self._tracers[i])
            try:
                self.x.results[i] = self.bodies[i]()
            finally:
                sys.settrace(None)
        except _Abort:
            self.x.results[i] = ('ABORTED',)
        except BaseException as e:     # the body is expected to catch the library's exceptions itself
            self.x.results[i] = ('BODY-RAISED', type(e).__name__, str(e)[:200])
        finally:
            self.finished[i] = True
            rest = [t for t in range(self.n) if not self.finished[t]]
            if rest:
                nxt = self._decide(rest[0], 'e', 0, finishing=i)
                self.x.finish[i] = self.x.n_points - 1
                self.sems[nxt].release()
            else:
                self.x.finish[i] = self.x.n_points
                self.all_done.release()

    def run(self):
        self.pool.sched = self
        first = self._decide(0, 's', 0)
        self.sems[first].release()
        if not self.all_done.acquire(timeout=WALL_BACKSTOP):
            self.aborting = True
            drop_pools()
            raise SchedulerError('controlled execution did not finish within %.0f s (prefix %r)'
                                 % (WALL_BACKSTOP, [e[:2] for e in self.prefix]))
        if self.error:
            raise SchedulerError(self.error)
        if self.pi != len(self.prefix) and not self.x.aborted:
            raise SchedulerError('divergence: execution ended after %d points, prefix entry %r was not reached'
                                 % (self.x.n_points, self.prefix[self.pi][:2]))
        return self.x


def children(x, prefix, prefix_cost, P):
    """All one-deviation extensions of `prefix` (whose execution is `x`) within the bound."""
    last = prefix[-1][0] if prefix else -1
    n = len(x.finish)
    out = []
    for p in range(last + 1, x.n_points):
        c = 1 if x.kinds[p] == 'l' else 0
        if prefix_cost + c > P:
            continue
        d = x.running[p]
        for t in range(n):
            if t == d:
                continue
            if x.finish[t] <= p:                    # finished before (or finishing at) p
                continue
            out.append((prefix + [(p, t, (d, x.kinds[p], x.locs[p]))], prefix_cost + c))
    return out


def explore(run, P, shard=(0, 1), on_exec=None):
    """Iterative preemption bounding: all schedules of cost 0, then 1, ... up to P.

    `run(prefix)` executes one schedule and returns an Execution.  Level c holds
    the prefixes of cost c; executing one yields its one-deviation extensions:
    free ones (start / end points) stay on level c, preemptions go to level c+1.
    `shard=(k, K)` keeps every K-th prefix of level 1 (offset k) and its
    descendants; level 0 is executed by every shard (its executions are needed to
    enumerate level 1) but reported only by shard 0.  `on_exec(prefix, cost, x)`
    is called for every reported execution; a true return value stops the search.
    Returns statistics."""
    k, K = shard
    stats = {'executions': 0, 'by_cost': {}, 'points_root': 0, 'max_points': 0, 'stopped': False,
             'unreported_level0': 0}
    levels = [[] for _ in range(P + 2)]
    levels[0].append([])
    for c in range(P + 1):
        todo = levels[c]
        if c == 1 and K > 1:
            todo = [pf for i, pf in enumerate(todo) if i % K == k]
        todo.reverse()
        while todo:
            prefix = todo.pop()
            x = run(prefix)
            if not prefix:
                stats['points_root'] = x.n_points
            report = c > 0 or k == 0
            if report:
                stats['executions'] += 1
                stats['by_cost'][c] = stats['by_cost'].get(c, 0) + 1
                if x.n_points > stats['max_points']:
                    stats['max_points'] = x.n_points
                if on_exec and on_exec(prefix, c, x):
                    stats['stopped'] = True
                    return stats
            else:
                stats['unreported_level0'] += 1
            if x.aborted:
                continue
            same = []
            for child, cc in children(x, prefix, c, P):
                if cc == c:
                    same.append(child)
                else:
                    levels[cc].append(child)
            same.reverse()
            todo.extend(same)
        levels[c] = None
    return stats


def package_dir(module):
    return os.path.dirname(os.path.abspath(module.__file__)) + os.sep
