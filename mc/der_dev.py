"""ref_der.Encoder with *switchable deviations*: each switch reproduces one
confirmed defect of asn1tools' DER encoder (see known/c03.json).  Used only to
*attribute* a disagreement between the model and the implementation: when the
implementation's bytes equal the model's bytes under a set of deviations, the
failure is explained exactly by those defects (and by nothing else).  The
verdict itself is always taken against the undeviated model.

Nothing here imports asn1tools.
"""

from . import ref_der, tlv
from .ref_der import bitstring_octets
from .terms import Leaf, Seq, Cho, Of, Ref, Tag, STRING_KINDS

SWITCHES = (
    'set_additions_after_root',  # SET: root components in tag order, then the extension additions in textual order
    #                              (instead of ONE tag order over all components)
    'setof_input',          # SET OF elements in input order
    'named_bits_kept',      # trailing zero bits of a named-bit BIT STRING not removed
    'seq_root2_first',      # SEQUENCE: components after the second marker before the additions
    'tagged_choice_ref_explicit',   # IMPLICIT / AUTOMATIC TAGS: a tag without keyword on a *tagged* CHOICE type
    #                                 (reached through a reference) is made EXPLICIT as if the CHOICE were untagged
    'real_mantissa_padded', # REAL: a 00 octet in front of a mantissa whose bit length is a multiple of 8
    'keep_default:REAL',    # DEFAULT of these classes is mis-parsed, so a default-valued component is encoded
    'keep_default:OID',
    'keep_default:CHOICE',
    'keep_default:SEQ',
    'keep_default:OF',
    'keep_default:REFBOOL',
    'keep_default:NULL',
    'keep_default:NUMSTR',
)
ALL = frozenset(SWITCHES)


def default_class(m, env):
    """Class of a DEFAULT the library's parser is known to store wrongly, or None."""
    t = m.t
    via_ref = False
    n = 0
    while isinstance(t, (Ref, Tag)):
        if isinstance(t, Ref):
            via_ref = True
            t = env[t.name]
        else:
            t = t.inner
        n += 1
        if n > 64:
            return None
    if isinstance(t, Cho):
        return 'CHOICE'
    if isinstance(t, Seq):
        return 'SEQ'
    if isinstance(t, Of):
        return 'OF' if m.default else None
    if isinstance(t, Leaf):
        if t.kind == 'REAL':
            return 'REAL'
        if t.kind == 'OID':
            return 'OID'
        if t.kind == 'NULL':
            return 'NULL'
        if t.kind == 'BOOLEAN' and via_ref:
            return 'REFBOOL'
        if t.kind in STRING_KINDS and isinstance(m.default, str):
            try:
                int(m.default)
                return 'NUMSTR'
            except ValueError:
                return None
    return None


class DevEncoder(ref_der.Encoder):
    """dev: the switches that are on.  After an encoding, `relevant` holds the
    switches that changed (or would have changed) the output."""

    def __init__(self, env, tags='EXPLICIT', ext_implied=False, numeric=False, opts=None, dev=ALL):
        super().__init__(env, tags, ext_implied, numeric, opts)
        self.dev = frozenset(dev)
        self.relevant = set()
        self._static = 0

    def tagset(self, t, _seen=()):
        self._static += 1
        try:
            return super().tagset(t, _seen)
        finally:
            self._static -= 1

    def _choice_behind_tags(self, t):
        n = 0
        while isinstance(t, (Ref, Tag)) and n < 64:
            t = self.env.get(t.name) if isinstance(t, Ref) else t.inner
            n += 1
        return isinstance(t, Cho)

    def explicit(self, tag):
        good = super().explicit(tag)
        if (not good and tag.mode in ('', 'AUTO') and self.tags != 'EXPLICIT'
                and self._choice_behind_tags(tag.inner)):
            if not self._static:
                self.relevant.add('tagged_choice_ref_explicit')
            if 'tagged_choice_ref_explicit' in self.dev:
                return True
        return good

    def order_set_of(self, kids):
        good = super().order_set_of(kids)
        if [id(k) for k in good] != [id(k) for k in kids] and \
                [tlv.serialise(k) for k in good] != [tlv.serialise(k) for k in kids]:
            self.relevant.add('setof_input')
            if 'setof_input' in self.dev:
                return kids
        return good

    def bit_octets(self, t, v):
        good = bitstring_octets(v, bool(t.named))
        if t.named:
            bad = bitstring_octets(v, False)
            if bad != good:
                self.relevant.add('named_bits_kept')
                if 'named_bits_kept' in self.dev:
                    return bad
        return good

    def real_octets(self, v):
        good = ref_der.real_octets(v)
        if len(good) > 1 and good[0] & 0x80:
            nexp = (good[0] & 3) + 1 if good[0] & 3 != 3 else good[1] + 2
            mant = good[1 + nexp:]
            if mant and mant[0] & 0x80:
                self.relevant.add('real_mantissa_padded')
                if 'real_mantissa_padded' in self.dev:
                    return good[:1 + nexp] + b'\x00' + mant
        return good

    def omits_default(self, m, x):
        good = super().omits_default(m, x)
        if good:
            c = default_class(m, self.env)
            if c is not None:
                sw = 'keep_default:' + c
                self.relevant.add(sw)
                if sw in self.dev:
                    return False
        return good

    @staticmethod
    def _impl_order(t, present):
        """root components (before and after the markers), then the additions."""
        root = {m.name for m in t.root} | {m.name for m in t.root2}
        return [p for p in present if p[0].name in root] + [p for p in present if p[0].name not in root]

    def order_sequence(self, t, present):
        bad = self._impl_order(t, present)
        if [p[0].name for p in bad] != [p[0].name for p in present]:
            self.relevant.add('seq_root2_first')
            if 'seq_root2_first' in self.dev:
                return bad
        return present

    def order_set(self, t, ms, present):
        good = super().order_set(t, ms, present)
        root = {m.name for m in t.root} | {m.name for m in t.root2}
        bad = [p for p in good if p[0].name in root] + [p for p in present if p[0].name not in root]
        if [p[0].name for p in bad] != [p[0].name for p in good]:
            self.relevant.add('set_additions_after_root')
            if 'set_additions_after_root' in self.dev:
                return bad
        return good


def explain(term, value, env, tags, ext_implied, numeric, observed):
    """-> sorted list of switches under which the model reproduces `observed`,
    or None when no combination of the relevant switches does."""
    import itertools

    def run(dev):
        out = []
        rel = set()
        for opts in (None, {'set_choice': 'encoded'}, {'auto_root2': 'root-first'},
                     {'set_choice': 'encoded', 'auto_root2': 'root-first'}):
            e = DevEncoder(env, tags, ext_implied, numeric, opts, dev)
            try:
                out.append(tlv.serialise(e.node(term, value)))
            except ref_der.ModelError:
                return [], set()
            rel |= e.relevant
            if not e.touched:
                break
        return out, rel

    out, rel = run(ALL)
    if not rel:
        return None
    if observed in out:
        # every relevant switch changed the output locally, so all of them are needed
        return sorted(rel)
    # the implementation may have lost some of the defects (a repaired tree): try the proper subsets
    rel = sorted(rel)
    if len(rel) > 6:
        return None
    for k in range(1, len(rel)):
        for sub in itertools.combinations(rel, k):
            o2, _ = run(frozenset(sub))
            if observed in o2:
                return list(sub)
    return None
