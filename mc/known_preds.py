"""Narrow structural predicates over *minimal* (shrunk) failure cases, named by
known_findings.json.  A predicate looks only at the minimal case: leaf kind,
constraint shape, value class, codec, failure kind."""
