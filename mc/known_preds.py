"""Narrow structural predicates over *minimal* (shrunk) failure cases, named by
known_findings.json.  A predicate looks only at the minimal case: leaf kind,
constraint shape, value class, codec, failure kind."""

from .terms import (Leaf, Seq, Cho, Of, Ref, Tag, M, Grp, Rng, MIN, MAX, KNOWN_MULT, STRING_KINDS,
                    all_members, resolve, subterms)
from .casefmt import leaf_components
from .tagging import outer_tags


def _live(f):
    return f.get('_term'), f.get('_value'), f.get('_env') or {}


def _leafpairs(f):
    t, v, env = _live(f)
    if t is None:
        return []
    return list(leaf_components(t, v, env))


def _strip(t, env):
    """Strip tags and references."""
    return resolve(t, env)


def _single_leaf(f):
    """(leaf, value) when the minimal case is one leaf (possibly tagged / referenced /
    the only present component of a one-member wrapper), else (None, None)."""
    pairs = _leafpairs(f)
    if len(pairs) == 1:
        return pairs[0]
    return None, None


def _all_terms(f):
    t, v, env = _live(f)
    if t is None:
        return []
    out = []
    seen = set()

    def walk(x):
        for s in subterms(x):
            out.append(s)
            if isinstance(s, Ref) and s.name not in seen and s.name in env:
                seen.add(s.name)
                walk(env[s.name])
    walk(t)
    return out


def _bits_garbage(v):
    if not (isinstance(v, tuple) and len(v) == 2 and isinstance(v[0], (bytes, bytearray)) and isinstance(v[1], int)):
        return False
    data, n = v
    if 8 * len(data) <= n:
        return False
    full, rest = divmod(n, 8)
    if rest and data[full] & (0xff >> rest):
        return True
    return any(data[full + (1 if rest else 0):])


def _len_outside_root(size, n):
    lo = size.lo() or 0
    hi = size.hi()
    return n < lo or (hi is not None and n > hi)


# ---- C01 / shared ---------------------------------------------------------------------

def per_size_extension_not_implemented(f):
    """PER/UPER: BIT STRING or known-multiplier string with an extensible SIZE and a
    value outside the root -> NotImplementedError."""
    if f.get('codec') not in ('per', 'uper') or 'NotImplementedError' not in (f.get('detail') or ''):
        return False
    for l, v in _leafpairs(f):
        if l.size is not None and l.size.ext and (l.kind == 'BITSTRING' or l.kind in KNOWN_MULT):
            n = v[1] if l.kind == 'BITSTRING' else len(v)
            if _len_outside_root(l.size, n):
                return True
    return False


def per_string_extensible_size_broken(f):
    """PER/UPER: known-multiplier string whose SIZE is extensible with a finite upper
    bound: fixed-size roots lose/pad characters, values outside the root raise
    'Odd-length string' / run out of data."""
    if f.get('codec') not in ('per', 'uper'):
        return False
    for l, v in _leafpairs(f):
        if l.kind in KNOWN_MULT and l.size is not None and l.size.ext and l.size.hi() is not None:
            if l.size.lo() == l.size.hi() or _len_outside_root(l.size, len(v)):
                return True
    return False


def per_extensible_constraint_with_min_or_max(f):
    """PER/UPER: an extensible constraint whose root has a MIN or MAX bound raises
    TypeError (None compared with int) on encode."""
    if f.get('codec') not in ('per', 'uper') or 'TypeError' not in (f.get('detail') or ''):
        return False
    for l, v in _leafpairs(f):
        if l.rng is not None and l.rng.ext and (l.rng.lb == MIN or l.rng.ub == MAX):
            return True
        if l.size is not None and l.size.ext and l.size.ub == MAX:
            return True
    return False


def bit_string_value_with_bits_beyond_count(f):
    """A BIT STRING value (bytes, n) whose bytes have non-zero bits after the first n
    bits: the encoders use the surplus bits."""
    if f.get('kind') not in ('roundtrip-mismatch', 'reencode-mismatch', 'decode-raised', 'model-mismatch'):
        return False
    for l, v in _leafpairs(f):
        if l.kind == 'BITSTRING' and _bits_garbage(v):
            return True
    return False


def per_bmp_string_permitted_alphabet(f):
    if f.get('codec') not in ('per', 'uper'):
        return False
    for l, v in _leafpairs(f):
        if l.kind == 'BMPString' and l.alpha is not None and len(v) > 0:
            return True
    return False


def per_single_character_alphabet(f):
    """PER/UPER: FROM with exactly one character (zero bits per character) decodes to ''."""
    if f.get('codec') not in ('per', 'uper') or f.get('kind') != 'roundtrip-mismatch':
        return False
    for l, v in _leafpairs(f):
        if l.kind in KNOWN_MULT and l.alpha is not None and len(l.alpha) == 1 and len(v) > 0:
            return True
    return False


def oer_choice_alternative_without_own_tag(f):
    """OER: a CHOICE alternative that is itself an untagged CHOICE, or a DATE /
    TIME-OF-DAY / DATE-TIME, has no tag in the OER compiler -> TypeError len(None)."""
    if f.get('codec') != 'oer' or f.get('kind') != 'encode-raised' or 'has no len' not in (f.get('detail') or ''):
        return False
    t, v, env = _live(f)
    for s in _all_terms(f):
        if isinstance(s, Cho):
            for m in all_members(s):
                x = m.t
                while isinstance(x, Ref):
                    x = env[x.name]
                if isinstance(x, Cho) or (isinstance(x, Leaf) and x.kind in ('DATE', 'TIME-OF-DAY', 'DATE-TIME')):
                    return True
    return False


_ZERO_WIDTH = ('NULL',)


def _zero_width_per(t, env):
    t = resolve(t, env)
    if isinstance(t, Leaf):
        if t.kind == 'NULL':
            return True
        if t.kind == 'INTEGER' and t.rng is not None and not t.rng.ext and t.rng.lb == t.rng.ub:
            return True
        if t.kind == 'ENUMERATED' and len(t.enum) == 1 and t.enum_adds is None:
            return True
        if t.kind in ('BITSTRING', 'OCTETSTRING') or t.kind in KNOWN_MULT:
            return t.size is not None and not t.size.ext and t.size.lb == 0 and t.size.ub == 0
    return False


def per_addition_group_with_only_zero_width_members(f):
    """PER/UPER: an extension addition group whose present members all encode to zero
    bits is treated as absent and its members are lost."""
    if f.get('codec') not in ('per', 'uper') or f.get('kind') != 'roundtrip-mismatch':
        return False
    t, v, env = _live(f)
    t = resolve(t, env) if t is not None else None
    if not isinstance(t, Seq) or not isinstance(v, dict):
        return False
    for a in t.adds:
        if isinstance(a, Grp):
            present = [m for m in a.members if m.name in v]
            if present and all(_zero_width_per(m.t, env) for m in present) \
                    and all(m.name in v or m.q != 'M' for m in a.members):
                return True
    return False


def ber_absent_optional_shadows_addition_with_same_tag(f):
    """BER/DER: SEQUENCE with an absent OPTIONAL/DEFAULT root member whose tag equals
    the tag of a present extension addition: the lenient member matching gives the
    addition's value to the root member."""
    if f.get('codec') not in ('ber', 'der') or f.get('kind') not in ('roundtrip-mismatch', 'decode-raised'):
        return False
    t, v, env = _live(f)
    t = resolve(t, env) if t is not None else None
    if not isinstance(t, Seq) or not t.adds or not isinstance(v, dict):
        return False
    add_tags = set()
    for a in t.adds:
        for m in (a.members if isinstance(a, Grp) else (a,)):
            if m.name in v:
                add_tags |= outer_tags(m.t, env)
    for m in t.root + t.root2:
        if m.q != 'M' and outer_tags(m.t, env) & add_tags:
            return True
    return False


def _default_members(f):
    t, v, env = _live(f)
    out = []
    for s in _all_terms(f):
        if isinstance(s, Seq):
            for m in all_members(s):
                if m.q == 'D':
                    out.append((m, resolve(m.t, env)))
    return out


def default_string_that_looks_like_a_number(f):
    """DEFAULT "<digits>" on a character string member is converted to an int by the parser."""
    for m, rt in _default_members(f):
        if isinstance(rt, Leaf) and rt.kind in STRING_KINDS and isinstance(m.default, str):
            try:
                float(m.default)
                return True
            except ValueError:
                pass
    return False


def default_of_object_identifier(f):
    for m, rt in _default_members(f):
        if isinstance(rt, Leaf) and rt.kind == 'OID':
            return True
    return False


def default_of_real(f):
    for m, rt in _default_members(f):
        if isinstance(rt, Leaf) and rt.kind == 'REAL':
            return True
    return False


def oer_utf8string_fixed_size_non_ascii(f):
    """OER: UTF8String with a fixed SIZE is written without a length although SIZE counts
    characters, so multi-byte characters are cut."""
    if f.get('codec') != 'oer':
        return False
    for l, v in _leafpairs(f):
        if l.kind == 'UTF8String' and l.size is not None and not l.size.ext and l.size.lb == l.size.ub \
                and isinstance(v, str) and any(ord(c) > 127 for c in v):
            return True
    return False


def oer_choice_alternative_is_recursive_reference(f):
    """OER: a CHOICE alternative that is a reference back into a type being defined
    (compiled as a Recursive placeholder without a tag) -> TypeError len(None)."""
    if f.get('codec') != 'oer' or f.get('kind') != 'encode-raised' or 'has no len' not in (f.get('detail') or ''):
        return False
    t, v, env = _live(f)

    def reaches(name, target, seen):
        if name in seen or name not in env:
            return False
        seen.add(name)
        for s in subterms(env[name]):
            if isinstance(s, Ref) and (s.name == target or reaches(s.name, target, seen)):
                return True
        return False

    for s in _all_terms(f):
        if isinstance(s, Cho):
            for m in all_members(s):
                if isinstance(m.t, Ref) and reaches(m.t.name, m.t.name, set()):
                    return True
    return False
