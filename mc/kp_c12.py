"""Known-finding predicates for C12.  C12 failures are not shrunk (one component
is corrupted in a covering value, which is already small); the predicates use
the structured fields of the failure: corruption, codec, mode, exc_class,
expected_path, observed_path, via (container kinds on the way to the corrupted
component), recursive_refs (type references on a cycle crossed on the way)."""

CHECKER_RAISED_BY_TYPES = ('pytype', 'choice-unknown')


def _collapse(parts):
    out = []
    for p in parts:
        if not out or out[-1] != p:
            out.append(p)
    return out


def typechecker_inserts_type_name_after_recursive_reference(f):
    """check_types reports R.n.R.n.R.v for R ::= SEQUENCE { v ..., n R OPTIONAL }: the
    Recursive wrapper of the type checker adds the referenced type's own name after
    the member that refers to it.  Exactly: the observed path minus the names of the
    recursive types crossed equals the expected path."""
    if f['kind'] != 'wrong-path' or not f['mode'][0] or f['exc_class'] != 'EncodeError':
        return False
    if f['corruption'] not in CHECKER_RAISED_BY_TYPES or not f['recursive_refs']:
        return False
    exp = f['expected_path'].split('.')
    obs = f['observed_path'].split('.')
    if not obs or obs[0] != exp[0]:
        return False
    rec = set(f['recursive_refs'])
    stripped = [obs[0]] + [p for p in obs[1:] if p not in rec]
    return stripped == exp and len(obs) > len(exp)


def add_location_drops_repeated_member_of_recursive_type(f):
    """ErrorWithLocation.add_location skips an element equal to the last one added;
    a recursive type's member object is shared by every unrolling, so R.n.n.v is
    reported as R.n.v (constraints checker and every codec's own errors).  Exactly:
    the observed path is the expected path with adjacent repeats removed, and the
    path crosses a recursive reference."""
    if f['kind'] != 'wrong-path' or not f['recursive_refs']:
        return False
    if f['corruption'] in CHECKER_RAISED_BY_TYPES and f['mode'][0]:
        return False            # raised by check_types: the other finding
    exp = f['expected_path'].split('.')
    obs = f['observed_path'].split('.')
    return obs != exp and _cycle_collapse(exp, obs)


def _cycle_collapse(exp, obs):
    """obs is exp with one or more adjacent repetitions of a block of names removed
    (R.n.n.v -> R.n.v ; RA.b.a.b.a.v -> RA.b.a.v)."""
    if obs == exp:
        return True
    if len(obs) >= len(exp):
        return False
    n = len(exp)
    for k in range(1, n // 2 + 1):
        for i in range(1, n - 2 * k + 1):
            if exp[i:i + k] == exp[i + k:i + 2 * k]:
                if _cycle_collapse(exp[:i + k] + exp[i + 2 * k:], obs):
                    return True
    return False


def unknown_enumerated_value_keyerror(f):
    """PER / UPER / GSER look an ENUMERATED value up in a dict without guarding it:
    an unknown name (or number with numeric_enums) raises KeyError."""
    return (f['kind'] == 'foreign-exception' and f['corruption'] == 'enum-unknown'
            and f['codec'] in ('per', 'uper', 'gser') and f['exc_class'] == 'KeyError')


def _through_addition(f):
    for step in f.get('via', []):
        if step and step[-1].split(':')[0] in ('seq', 'set') and step[-1].split(':')[1] in ('add', 'group'):
            return True
    return False


def error_inside_extension_addition_swallowed(f):
    """encode_additions of BER / DER / PER / UPER / OER wraps the whole addition loop
    in `except EncodeError: pass` (meant for an absent addition): an EncodeError raised
    while encoding a *present* addition (unknown ENUMERATED value, unknown CHOICE
    alternative, missing mandatory member inside it) is swallowed and the addition and
    all later ones are silently left out of the encoding."""
    return (f['kind'] == 'corruption-accepted' and f['codec'] in ('ber', 'der', 'per', 'uper', 'oer')
            and f['corruption'] in ('enum-unknown', 'choice-unknown', 'missing-member')
            and _through_addition(f))
