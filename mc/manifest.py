"""Generates /verif/MANIFEST.json from the table below: python -m mc.manifest"""
import json
import os

VERIF = os.path.dirname(os.path.dirname(os.path.abspath(__file__)))

CHECKS = {
    'C01': dict(
        category='model_checking',
        technique='explicit-state bounded exhaustive enumeration of type terms x boundary values x codecs on the real implementation (stateless exploration, round-trip oracle, deterministic step budget)',
        text='Every type term of the layered program space (L0 leaf alphabet, L0c leaf-in-context, L1 constructors with <=2 deviations, L2 nesting pairs, recursive/shared families) under the listed tagging environments, every boundary value (deviation-bounded products), all five binary codecs and numeric_enums are enumerated completely and round-tripped on the implementation; nothing is sampled. Holds within the stated bounds only.',
        note='Trusts: my term renderer and abstract-value equality (mc/terms.py, mc/absval.py); the reduced member alphabet inside constructors; CPython sys.monitoring for the step budget. Known genuine defects are listed in known_findings.json and matched on shrunk minimal cases.',
        design_ref='DESIGN.md 2 C01'),
}

NOT_YET = {}


def main():
    props = [json.loads(l) for l in open(os.path.join(VERIF, 'properties.jsonl'))]
    checks = []
    na = []
    for p in props:
        pid = p['id']
        if pid in CHECKS:
            c = CHECKS[pid]
            checks.append({
                'property_id': pid,
                'quick_cmd': './check %s --tier quick' % pid,
                'thorough_cmd': './check %s --tier thorough' % pid,
                'evidence_file': 'evidence/%s.json' % pid,
                'replay_cmd_template': './check %s --replay {path}' % pid,
                'engine': 'mc',
                'level_claimed': {'category': c['category'], 'text': c['text'], 'design_ref': c['design_ref']},
                'level_note': c['note'],
                'technique': c['technique'],
            })
        else:
            na.append({'property_id': pid,
                       'reason': NOT_YET.get(pid, 'check not built yet in this round (planned: bounded exhaustive '
                                                  'exploration per DESIGN.md section 2); not claimed until it runs')})
    m = {
        'version': 1,
        'setup_cmd': './setup.sh',
        'hooks': {
            'guard': 'ASN1TOOLS_VERIF',
            'enable': 'no source hooks are needed: checks import asn1tools from /repo\'s working tree (VERIF_REPO) and '
                      'observe it through the public API; ASN1TOOLS_VERIF=1 is exported by ./check for future hooks',
            'baseline_off_cmd': 'cd /repo && /venv/bin/python -m pytest -q -p no:cacheprovider --timeout=900 -n 16',
            'source_commits': [],
            'add_only': True,
        },
        'engines': [{'name': 'mc', 'path': 'mc/', 'serves_properties': sorted(CHECKS),
                     'kind_free_text': 'hand-written explicit-state / stateless bounded exhaustive explorer in Python '
                                       'over the real asn1tools code, with independent reference models'}],
        'checks': checks,
        'not_applicable': na,
        'notes': 'All checks run with /venv/bin/python against /repo\'s current working tree. Known genuine defects: '
                 'known_findings.json. See DESIGN.md.',
    }
    with open(os.path.join(VERIF, 'MANIFEST.json'), 'w') as f:
        json.dump(m, f, indent=1)
    print('MANIFEST.json: %d checks, %d not claimed' % (len(checks), len(na)))


if __name__ == '__main__':
    main()
