"""Generates /verif/MANIFEST.json: python -m mc.manifest

A check is claimed when it is listed in CLAIMED; the level text is the property
module's own docstring (space + oracle) and the level note its ASSUMPTIONS."""
import ast
import json
import os
import re

VERIF = os.path.dirname(os.path.dirname(os.path.abspath(__file__)))

TECHNIQUE = {
    'C01': 'stateless bounded exhaustive enumeration of type terms x boundary values x codecs on the real implementation; round-trip / re-encode oracle; deterministic step budget',
    'C02': 'bounded exhaustive enumeration of type terms x values x {jer,xer} x indents on the implementation; independent strict JSON / XML readers and exact round trip as oracle',
    'C03': 'bounded exhaustive enumeration of terms x values; independent executable X.690 DER model (mc/ref_der) replayed against the implementation on every case, independent TLV re-reader, asn1crypto second opinion',
    'C04': 'exhaustive enumeration of all <= R-rewrite BER re-serialisations (independent TLV library) of every explored encoding; every variant replayed on the real decoder',
    'C05': 'bounded exhaustive enumeration of terms x values; independent executable X.691 model (encoder + decoder, aligned and unaligned) compared bit-for-bit with the implementation on every case',
    'C06': 'bounded exhaustive enumeration of terms x values; independent executable X.696 model (encoder + acceptance decoder) compared byte-for-byte with the implementation on every case',
    'C07': 'explicit-state exploration of the version graph (states = type terms, transitions = legal extension steps, <= S steps) x all values x 7 codecs; projection model pi checked on every (old,new) pair',
    'C08': 'fault enumeration: all short byte strings and all <= E-edit variants of valid encodings, every one decoded under a deterministic step / memory / result-size budget, sentinel battery for statelessness',
    'C09': 'bounded exhaustive enumeration of C-subset modules x all values x all buffer sizes x all <= E-edit inputs; generated C compiled (gcc -std=c99, clang ASan+UBSan) and every trace compared with the Python UPER codec',
    'C10': 'bounded exhaustive enumeration of C-subset modules x all values x all buffer sizes x all <= E-edit inputs x V1/V2 pairs; generated C compiled (gcc -std=c99, clang ASan+UBSan) and every trace compared with the Python OER codec',
    'C11': 'bounded exhaustive enumeration of constrained positions x boundary candidates x codecs x encode/decode path; independent constraint interpreter as model',
    'C12': 'bounded exhaustive enumeration of (term, value, component position, corruption kind, codec); error-class and dotted-path model (mc/ref_paths)',
    'C13': 'explicit-state BFS over compile_dict / pformat-eval / deepcopy histories on the real parsed dictionary, canonical-state deduplication, to fixpoint; differential oracle against a fresh compile on every transition',
    'C14': 'exhaustive enumeration of layout insertions at every token boundary (independent X.680 lexer as the model of what may not change); every relayout parsed by the implementation',
    'C15': 'bounded exhaustive enumeration of (message, tail, every prefix length) x {ber,der}; independent TLV header model',
    'C16': 'fault enumeration: every strict byte prefix of every explored encoding x 5 codecs decoded on the implementation; must raise the library decode error',
    'C17': 'explicit-state BFS over compile_files histories on a real cache directory (canonical directory dump as state); exhaustive SIGKILL crash-point enumeration via strace fault injection; exhaustive single-byte / truncation damage enumeration; uncached compile in a fresh process as model',
    'C18': 'explicit-state BFS over operation histories on one compiled Specification (state = structural graph hash) to fixpoint; stateless exploration of all thread schedules with <= P preemptions under a controlled baton scheduler (sys.settrace) on the real code',
    'C19': 'explicit-state BFS over the arrangement graph of a specification (swap, move+IMPORT, inline, extract, fold); differential behaviour signature over 8 codecs on every edge',
    'C20': 'bounded exhaustive enumeration of terms x values x indents; independent RFC 3641 reader as model; injectivity check of text -> value over each enumerated domain',
}

CATEGORY = {'C08': 'fault_enumeration', 'C16': 'fault_enumeration'}

# properties claimed (each has been run to exit 0 on the unchanged tree)
CLAIMED = ['C01', 'C02', 'C03', 'C04', 'C05', 'C06', 'C07', 'C08', 'C09', 'C10', 'C11', 'C12', 'C13', 'C14', 'C15', 'C16', 'C17', 'C18', 'C19', 'C20']

NOT_CLAIMED_REASON = {}


def _module_facts(pid):
    path = os.path.join(VERIF, 'mc', 'props', pid.lower() + '.py')
    tree = ast.parse(open(path).read())
    doc = ast.get_docstring(tree) or ''
    doc = re.sub(r'\s+', ' ', doc).strip()
    return doc


def main():
    props = [json.loads(l) for l in open(os.path.join(VERIF, 'properties.jsonl'))]
    checks = []
    na = []
    for p in props:
        pid = p['id']
        if pid in CLAIMED:
            doc = _module_facts(pid)
            cat = CATEGORY.get(pid, 'model_checking')
            checks.append({
                'property_id': pid,
                'quick_cmd': './check %s --tier quick' % pid,
                'thorough_cmd': './check %s --tier thorough' % pid,
                'evidence_file': 'evidence/%s.json' % pid,
                'replay_cmd_template': './check %s --replay {path}' % pid,
                'engine': 'mc',
                'level_claimed': {
                    'category': cat,
                    'text': doc + ' Everything inside the stated bounds is enumerated completely (nothing is '
                                  'sampled; VERIF_SEED only rotates the work order); the claim holds within those '
                                  'bounds only. The bounds completed and the measured counts are in the evidence file.',
                    'design_ref': 'DESIGN.md section 2 %s, section 7' % pid},
                'level_note': 'Trusted base and assumptions are listed under "assumptions" in evidence/%s.json (written '
                              'by the check from mc/props/%s.py ASSUMPTIONS): the term renderer / value domains '
                              '(mc/terms.py, mc/values.py), the reference model or differential oracle named in the '
                              'text, CPython sys.monitoring for the deterministic step budget. Genuine defects of '
                              'asn1tools found by this check are listed in known/%s.json (narrow predicates over shrunk '
                              'minimal cases, printed as KNOWN-FINDING lines); repaired ones under "fixed" in '
                              'known_findings.json.' % (pid, pid.lower(), pid.lower()),
                'technique': TECHNIQUE[pid],
            })
        else:
            na.append({'property_id': pid,
                       'reason': NOT_CLAIMED_REASON.get(pid, 'check exists (mc/props/%s.py) but is not yet silent and '
                                                             'fast on the unchanged tree; not claimed until it is'
                                                        % pid.lower())})
    m = {
        'version': 1,
        'setup_cmd': './setup.sh',
        'hooks': {
            'guard': 'ASN1TOOLS_VERIF',
            'enable': 'no source hooks are needed: checks import asn1tools from /repo\'s working tree (VERIF_REPO) and '
                      'observe it through the public API; nondeterminism is owned from outside (sys.monitoring step '
                      'budget, sys.settrace baton scheduler, strace fault injection, PYTHONHASHSEED=0)',
            'baseline_off_cmd': 'cd /repo && /venv/bin/python -m pytest -q -p no:cacheprovider --timeout=900 -n 16',
            'source_commits': [],
            'add_only': True,
        },
        'engines': [{'name': 'mc', 'path': 'mc/', 'serves_properties': sorted(CLAIMED),
                     'kind_free_text': 'hand-written explicit-state / stateless bounded exhaustive explorer in Python '
                                       'over the real asn1tools code, with independent reference models '
                                       '(mc/ref_*.py, mc/tlv*.py, mc/lexer.py), a baton thread scheduler (mc/sched.py), '
                                       'a cache-directory explorer with strace crash injection (mc/cachefs.py) and a '
                                       'generated-C driver under ASan/UBSan (mc/cdriver.py)'}],
        'checks': checks,
        'not_applicable': na,
        'notes': 'All checks run with /venv/bin/python against /repo\'s current working tree (override: VERIF_REPO). '
                 'Known genuine defects: known/*.json + known_findings.json; seeded changes and which check catches '
                 'them: seeded/, DESIGN.md section 7.',
    }
    with open(os.path.join(VERIF, 'MANIFEST.json'), 'w') as f:
        json.dump(m, f, indent=1)
    print('MANIFEST.json: %d checks, %d not claimed' % (len(checks), len(na)))


if __name__ == '__main__':
    main()
