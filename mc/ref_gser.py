"""Independent RFC 3641 (GSER) reader, type-directed by the term.  Does not
import asn1tools.

The library prints `valuename TypeName ::= <Value>`; the wrapper is checked and
stripped, then <Value> must parse completely per RFC 3641 section 3.  White
space: RFC 3641 has sp = *SP, msp = 1*SP; the library's indented layout uses
line feeds and writes `a : v` for CHOICE, so any run of blanks and line feeds is
accepted as sp/msp and sp is allowed around ':' (ledger: unasserted).
"""

import re
import datetime
from .terms import Leaf, Seq, Cho, Of, Ref, Tag, all_members, resolve, STRING_KINDS, enum_numbers


class GserError(Exception):
    pass


_WS = ' \n'
_ident = re.compile(r'[a-z][A-Za-z0-9]*(?:-[A-Za-z0-9]+)*')
_posnum = re.compile(r'[1-9][0-9]*')
_real = re.compile(r'-?(?:[1-9][0-9]*(?:\.[0-9]+)?|0\.[0-9]+)E(?:0|-?[1-9][0-9]*)')
_int = re.compile(r'0|-?[1-9][0-9]*')
_bstr = re.compile(r"'([01]*)'B")
_hstr = re.compile(r"'([0-9A-F]*)'H")
_oid = re.compile(r'(?:0|[1-9][0-9]*)(?:\.(?:0|[1-9][0-9]*))+')


class Reader:
    def __init__(self, text, env):
        self.s = text
        self.i = 0
        self.env = env

    def sp(self):
        while self.i < len(self.s) and self.s[self.i] in _WS:
            self.i += 1

    def msp(self):
        j = self.i
        self.sp()
        if self.i == j:
            raise GserError('white space expected at %d' % j)

    def lit(self, x):
        if not self.s.startswith(x, self.i):
            raise GserError('%r expected at %d, got %r' % (x, self.i, self.s[self.i:self.i + 12]))
        self.i += len(x)

    def rx(self, r, what):
        m = r.match(self.s, self.i)
        if not m:
            raise GserError('%s expected at %d, got %r' % (what, self.i, self.s[self.i:self.i + 16]))
        self.i = m.end()
        return m

    def string(self):
        self.lit('"')
        out = []
        while True:
            if self.i >= len(self.s):
                raise GserError('unterminated string')
            c = self.s[self.i]
            if c == '"':
                if self.s.startswith('""', self.i):
                    out.append('"')
                    self.i += 2
                    continue
                self.i += 1
                return ''.join(out)
            out.append(c)
            self.i += 1

    def value(self, t):
        t = resolve(t, self.env)
        if isinstance(t, Leaf):
            return self.leaf(t)
        if isinstance(t, Seq):
            self.lit('{')
            out = {}
            members = {m.name: m for m in all_members(t)}
            self.sp()
            if self.s.startswith('}', self.i):
                self.i += 1
                return out
            while True:
                name = self.rx(_ident, 'identifier').group(0)
                if name not in members:
                    raise GserError('unknown component %r' % name)
                if name in out:
                    raise GserError('duplicate component %r' % name)
                self.msp()
                out[name] = self.value(members[name].t)
                self.sp()
                if self.s.startswith(',', self.i):
                    self.i += 1
                    self.sp()
                    continue
                self.lit('}')
                return out
        if isinstance(t, Of):
            self.lit('{')
            out = []
            self.sp()
            if self.s.startswith('}', self.i):
                self.i += 1
                return out
            while True:
                out.append(self.value(t.elem))
                self.sp()
                if self.s.startswith(',', self.i):
                    self.i += 1
                    self.sp()
                    continue
                self.lit('}')
                return out
        if isinstance(t, Cho):
            name = self.rx(_ident, 'identifier').group(0)
            members = {m.name: m for m in all_members(t)}
            if name not in members:
                raise GserError('unknown alternative %r' % name)
            self.sp()
            self.lit(':')
            self.sp()
            return (name, self.value(members[name].t))
        raise TypeError(t)

    def leaf(self, l):
        k = l.kind
        if k == 'BOOLEAN':
            if self.s.startswith('TRUE', self.i):
                self.i += 4
                return True
            self.lit('FALSE')
            return False
        if k == 'NULL':
            self.lit('NULL')
            return None
        if k == 'INTEGER':
            return int(self.rx(_int, 'INTEGER').group(0))
        if k == 'ENUMERATED':
            name = self.rx(_ident, 'identifier').group(0)
            root, adds = enum_numbers(l)
            if name not in dict(root + (adds or [])):
                raise GserError('unknown enumeration item %r' % name)
            return name
        if k == 'REAL':
            if self.s.startswith('PLUS-INFINITY', self.i):
                self.i += 13
                return float('inf')
            if self.s.startswith('MINUS-INFINITY', self.i):
                self.i += 14
                return float('-inf')
            m = _real.match(self.s, self.i)
            if m:
                self.i = m.end()
                mant, exp = m.group(0).split('E')
                return float(mant + 'e' + exp)
            self.lit('0')
            return 0.0
        if k == 'OID':
            return self.rx(_oid, 'numeric OID').group(0)
        if k == 'BITSTRING':
            m = _bstr.match(self.s, self.i)
            if m:
                self.i = m.end()
                bits = m.group(1)
                n = len(bits)
                data = int(bits + '0' * (-n % 8), 2).to_bytes((n + 7) // 8, 'big') if n else b''
                return (data, n)
            m = _hstr.match(self.s, self.i)
            if m:
                self.i = m.end()
                h = m.group(1)
                return (bytes.fromhex(h + ('0' if len(h) % 2 else '')), 4 * len(h))
            if l.named and self.s.startswith('{', self.i):
                self.i += 1
                names = dict(l.named)
                setbits = []
                self.sp()
                while not self.s.startswith('}', self.i):
                    nm = self.rx(_ident, 'identifier').group(0)
                    if nm not in names:
                        raise GserError('unknown named bit')
                    setbits.append(names[nm])
                    self.sp()
                    if self.s.startswith(',', self.i):
                        self.i += 1
                        self.sp()
                self.i += 1
                n = max(setbits) + 1 if setbits else 0
                val = bytearray((n + 7) // 8)
                for b in setbits:
                    val[b // 8] |= 0x80 >> (b % 8)
                return (bytes(val), n)
            raise GserError('bit string expected at %d' % self.i)
        if k == 'OCTETSTRING':
            h = self.rx(_hstr, 'hstring').group(1)
            if len(h) % 2:
                raise GserError('odd hstring for OCTET STRING')
            return bytes.fromhex(h)
        if k in STRING_KINDS:
            return self.string()
        if k in ('UTCTime', 'GeneralizedTime', 'DATE', 'TIME-OF-DAY', 'DATE-TIME'):
            return parse_time(k, self.string())
        raise GserError('no GSER rule for ' + k)


def parse_time(kind, s):
    try:
        if kind == 'UTCTime':
            if s.endswith('Z'):
                body = s[:-1]
                if len(body) == 10:
                    return datetime.datetime.strptime(body, '%y%m%d%H%M')
                if len(body) == 12:
                    return datetime.datetime.strptime(body, '%y%m%d%H%M%S')
            raise GserError('UTCTime form ' + s)
        if kind == 'GeneralizedTime':
            m = re.fullmatch(r'(\d{12})(\d\d)?(?:[.,](\d+))?(Z)?', s)
            if not m:
                raise GserError('GeneralizedTime form ' + s)
            base = datetime.datetime.strptime(m.group(1) + (m.group(2) or '00'), '%Y%m%d%H%M%S')
            if m.group(3):
                frac = float('0.' + m.group(3))
                base += datetime.timedelta(microseconds=round(frac * (1e6 if m.group(2) else 60e6)))
            if m.group(4):
                base = base.replace(tzinfo=datetime.timezone.utc)
            return base
        if kind == 'DATE':
            return datetime.date.fromisoformat(s)
        if kind == 'TIME-OF-DAY':
            return datetime.time.fromisoformat(s)
        if kind == 'DATE-TIME':
            return datetime.datetime.fromisoformat(s)
    except ValueError as e:
        raise GserError('time: %s' % e)
    raise GserError(kind)


_wrapper = re.compile(r'([a-z][A-Za-z0-9-]*) ([A-Z][A-Za-z0-9-]*) ::= ')


def read(text, type_name, term, env):
    """Parse the library's GSER output for a top-level type; returns the value."""
    m = _wrapper.match(text)
    if not m:
        raise GserError('value assignment wrapper expected')
    if m.group(2) != type_name or m.group(1) != type_name.lower():
        raise GserError('wrapper names %r %r' % (m.group(1), m.group(2)))
    r = Reader(text, env)
    r.i = m.end()
    v = r.value(term)
    r.sp()
    if r.i != len(text):
        raise GserError('trailing text at %d: %r' % (r.i, text[r.i:r.i + 16]))
    return v


def selftest():
    from .terms import M, Rng
    env = {}
    cases = [
        ('t T ::= TRUE', Leaf('BOOLEAN'), True),
        ('t T ::= -5', Leaf('INTEGER'), -5),
        ('t T ::= "a""b"', Leaf('UTF8String'), 'a"b'),
        ("t T ::= '0101'B", Leaf('BITSTRING'), (b'\x50', 4)),
        ("t T ::= 'AB01'H", Leaf('OCTETSTRING'), b'\xab\x01'),
        ('t T ::= 1.5E0', Leaf('REAL'), 1.5),
        ('t T ::= 0', Leaf('REAL'), 0.0),
        ('t T ::= PLUS-INFINITY', Leaf('REAL'), float('inf')),
        ('t T ::= 1.2.840', Leaf('OID'), '1.2.840'),
        ('t T ::= { a 1, b TRUE }', Seq((M('a', Leaf('INTEGER')), M('b', Leaf('BOOLEAN')))), {'a': 1, 'b': True}),
        ('t T ::= { 1, 2 }', Of(Leaf('INTEGER')), [1, 2]),
        ('t T ::= a:5', Cho((M('a', Leaf('INTEGER')),)), ('a', 5)),
        ('t T ::= {\n  a 1\n}', Seq((M('a', Leaf('INTEGER')),)), {'a': 1}),
    ]
    for text, term, want in cases:
        got = read(text, 'T', term, env)
        assert got == want, (text, got, want)
    for bad, term in [('t T ::= "a"b"', Leaf('UTF8String')), ('t T ::= 1e+300E0', Leaf('REAL')),
                      ('t T ::= true', Leaf('BOOLEAN')), ('t T ::= 05', Leaf('INTEGER'))]:
        try:
            read(bad, 'T', term, env)
        except GserError:
            continue
        raise AssertionError('accepted ' + bad)
    return len(cases) + 4
