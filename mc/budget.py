"""Deterministic step budget: counts PY_START and backward-JUMP events with
sys.monitoring and raises BudgetExceeded (a BaseException, so library code that
catches Exception cannot swallow it) inside the running frame once the limit is
passed.  No wall-clock value enters a verdict.
"""

import sys

_mon = sys.monitoring
TOOL = 4
_state = {'count': 0, 'limit': None, 'active': False}


class BudgetExceeded(BaseException):
    pass


def _on_start(code, offset):
    s = _state
    s['count'] += 1
    if s['limit'] is not None and s['count'] > s['limit']:
        raise BudgetExceeded(s['count'])


def _on_jump(code, src, dst):
    if dst < src:
        s = _state
        s['count'] += 1
        if s['limit'] is not None and s['count'] > s['limit']:
            raise BudgetExceeded(s['count'])


def install():
    if _state['active']:
        return
    _mon.use_tool_id(TOOL, 'verif-budget')
    _mon.register_callback(TOOL, _mon.events.PY_START, _on_start)
    _mon.register_callback(TOOL, _mon.events.JUMP, _on_jump)
    _state['active'] = True


def uninstall():
    if not _state['active']:
        return
    _state['limit'] = None
    _mon.set_events(TOOL, 0)
    _mon.register_callback(TOOL, _mon.events.PY_START, None)
    _mon.register_callback(TOOL, _mon.events.JUMP, None)
    _mon.free_tool_id(TOOL)
    _state['active'] = False


def run(limit, fn, *args, **kwargs):
    """Call fn under a step budget. Returns (result, steps). Raises BudgetExceeded."""
    install()
    s = _state
    s['count'] = 0
    s['limit'] = limit
    _mon.set_events(TOOL, _mon.events.PY_START | _mon.events.JUMP)
    try:
        r = fn(*args, **kwargs)
        return r, s['count']
    finally:
        s['limit'] = None
        _mon.set_events(TOOL, 0)


def steps():
    return _state['count']
