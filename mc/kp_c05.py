"""Known-finding predicates for C05 (and the input-shape detectors they are built on).

`features(term, value, env, tags, ext_implied, codec, numeric)` walks a (type, value)
case and names every *input shape* that is known to trigger a recorded deviation of
asn1tools' PER / UPER codecs from X.691.  A shape is a narrow structural property of
the input (e.g. "INTEGER (lb..MAX) whose offset form differs from the two's-complement
form of the value"), never "the type contains X".

The detectors are used twice:
  * by mc/props/c05.py to group raw failures by root cause before shrinking, and
  * by the predicates below, which are evaluated on the *shrunk* case and accept it only
    when the failure kind fits and the minimal case shows the shape.
A failing case without any known shape matches nothing and is reported as a VIOLATION.
"""

import math

from .terms import (Leaf, Seq, Cho, Of, Ref, Tag, M, Grp, KNOWN_MULT, all_members, enum_numbers)
from . import ref_per, tagging


def _ctx(env, tags, ei, codec, numeric):
    return ref_per.Ctx(env, tags, ei, codec == 'per', numeric, ref_per.Policy())


def _bits(t, v, ctx):
    w = ref_per.Writer(ctx.aligned)
    ref_per.enc(t, v, w, ctx)
    return w


def _is_empty(t, v, ctx):
    try:
        if _bits(t, v, ctx).nbits() == 0:
            return True
    except Exception:
        return False
    # unasserted rule "EXTENSIBILITY IMPLIED makes ENUMERATED extensible" (ref_per.LEDGER): the model also admits
    # the encoding without the implied extension bit, and that one may be empty
    if getattr(ctx, 'ei', False):
        r, n = t, 0
        while isinstance(r, (Ref, Tag)) and n < 30:
            r = ctx.env.get(r.name) if isinstance(r, Ref) else r.inner
            n += 1
        if isinstance(r, Leaf) and r.kind == 'ENUMERATED' and r.enum_adds is None:
            try:
                plain = ref_per.Ctx(ctx.env, ctx.tags, False, ctx.aligned, ctx.numeric, ref_per.Policy())
                return _bits(t, v, plain).nbits() == 0
            except Exception:
                return False
    return False


def _open_type_octets(t, v, ctx):
    try:
        return (_bits(t, v, ctx).nbits() + 7) // 8
    except Exception:
        return 0


def _own_tag(t, env):
    """Does the implementation see a tag on this member type? (a textual tag, or a
    reference to a type that carries one)"""
    seen = 0
    while isinstance(t, Ref) and seen < 30:
        t = env[t.name]
        seen += 1
    return isinstance(t, Tag)


def features(term, value, env, tags='EXPLICIT', ext_implied=False, codec='per', numeric=False):
    ctx = _ctx(env, tags, ext_implied, codec, numeric)
    aligned = codec == 'per'
    feats = set()

    def size_feats(l_size, n, kind):
        lb, ub, ext = ref_per.size_bounds(l_size)
        if ext:
            if ub is None:
                feats.add('ext-root-min-max')
            if not (lb <= n and (ub is None or n <= ub)):
                feats.add('ext-size-outside-root:' + kind)
                if n >= 16384 and kind == 'OCTETSTRING':
                    feats.add('ext-outside-root-16k')
        return lb, ub, ext

    def leaf(l, v):
        k = l.kind
        if k == 'INTEGER' and isinstance(v, int):
            lb, ub, ext = ref_per.int_bounds(l)
            if l.rng is not None and ext and (lb is None or ub is None):
                feats.add('ext-root-min-max')
            elif lb is not None and ub is None and v >= lb:
                a = ref_per.Writer(False)
                ref_per.put_semi(a, v, lb)
                b = ref_per.Writer(False)
                ref_per.put_unconstrained(b, v)
                if a.complete() != b.complete():
                    feats.add('semi-constrained-int')
        elif k == 'ENUMERATED':
            root, adds = enum_numbers(l)
            col = 1 if numeric else 0
            if adds:
                for i, item in enumerate(adds):
                    if item[col] == v and i >= 64 and aligned:
                        feats.add('small-number>=64-aligned')
            if len(root) >= 256 and aligned:
                feats.add('enum-root>=256-aligned')
        elif k == 'REAL' and isinstance(v, (int, float)) and not isinstance(v, bool):
            x = float(v)
            if x == x and x not in (0.0, float('inf'), float('-inf')):
                m, e = math.frexp(abs(x))
                mant = int(m * (1 << 53))
                while mant & 1 == 0:
                    mant >>= 1
                if mant.bit_length() % 8 == 0:
                    feats.add('real-mantissa-octets')
        elif k == 'BITSTRING' and isinstance(v, tuple) and len(v) == 2:
            data, n = v
            try:
                val, n2 = ref_per.bit_value(l, v)
            except Exception:
                return
            size_feats(l.size, n2, 'BITSTRING')
            if l.named:
                size_feats(l.size, n, 'BITSTRING')      # the implementation tests the untrimmed length
                full = int.from_bytes(bytes(data), 'big')
                surplus = full & ((1 << (8 * len(data) - n)) - 1) if 8 * len(data) > n else 0
                if surplus:
                    feats.add('bits-beyond-count')
        elif k == 'OCTETSTRING' and isinstance(v, (bytes, bytearray)):
            size_feats(l.size, len(v), 'OCTETSTRING')
        elif k in KNOWN_MULT and isinstance(v, str):
            lb, ub, ext = ref_per.size_bounds(l.size)
            n = len(v)
            if k == 'UniversalString':
                if l.alpha is not None or ext or (ub is not None and ub < 65536):
                    feats.add('universalstring-constrained')
                return
            size_feats(l.size, n, 'STRING')
            try:
                al = ref_per.Alphabet(k, l.alpha, aligned)
            except Exception:
                return
            if (aligned and not ext and ub is not None and ub < 65536 and lb != ub and ub > 1 and n > 0
                    and ub * al.b < 16):
                feats.add('kms-var-packed')
            if aligned and ext and ub is not None and ub < 65536 and lb != ub and ub > 1 and 0 < n and lb <= n <= ub \
                    and ub * al.b < 16:
                feats.add('kms-var-packed')
            if l.alpha is not None:
                if al.n == 1:
                    feats.add('alpha-single-char')
                if k == 'BMPString':
                    feats.add('bmp-permitted-alphabet')
                # re-indexing rule: the implementation decides by the size of the unconstrained
                # alphabet (per) or always re-indexes (uper) instead of comparing the largest
                # character value with 2^b - 1
                if al.asis and n > 0:
                    feats.add('alpha-not-reindexed')
                # NumericString in the ALIGNED variant with 5..11 permitted characters (4 bits): the
                # implementation keeps the index in " 0123456789" because 11 < 2^4, X.691 27.5.6 b)
                # re-indexes (the ISO 646 value of the largest character exceeds 15)
                if k == 'NumericString' and aligned and al.b == 4 and not al.asis:
                    native = {c: i for i, c in enumerate(ref_per.NUMERIC)}
                    if any(native.get(c) != al.index.get(c) for c in v):
                        feats.add('alpha-native-index')

    def walk(t, v, in_of):
        if isinstance(t, Ref):
            return walk(env[t.name], v, False)
        if isinstance(t, Tag):
            return walk(t.inner, v, in_of)
        if isinstance(t, Leaf):
            return leaf(t, v)
        if isinstance(t, Of):
            if not isinstance(v, list):
                return
            lb, ub, ext = ref_per.size_bounds(t.size)
            if ext and ub is None:
                feats.add('ext-root-min-max')
            elif ext and not (lb <= len(v) <= ub) and len(v) >= 16384:
                feats.add('ext-outside-root-16k')
            if aligned and len(v) > 16384:
                # a further fragment follows the first 16K elements; is its length determinant at an octet boundary
                # by itself (every element a whole number of octets), or only if the encoder aligns it?
                try:
                    if any(_bits(t.elem, x, ctx).nbits() % 8 for x in v[:6]):
                        feats.add('fragment-after-unaligned-elements')
                except Exception:
                    pass
            seen = set()
            for x in v:
                r = repr(x)
                if r in seen:
                    continue
                seen.add(r)
                if len(seen) > 8:
                    break
                walk(t.elem, x, True)
            return
        if isinstance(t, Seq):
            if not isinstance(v, dict):
                return
            if ext_implied and in_of and not t.ext:
                feats.add('ei-nested-in-of')
            root = list(t.root) + list(t.root2)
            if t.is_set and len(root) >= 2 and not tagging.auto_tagged(t, tags) \
                    and not all(_own_tag(m.t, env) for m in root):
                feats.add('set-untagged-member')
            for m in all_members(t):
                # shapes of the shared parser findings KF-DEFAULT-* (known/c01.json): the parser keeps the
                # DEFAULT of these component types in a representation the codecs do not use
                if m.q == 'D':
                    rt = m.t
                    n = 0
                    while isinstance(rt, (Ref, Tag)) and n < 30:
                        rt = env[rt.name] if isinstance(rt, Ref) else rt.inner
                        n += 1
                    if isinstance(rt, Leaf):
                        if rt.kind == 'OID':
                            feats.add('default-oid')
                        elif rt.kind == 'REAL':
                            feats.add('default-real')
                        elif rt.is_string() and isinstance(m.default, str):
                            try:
                                float(m.default)
                                feats.add('default-numeric-looking-string')
                            except ValueError:
                                pass
            ext = t.ext or ext_implied
            present_adds = 0
            for a in t.adds:
                if isinstance(a, Grp):
                    named = [m for m in a.members if m.name in v]
                    if named:
                        present_adds += 1
                        try:
                            w = ref_per.Writer(aligned)
                            ref_per.enc_components(list(a.members), v, w, ctx, 'group')
                            if (w.nbits() + 7) // 8 >= 16384:
                                feats.add('open-type>=16k')
                            nopt = sum(1 for m in a.members if m.q in ('O', 'D'))
                            if w.nbits() == nopt and not any(w.buf) and not w.acc:
                                feats.add('group-zero-width')
                            elif ext_implied:
                                # the same under the unasserted rule that EXTENSIBILITY IMPLIED does not reach
                                # ENUMERATED (no implied extension bit inside the group)
                                plain = ref_per.Ctx(env, tags, False, aligned, numeric, ref_per.Policy())
                                w2 = ref_per.Writer(aligned)
                                ref_per.enc_components(list(a.members), v, w2, plain, 'group')
                                if w2.nbits() == nopt and not any(w2.buf) and not w2.acc:
                                    feats.add('group-zero-width')
                        except Exception:
                            pass
                elif a.name in v:
                    present_adds += 1
                    if _is_empty(a.t, v[a.name], ctx):
                        feats.add('empty-open-type')
                    if _open_type_octets(a.t, v[a.name], ctx) >= 16384:
                        feats.add('open-type>=16k')
            if present_adds and aligned and len(t.adds) > 64:
                feats.add('small-length>64-aligned')
            if present_adds and len(t.adds) > 127:
                feats.add('additions>127')
            for m in all_members(t):
                if m.name in v:
                    walk(m.t, v[m.name], in_of)     # (nothing below a list element gets the implied marker)
            return
        if isinstance(t, Cho):
            if not (isinstance(v, tuple) and len(v) == 2):
                return
            if ext_implied and in_of and not t.ext:
                feats.add('ei-nested-in-of')
            try:
                root, adds = ref_per.cho_parts(t, ctx)
            except Exception:
                root, adds = list(t.root), []
            for i, m in enumerate(root):
                if m.name == v[0]:
                    if [x.name for x in t.root].index(m.name) != i:
                        feats.add('choice-canonical-order')
                    walk(m.t, v[1], in_of)
            for i, m in enumerate(adds):
                if m.name == v[0]:
                    if i >= 64 and aligned:
                        feats.add('small-number>=64-aligned')
                    if _is_empty(m.t, v[1], ctx):
                        feats.add('empty-open-type')
                    if _open_type_octets(m.t, v[1], ctx) >= 16384:
                        feats.add('open-type>=16k')
                    walk(m.t, v[1], False)
            return

    try:
        if _is_empty(term, value, ctx):
            feats.add('empty-outermost')
        walk(term, value, False)
    except Exception:
        pass
    return feats


def type_features(term, env, tags='EXPLICIT', ext_implied=False, numeric=False):
    """Shapes of the *type* alone (for failures to compile)."""
    feats = set()
    seen = set()

    def walk(t):
        if isinstance(t, Ref):
            if t.name not in seen and t.name in env:
                seen.add(t.name)
                walk(env[t.name])
        elif isinstance(t, Tag):
            walk(t.inner)
        elif isinstance(t, Of):
            walk(t.elem)
        elif isinstance(t, (Seq, Cho)):
            if isinstance(t, Seq) and t.is_set:
                root = list(t.root) + list(t.root2)
                if len(root) >= 2 and not tagging.auto_tagged(t, tags) and not all(_own_tag(m.t, env) for m in root):
                    feats.add('set-untagged-member')
            for m in all_members(t):
                if numeric and isinstance(t, Seq) and m.q == 'D':
                    rt = m.t
                    n = 0
                    while isinstance(rt, (Ref, Tag)) and n < 30:
                        rt = env[rt.name] if isinstance(rt, Ref) else rt.inner
                        n += 1
                    if isinstance(rt, Leaf) and rt.kind == 'ENUMERATED' and rt.enum_adds is not None:
                        feats.add('default-extensible-enum-numeric')
                walk(m.t)
    walk(term)
    return feats


# ---------------------------------------------------------------------------
# predicates (evaluated on the shrunk failure)

def _feats(f):
    if '_term' not in f:
        return set()
    v = f['_value']
    if f.get('numeric'):
        # the shrinker keeps ENUMERATED values as names; the run (and the model) used numbers
        try:
            from .values import to_numeric
            v = to_numeric(f['_term'], v, f['_env'])
        except Exception:
            pass
    return features(f['_term'], v, f['_env'], f.get('tags', 'EXPLICIT'), f.get('ext_implied', False),
                    f.get('codec', 'per'), f.get('numeric', False))


ENC = ('encoding-differs',)
DEC = ('decode-of-model-encoding-raised', 'decode-of-model-encoding-differs')
ANY = ENC + DEC + ('encode-raised',)


def _has(f, feat, kinds):
    return f.get('kind') in kinds and feat in _feats(f)


def c05_empty_outermost_encoding(f):
    return _has(f, 'empty-outermost', ENC + DEC)


def c05_empty_open_type(f):
    return _has(f, 'empty-open-type', ENC + DEC)


def c05_group_zero_width(f):
    return _has(f, 'group-zero-width', ENC + DEC)


def c05_semi_constrained_integer(f):
    return _has(f, 'semi-constrained-int', ENC + DEC)


def c05_extensible_root_with_min_or_max(f):
    return f.get('kind') == 'encode-raised' and 'TypeError' in (f.get('detail') or '') and 'ext-root-min-max' in _feats(f)


def c05_size_extension_not_implemented(f):
    """BIT STRING / known-multiplier string, extensible SIZE, length outside the root: NotImplementedError
    (per, and uper BIT STRING); the uper string codec writes extension bit 0 and a root-style length."""
    fs = _feats(f)
    if not any(x.startswith('ext-size-outside-root:') and not x.endswith('OCTETSTRING') for x in fs):
        return False
    if f.get('kind') == 'encode-raised':
        return 'NotImplementedError' in (f.get('detail') or '') or \
            (f.get('codec') == 'uper' and 'ext-size-outside-root:STRING' in fs)
    return f.get('codec') == 'uper' and 'ext-size-outside-root:STRING' in fs and f.get('kind') in ENC + DEC


def c05_extension_length_not_fragmented(f):
    return _has(f, 'ext-outside-root-16k', ANY)


def c05_open_type_length_not_fragmented(f):
    return _has(f, 'open-type>=16k', ANY)


def c05_fragment_length_not_aligned(f):
    return f.get('codec') == 'per' and _has(f, 'fragment-after-unaligned-elements', ANY)


def c05_choice_index_textual_order(f):
    return _has(f, 'choice-canonical-order', ENC + DEC)


def c05_set_untagged_member_typeerror(f):
    if f.get('kind') != 'compile-raised-foreign' or 'TypeError' not in (f.get('detail') or '') or '_term' not in f:
        return False
    return 'set-untagged-member' in type_features(f['_term'], f['_env'], f.get('tags', 'EXPLICIT'),
                                                  f.get('ext_implied', False))


def c05_default_extensible_enum_numeric_enums(f):
    if f.get('kind') != 'compile-raised-foreign' or 'TypeError' not in (f.get('detail') or '') or '_term' not in f:
        return False
    return f.get('numeric') and 'default-extensible-enum-numeric' in type_features(
        f['_term'], f['_env'], f.get('tags', 'EXPLICIT'), f.get('ext_implied', False), True)


def c05_small_number_not_aligned(f):
    return f.get('codec') == 'per' and (_has(f, 'small-number>=64-aligned', ENC + DEC)
                                        or _has(f, 'small-length>64-aligned', ENC + DEC))


def c05_enum_root_index_not_aligned(f):
    return f.get('codec') == 'per' and _has(f, 'enum-root>=256-aligned', ENC + DEC)


def c05_more_than_127_additions(f):
    return f.get('kind') == 'encode-raised' and 'NotImplementedError' in (f.get('detail') or '') \
        and 'additions>127' in _feats(f)


def c05_universalstring_constraints_ignored(f):
    return _has(f, 'universalstring-constrained', ANY)


def c05_known_multiplier_alignment(f):
    return f.get('codec') == 'per' and _has(f, 'kms-var-packed', ENC + DEC)


def c05_real_mantissa_leading_zero_octet(f):
    return _has(f, 'real-mantissa-octets', ENC)


def c05_named_bits_beyond_count(f):
    return _has(f, 'bits-beyond-count', ENC + DEC)


def c05_extensibility_implied_not_nested(f):
    return _has(f, 'ei-nested-in-of', ENC + DEC)


def c05_permitted_alphabet_reindexing(f):
    return _has(f, 'alpha-not-reindexed', ANY) or (f.get('codec') == 'per' and _has(f, 'alpha-native-index', ENC + DEC))


def c05_bmp_permitted_alphabet(f):
    return _has(f, 'bmp-permitted-alphabet', ANY)


def c05_single_character_alphabet(f):
    return _has(f, 'alpha-single-char', DEC)
