"""Known-finding predicates for C02 (minimal cases only)."""
from .casefmt import leaf_components


def xer_carriage_return_not_escaped(f):
    """XER, round trip differs, the minimal value is a single character string that
    contains U+000D and the decoded value is that string with CR -> LF (CRLF -> LF)."""
    if f.get('codec') != 'xer' or f.get('kind') != 'roundtrip-mismatch':
        return False
    t, v, env = f.get('_term'), f.get('_value'), f.get('_env') or {}
    if t is None:
        return False
    pairs = list(leaf_components(t, v, env))
    if len(pairs) != 1:
        return False
    leaf, s = pairs[0]
    if not isinstance(s, str) or '\r' not in s:
        return False
    normalised = s.replace('\r\n', '\n').replace('\r', '\n')
    return (f.get('detail') or '') == repr(normalised)[:200]
