"""Known-finding predicates for C02 (minimal cases only)."""


def _norm_cr(v):
    """The value with every CR / CRLF inside character strings replaced by LF, and whether
    anything changed."""
    if isinstance(v, str):
        n = v.replace('\r\n', '\n').replace('\r', '\n')
        return n, n != v
    if isinstance(v, list):
        xs = [_norm_cr(x) for x in v]
        return [x for x, _ in xs], any(c for _, c in xs)
    if isinstance(v, tuple):
        xs = [_norm_cr(x) for x in v]
        return tuple(x for x, _ in xs), any(c for _, c in xs)
    if isinstance(v, dict):
        xs = {k: _norm_cr(x) for k, x in v.items()}
        return {k: x for k, (x, _) in xs.items()}, any(c for _, c in xs.values())
    return v, False


def xer_carriage_return_not_escaped(f):
    """XER, round trip differs, and the decoded value is exactly the encoded value with
    CR -> LF (CRLF -> LF) inside its character strings - nothing else differs."""
    if f.get('codec') != 'xer' or f.get('kind') != 'roundtrip-mismatch':
        return False
    v = f.get('_value')
    if v is None:
        return False
    normalised, changed = _norm_cr(v)
    return changed and (f.get('detail') or '') == repr(normalised)[:4000]
