"""Explicit-state breadth-first exploration of operation histories on one real
mutable object (DESIGN Appendix E.4), used by C13 on a parsed specification
dictionary.

A state is snapshotted with pickle (faithful for the plain dict / list / tuple /
str / int / bytes / None objects the parser emits, and it preserves both dict
insertion order and aliasing between containers, which repr does not show), and
identified by `canon`, a serialisation that keeps insertion order and marks
aliased containers.  `canon_sorted` is the coarser identity named in DESIGN
Appendix B (dict keys sorted, aliasing ignored); both counts are reported.
"""

import pickle
from collections import deque


def canon(x):
    """Order-preserving serialisation; a dict or list object met a second time is
    written as a back reference, so two states with equal text have the same
    shape, the same key order and the same sharing."""
    seen = {}
    out = []

    def walk(v):
        if isinstance(v, dict):
            i = seen.get(id(v))
            if i is not None:
                out.append('#%d' % i)
                return
            seen[id(v)] = len(seen)
            out.append('{')
            for k, w in v.items():
                out.append(repr(k))
                out.append(':')
                walk(w)
                out.append(',')
            out.append('}')
        elif isinstance(v, list):
            i = seen.get(id(v))
            if i is not None:
                out.append('#%d' % i)
                return
            seen[id(v)] = len(seen)
            out.append('[')
            for w in v:
                walk(w)
                out.append(',')
            out.append(']')
        elif isinstance(v, tuple):
            out.append('(')
            for w in v:
                walk(w)
                out.append(',')
            out.append(')')
        else:
            out.append(type(v).__name__ if not isinstance(v, (str, int, bytes, float, bool, type(None)))
                       else '')
            out.append(repr(v))

    walk(x)
    return ''.join(out)


def canon_sorted(x):
    """repr with dict keys sorted (DESIGN Appendix B)."""
    if isinstance(x, dict):
        return '{' + ','.join(repr(k) + ':' + canon_sorted(x[k]) for k in sorted(x, key=repr)) + '}'
    if isinstance(x, list):
        return '[' + ','.join(canon_sorted(v) for v in x) + ']'
    if isinstance(x, tuple):
        return '(' + ','.join(canon_sorted(v) for v in x) + ',)'
    return repr(x)


class Exploration:
    def __init__(self):
        self.states = 0            # distinct states (order + aliasing aware)
        self.states_sorted = 0     # distinct states under the coarser identity
        self.transitions = 0
        self.fixpoint = True
        self.depth = 0             # deepest level at which a new state appeared
        self.violations = []       # (history, op, payload)
        self.replayed_steps = 0    # operations re-executed to rebuild a history on one object


def explore(init_obj, ops, apply_op, invariant, max_depth, same_object=True):
    """BFS.  apply_op(op, obj) -> (obj', result); invariant(op, result, hist) ->
    None | payload.  A state is expanded once.

    same_object=True (default): every transition is executed by replaying the
    whole history that first reached the state, then the operation, on ONE object
    (a fresh copy of the initial object that is then never copied again except by
    the operations themselves).  State that the implementation keeps *about* the
    object rather than *in* it - a memo keyed on the object's identity, a
    module-level "last compiled" slot - therefore lives through the history
    exactly as it does for a caller.  With same_object=False every operation is
    applied to a fresh unpickled snapshot of the state (cheaper, but identity-bound
    state is lost at every step)."""
    ex = Exploration()
    k0 = canon(init_obj)
    seen = {k0}
    seen_sorted = {canon_sorted(init_obj)}
    init_blob = pickle.dumps(init_obj, 4)
    frontier = deque([(init_blob, ())])
    while frontier:
        blob, hist = frontier.popleft()
        if len(hist) >= max_depth:
            ex.fixpoint = False
            continue
        for op in ops:
            if same_object and hist:
                obj = pickle.loads(init_blob)
                for h in hist:
                    obj, _ = apply_op(h, obj)
                    ex.replayed_steps += 1
            else:
                obj = pickle.loads(blob)
            obj2, result = apply_op(op, obj)
            ex.transitions += 1
            bad = invariant(op, result, hist)
            if bad is not None:
                ex.violations.append((hist, op, bad))
            k = canon(obj2)
            if k not in seen:
                seen.add(k)
                seen_sorted.add(canon_sorted(obj2))
                ex.depth = max(ex.depth, len(hist) + 1)
                frontier.append((pickle.dumps(obj2, 4), hist + (op,)))
    ex.states = len(seen)
    ex.states_sorted = len(seen_sorted)
    return ex
