"""Known-finding predicates for C06 (OER byte-exactness).  Each predicate looks at
the *shrunk* failure: its live term/value (`_term`, `_value`, `_env`), the kind,
the model rule at the point of divergence (`rule`) and the detail text.  They are
narrow on purpose: a predicate names the input shape that triggers one specific
defect of asn1tools/codecs/oer.py, so a different deviation in the same type
family is still reported as a VIOLATION."""

from .terms import Leaf, Seq, Cho, Of, Ref, Tag, Grp, all_members, resolve
from . import ref_oer


def _live(f):
    return f.get('_term'), f.get('_value'), f.get('_env') or {}


def _walk(t, v, env, depth=0):
    """(structural term, value) pairs along the value, outermost first."""
    if depth > 30:
        return
    t = resolve(t, env)
    yield t, v
    if isinstance(t, Seq) and isinstance(v, dict):
        for m in all_members(t):
            if m.name in v:
                yield from _walk(m.t, v[m.name], env, depth + 1)
    elif isinstance(t, Cho) and isinstance(v, tuple) and len(v) == 2:
        for m in all_members(t):
            if m.name == v[0]:
                yield from _walk(m.t, v[1], env, depth + 1)
    elif isinstance(t, Of) and isinstance(v, list):
        for x in v[:8]:
            yield from _walk(t.elem, x, env, depth + 1)


def _untagged(t, env):
    """Structural type of t if no Tag is met on the way (through references), else None."""
    n = 0
    while isinstance(t, Ref) and n < 50:
        t = env[t.name]
        n += 1
    return None if isinstance(t, Tag) else t


def _auto(t, f):
    from .tagging import auto_tagged
    return auto_tagged(t, f.get('tags', 'EXPLICIT'))


# ---------------------------------------------------------------------------

def kf_c06_group_flattened(f):
    """SEQUENCE/SET with an extension addition group that has >= 2 components or an
    OPTIONAL/DEFAULT component, a component of the group being present: the
    implementation gives every component its own bitmap bit and its own length
    instead of one SEQUENCE-valued addition."""
    if f['kind'] not in ('both-deviate', 'encoder-deviates', 'decoder-deviates'):
        return False
    t, v, env = _live(f)
    if t is None:
        return False
    for node, val in _walk(t, v, env):
        if isinstance(node, Seq) and isinstance(val, dict):
            for a in node.adds:
                if isinstance(a, Grp) and (len(a.members) > 1 or any(m.q != 'M' for m in a.members)) \
                        and any(m.name in val for m in a.members):
                    return True
    return False


def _flat_additions(node):
    return sum(len(a.members) if isinstance(a, Grp) else 1 for a in node.adds)


def kf_c06_bitmap_unused_bits_8(f):
    """SEQUENCE/SET whose number of extension additions (as the implementation counts
    them: group components individually) is a multiple of 8, an addition being
    present: the unused-bits octet of the presence bitmap is written as 8."""
    if f['kind'] not in ('both-deviate', 'encoder-deviates') or 'unused-bits octet is 8' not in f['detail']:
        return False
    t, v, env = _live(f)
    if t is None:
        return False
    for node, val in _walk(t, v, env):
        if isinstance(node, Seq) and isinstance(val, dict) and node.adds:
            n = _flat_additions(node)
            present = any((m.name in val) for a in node.adds for m in (a.members if isinstance(a, Grp) else (a,)))
            if n % 8 == 0 and present:
                return True
    return False


def _fixed_string_leaf(f, kinds, rules):
    """The minimal case is a string of one of `kinds` with a fixed non-extensible SIZE
    (on its own, or -- when only the DEFAULT-present variant shows the deviation -- as
    the DEFAULT component of the minimal SEQUENCE), and the model rule at the point of
    divergence is that string's own rule."""
    t, v, env = _live(f)
    if t is None or not f.get('rule', '').startswith(rules):
        return False
    top = resolve(t, env)
    if isinstance(top, Leaf):
        nodes = [(top, v)]
    elif isinstance(top, Seq) and isinstance(v, dict) and f['kind'] == 'decoder-deviates':
        nodes = [(resolve(m.t, env), v[m.name]) for m in all_members(top) if m.q == 'D' and m.name in v]
    else:
        return False
    return any(isinstance(n, Leaf) and n.kind in kinds and ref_oer.fixed_size(n.size) is not None
               and isinstance(x, str) for n, x in nodes)


def kf_c06_utf8string_fixed_size(f):
    """UTF8String with a fixed, non-extensible SIZE: written and read without a length
    determinant (SIZE counts characters; UTF8String is not a known-multiplier type)."""
    if f['kind'] not in ('both-deviate', 'encoder-deviates', 'decoder-deviates'):
        return False
    return _fixed_string_leaf(f, ('UTF8String',), ('length(UTF8String,fixed)', '-'))


def kf_c06_bmp_universal_fixed_size(f):
    """BMPString / UniversalString with a fixed, non-extensible SIZE: a length
    determinant is written and expected although these are known-multiplier types."""
    if f['kind'] not in ('both-deviate', 'encoder-deviates', 'decoder-deviates'):
        return False
    return _fixed_string_leaf(f, ('BMPString', 'UniversalString'),
                              ('str-km-fixed(BMPString)', 'str-km-fixed(UniversalString)', '-'))


def kf_c06_graphicstring_tag(f):
    """CHOICE with an untagged GraphicString alternative, the chosen alternative being
    that GraphicString (tag written as UNIVERSAL 27 instead of 25) or an untagged
    GeneralString alternative of the same CHOICE (tag 27 is then ambiguous)."""
    if f['kind'] not in ('both-deviate', 'encoder-deviates', 'decoder-deviates'):
        return False
    t, v, env = _live(f)
    if t is None:
        return False
    for node, val in _walk(t, v, env):
        if isinstance(node, Cho) and isinstance(val, tuple) and not _auto(node, f):
            kinds = {}
            for m in all_members(node):
                u = _untagged(m.t, env)
                if isinstance(u, Leaf):
                    kinds[m.name] = u.kind
            if 'GraphicString' in kinds.values() and kinds.get(val[0]) in ('GraphicString', 'GeneralString'):
                return True
    return False


def _none_tag_alternative(f, want):
    t, v, env = _live(f)
    if t is None:
        return False
    for node, val in _walk(t, v, env):
        if isinstance(node, Cho) and isinstance(val, tuple) and not _auto(node, f):
            for m in all_members(node):
                if m.name == val[0]:
                    u = _untagged(m.t, env)
                    if want(u):
                        return True
    return False


def kf_c06_choice_untagged_choice_alternative(f):
    """CHOICE whose chosen alternative is an untagged CHOICE: the alternative has no
    tag octets (None) in the implementation, encode raises TypeError and the
    model's octets are not decodable."""
    if f['kind'] not in ('encode-raised', 'both-deviate', 'decoder-deviates'):
        return False
    if 'TypeError' not in f['detail'] and 'AttributeError' not in f['detail'] and 'DecodeError' not in f['detail']:
        return False
    return _none_tag_alternative(f, lambda u: isinstance(u, Cho))


def kf_c06_choice_date_time_alternative(f):
    """CHOICE whose chosen alternative is an untagged DATE, TIME-OF-DAY or DATE-TIME:
    these types carry no universal tag (31/32/33) in the implementation (tag None)."""
    if f['kind'] not in ('encode-raised', 'both-deviate', 'decoder-deviates'):
        return False
    return _none_tag_alternative(f, lambda u: isinstance(u, Leaf) and u.kind in ('DATE', 'TIME-OF-DAY', 'DATE-TIME'))


def _in_cycle(name, env):
    seen, todo = set(), [env.get(name)]
    while todo:
        t = todo.pop()
        if t is None:
            continue
        from .terms import subterms
        for x in subterms(t):
            if isinstance(x, Ref):
                if x.name == name:
                    return True
                if x.name not in seen:
                    seen.add(x.name)
                    todo.append(env.get(x.name))
    return False


def kf_c06_choice_recursive_alternative(f):
    """CHOICE whose chosen alternative is an untagged reference to a type that is being
    defined recursively through this CHOICE: the compiler's Recursive placeholder has tag
    None, so encoding raises TypeError (the top-level type that closes the cycle works)."""
    if f['kind'] not in ('encode-raised', 'both-deviate', 'decoder-deviates'):
        return False
    t, v, env = _live(f)
    if t is None:
        return False
    for node, val in _walk(t, v, env):
        if isinstance(node, Cho) and isinstance(val, tuple) and not _auto(node, f):
            for m in all_members(node):
                if m.name == val[0] and isinstance(m.t, Ref) and _in_cycle(m.t.name, env):
                    return True
    return False


def kf_c06_set_order_tag_octets(f):
    """SET whose root components, sorted by the octets of their OER tag encodings (what
    the implementation does), are not in the X.680 8.6 canonical order: a tag number
    >= 16384 (three number octets) sorts before smaller multi-octet numbers."""
    if f['kind'] not in ('both-deviate', 'encoder-deviates', 'decoder-deviates'):
        return False
    t, v, env = _live(f)
    if t is None:
        return False
    C = ref_oer._Ctx(env, f.get('tags', 'EXPLICIT'), f.get('ext_implied', False), False)
    for node, val in _walk(t, v, env):
        if isinstance(node, Seq) and node.is_set:
            ms = all_members(node)
            tags = dict(zip((m.name for m in ms), ref_oer.member_tags(node, C)))
            root = [m for m in list(node.root) + list(node.root2)]
            if any(tags[m.name] is None for m in root):
                continue
            canon = sorted(root, key=lambda m: ref_oer._tagkey(tags[m.name]))
            byoct = sorted(root, key=lambda m: ref_oer.tag_octets(tags[m.name]))
            if [m.name for m in canon] != [m.name for m in byoct]:
                return True
    return False


def kf_c06_ext_implied_of_element(f):
    """EXTENSIBILITY IMPLIED module, SEQUENCE OF / SET OF whose element is an inline
    (not referenced) SEQUENCE or SET without its own extension marker, at least one
    element present: the compiler's pre_process_extensibility_implied_type does not
    descend into 'element', so the element type gets no extension bit."""
    if not f.get('ext_implied') or f['kind'] not in ('both-deviate', 'encoder-deviates', 'decoder-deviates'):
        return False
    t, v, env = _live(f)
    if t is None:
        return False

    def inline(x):
        while isinstance(x, Tag):
            x = x.inner
        return x

    stack = [(t, v, 0)]
    while stack:
        node, val, d = stack.pop()
        node = inline(node)
        if d > 30:
            continue
        if isinstance(node, Ref):
            stack.append((env[node.name], val, d + 1))
        elif isinstance(node, Of) and isinstance(val, list):
            e = inline(node.elem)
            if isinstance(e, Seq) and not e.ext and len(val) > 0:
                return True
            for x in val[:4]:
                stack.append((node.elem, x, d + 1))
        elif isinstance(node, Seq) and isinstance(val, dict):
            for m in all_members(node):
                if m.name in val:
                    stack.append((m.t, val[m.name], d + 1))
        elif isinstance(node, Cho) and isinstance(val, tuple) and len(val) == 2:
            for m in all_members(node):
                if m.name == val[0]:
                    stack.append((m.t, val[1], d + 1))
    return False
