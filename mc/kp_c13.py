"""Known-finding predicates for C13 (narrow structural tests over the shrunk case)."""

from .terms import Leaf, Seq, Cho, Of, Ref, Tag, all_members, enum_numbers
from .casefmt import parse_value


def _strip(t, env):
    n = 0
    while isinstance(t, (Ref, Tag)) and n < 50:
        t = env[t.name] if isinstance(t, Ref) else t.inner
        n += 1
    return t


def _is_enum_default_rewrite(m, e, o, env):
    """member m is `... ENUMERATED DEFAULT name`; e is that name and o its number."""
    if m is None or m.q != 'D':
        return False
    t = _strip(m.t, env)
    if not (isinstance(t, Leaf) and t.kind == 'ENUMERATED'):
        return False
    root, adds = enum_numbers(t)
    numbers = dict(root + (adds or []))
    return isinstance(e, str) and e == m.default and not isinstance(o, bool) and o == numbers.get(e)


def _locate(t, e, o, env, depth=0):
    """Leaf positions where two decoded values of type t differ: (member, e, o);
    member None = a difference that is not a changed leaf component of a SEQUENCE/SET."""
    t = _strip(t, env)
    if e == o and type(e) is type(o):
        return
    if depth > 20:
        yield (None, e, o)
    elif isinstance(t, Seq) and isinstance(e, dict) and isinstance(o, dict) and set(e) == set(o):
        for m in all_members(t):
            if m.name in e and (e[m.name] != o[m.name] or type(e[m.name]) is not type(o[m.name])):
                if isinstance(_strip(m.t, env), Leaf):
                    yield (m, e[m.name], o[m.name])
                else:
                    yield from _locate(m.t, e[m.name], o[m.name], env, depth + 1)
    elif (isinstance(t, Cho) and isinstance(e, tuple) and isinstance(o, tuple) and len(e) == 2 and len(o) == 2
          and e[0] == o[0]):
        ms = [m for m in all_members(t) if m.name == e[0]]
        if ms:
            yield from _locate(ms[0].t, e[1], o[1], env, depth + 1)
        else:
            yield (None, e, o)
    elif isinstance(t, Of) and isinstance(e, list) and isinstance(o, list) and len(e) == len(o):
        for x, y in zip(e, o):
            yield from _locate(t.elem, x, y, env, depth + 1)
    else:
        yield (None, e, o)


def _present_enum_defaults(t, v, env, depth=0):
    """DEFAULT ENUMERATED components that are present in v with exactly their default name."""
    t = _strip(t, env)
    if depth > 20:
        return
    if isinstance(t, Seq) and isinstance(v, dict):
        for m in all_members(t):
            if m.name in v:
                mt = _strip(m.t, env)
                if isinstance(mt, Leaf):
                    if m.q == 'D' and mt.kind == 'ENUMERATED' and v[m.name] == m.default:
                        yield m
                else:
                    yield from _present_enum_defaults(m.t, v[m.name], env, depth + 1)
    elif isinstance(t, Cho) and isinstance(v, tuple) and len(v) == 2:
        for m in all_members(t):
            if m.name == v[0]:
                yield from _present_enum_defaults(m.t, v[1], env, depth + 1)
    elif isinstance(t, Of) and isinstance(v, list):
        for x in v:
            yield from _present_enum_defaults(t.elem, x, env, depth + 1)


def c13_numeric_enum_default_rewritten(f):
    """Minimal history is exactly [compile_dict(numeric_enums=True), compile_dict(numeric_enums=False)] and the only
    observable difference is a SEQUENCE/SET component `ENUMERATED DEFAULT <name>`: decoding yields the name's number
    instead of the name, or a present component equal to the default is encoded instead of omitted."""
    if f.get('kind') != 'history-divergence':
        return False
    steps = f.get('steps') or []
    if len(steps) != 2 or any(s[0] != 'compile' for s in steps):
        return False
    if not (steps[0][2] is True and steps[1][2] is False):
        return False
    term, v, env = f.get('_term'), f.get('_value'), f.get('_env')
    d = f.get('diff') or {}
    if term is None or env is None:
        return False
    if d.get('field') == 'decode':
        if d['expected'].startswith('ERR') or d['observed'].startswith('ERR'):
            return False
        e, o = parse_value(d['expected']), parse_value(d['observed'])
        diffs = list(_locate(term, e, o, env))
        return bool(diffs) and all(_is_enum_default_rewrite(m, x, y, env) for m, x, y in diffs)
    if d.get('field') == 'encode':
        if not (d['expected'].startswith('hex:') and d['observed'].startswith('hex:')):
            return False
        return any(True for _ in _present_enum_defaults(term, v, env))
    return False
