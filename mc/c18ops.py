"""Operation alphabet of the C18 explorers: calls on a compiled specification,
scripts (short sequences of calls and mutations of returned / passed objects),
type-strict canonical observations, and the generation of valid, invalid and
truncated inputs from a type term.

A *call* is a picklable tuple:
    ('enc', type name, value, check_types, check_constraints)
    ('dec', type name, bytes, check_constraints)
    ('decl', type name, bytes)                       decode_with_length
A *script* is a picklable tuple:
    ('call', call)
    ('dec-mut-dec', call)          decode, scramble every mutable object of the result, decode again
    ('dec-hold-dec', call1, call2) decode, keep the result, decode something else; the first result is
                                   observed only *after* the second call (a result the caller holds must
                                   not change under later calls)
    ('enc-mut-enc', name, v1, v2, ct, cc)
                                   encode an object holding v1, morph that same object in place
                                   into v2, encode it again
Each call of a script has its own reference: the observation of that call made
alone on a freshly compiled specification.
"""

import re
import copy
import datetime

from . import budget
from . import graphhash
from .terms import Leaf, Seq, Cho, Of, Ref, Tag, all_members, resolve
from .values import dom

STEP_LIMIT = 400000
_ADDR = re.compile(r'0x[0-9a-fA-F]{6,}')


# ------------------------------------------------------------------------------------------------
# observations

def canon(v):
    """Type-strict canonical text of a value (dict keys sorted)."""
    tp = type(v)
    if tp is dict:
        return '{' + ','.join(sorted(canon(k) + ':' + canon(x) for k, x in v.items())) + '}'
    if tp is list:
        return '[' + ','.join(canon(x) for x in v) + ']'
    if tp is tuple:
        return '(' + ','.join(canon(x) for x in v) + ')'
    if tp is bytes:
        return 'b' + v.hex()
    if tp is bytearray:
        return 'ba' + bytes(v).hex()
    if tp is float:
        return 'f' + (v.hex() if v == v and v not in (float('inf'), float('-inf')) else repr(v))
    if tp is str:
        return 's' + repr(v)
    if tp in (int, bool, type(None)):
        return repr(v)
    if isinstance(v, dict):
        return tp.__name__ + '{' + ','.join(sorted(canon(k) + ':' + canon(x) for k, x in v.items())) + '}'
    if isinstance(v, (list, tuple)):
        return tp.__name__ + '[' + ','.join(canon(x) for x in v) + ']'
    if isinstance(v, (datetime.datetime, datetime.date, datetime.time)):
        return tp.__name__ + ':' + repr(v)
    return tp.__name__ + ':' + _ADDR.sub('0x?', repr(v))


def errobs(e):
    try:
        text = str(e)
    except Exception:
        text = '<str() failed>'
    return ('err', '%s.%s' % (type(e).__module__, type(e).__qualname__), _ADDR.sub('0x?', text))


def _invoke(spec, call):
    k = call[0]
    if k == 'enc':
        return spec.encode(call[1], call[2], check_types=call[3], check_constraints=call[4])
    if k == 'dec':
        return spec.decode(call[1], call[2], check_constraints=call[3])
    if k == 'decl':
        return spec.decode_with_length(call[1], call[2])
    raise ValueError(k)


def do_call(spec, call, limit=STEP_LIMIT):
    """Make one call.  Returns (observation, result object or None).
    limit=None: no step budget (used inside scheduled threads, where the point
    horizon bounds the execution instead)."""
    try:
        if limit is None:
            r = _invoke(spec, call)
        else:
            r, _ = budget.run(limit, _invoke, spec, call)
    except budget.BudgetExceeded:
        return ('budget',), None
    except Exception as e:
        return errobs(e), None
    return ('ok', canon(r)), r


def call_input(call):
    return call[2]


def call_key(call):
    return '|'.join([call[0], call[1], canon(call[2])] + [repr(x) for x in call[3:]])


def script_calls(script):
    """The calls a script makes, with the inputs as they are at call time (for references)."""
    k = script[0]
    if k == 'call':
        return [script[1]]
    if k == 'dec-mut-dec':
        return [script[1], script[1]]
    if k == 'dec-hold-dec':
        return [script[1], script[2]]
    if k == 'enc-mut-enc':
        _, name, v1, v2, ct, cc = script
        return [('enc', name, v1, ct, cc), ('enc', name, v2, ct, cc)]
    raise ValueError(k)


def script_key(script):
    return script[0] + ':' + '||'.join(call_key(c) for c in script_calls(script))


def scramble(o, _depth=0):
    """Mutate, in place, every mutable object reachable from a returned value."""
    if _depth > 50:
        return
    if isinstance(o, dict):
        for k in list(o):
            scramble(o[k], _depth + 1)
            o[k] = ('scrambled', k)
        o['zz-scrambled'] = 1
    elif isinstance(o, list):
        for x in o:
            scramble(x, _depth + 1)
        o.reverse()
        o.append('zz-scrambled')
    elif isinstance(o, bytearray):
        for i in range(len(o)):
            o[i] ^= 0xff
        o.extend(b'\xee')
    elif isinstance(o, tuple):
        for x in o:
            scramble(x, _depth + 1)


def morph(obj, target):
    """Turn container `obj` in place into a deep copy of `target` (same container type)."""
    t = copy.deepcopy(target)
    if isinstance(obj, dict):
        obj.clear()
        obj.update(t)
    elif isinstance(obj, list):
        del obj[:]
        obj.extend(t)
    else:
        raise TypeError(type(obj))


def shared_objects(result, spec):
    """Mutable objects of a returned value that are also part of the specification's object graph:
    [{'path': [...], 'type': type name, 'value': canonical text}]."""
    ids = None
    out = []
    stack = [((), result)]
    while stack:
        path, o = stack.pop()
        if isinstance(o, (dict, list, bytearray, set)):
            if ids is None:
                ids = graphhash.reachable_ids(spec)
            if id(o) in ids:
                out.append({'path': list(path), 'type': type(o).__name__, 'value': canon(o)[:200]})
        if isinstance(o, dict):
            stack.extend((path + (k,), x) for k, x in o.items())
        elif isinstance(o, (list, tuple)):
            stack.extend((path + (i,), x) for i, x in enumerate(o))
    return sorted(out, key=lambda a: repr(a['path']))


def run_script(spec, script, limit=STEP_LIMIT):
    """Apply a script to a specification object.  Returns (observations, inputs_ok, detail)
    where inputs_ok is False when a call modified the object passed to it; detail is a dict
    (or None) with what was modified and, for dec-mut-dec, which objects of the returned value
    are shared with the specification ('aliases')."""
    k = script[0]
    obs = []
    ok = True
    detail = None

    def guarded(call):
        nonlocal ok, detail
        inp = call[2]
        before = copy.deepcopy(inp)
        cb = canon(inp)
        o, r = do_call(spec, call, limit)
        if not (before == inp) or canon(inp) != cb:
            ok = False
            detail = dict(detail or {}, call=call_key(call)[:300], input_before=cb[:300],
                          input_after=canon(inp)[:300])
        obs.append(o)
        return r

    if k == 'call':
        guarded(script[1])
    elif k == 'dec-mut-dec':
        r = guarded(script[1])
        if r is not None:
            al = shared_objects(r, spec)
            if al:
                detail = dict(detail or {}, aliases=al)
            scramble(r)
        guarded(script[1])
    elif k == 'dec-hold-dec':
        r1 = guarded(script[1])
        guarded(script[2])
        if obs[0][0] == 'ok':
            obs[0] = ('ok', canon(r1))          # as the caller sees it now
    elif k == 'enc-mut-enc':
        _, name, v1, v2, ct, cc = script
        v = copy.deepcopy(v1)
        guarded(('enc', name, v, ct, cc))
        morph(v, v2)
        guarded(('enc', name, v, ct, cc))
    else:
        raise ValueError(k)
    return obs, ok, detail


# ------------------------------------------------------------------------------------------------
# inputs

BAD_STR = 'c18-bad'
BAD_INT = 424242


def _wrong(v):
    """A value of a type no ASN.1 type maps `v`'s position to."""
    return BAD_INT if isinstance(v, str) else BAD_STR


def positions(term, v, env, path=(), _depth=0):
    """Yield (path, structural term, sub-value) for every node of value v of type term."""
    t = resolve(term, env)
    yield path, t, v
    if _depth > 12:
        return
    if isinstance(t, Seq) and isinstance(v, dict):
        for m in all_members(t):
            if m.name in v:
                yield from positions(m.t, v[m.name], env, path + (m.name,), _depth + 1)
    elif isinstance(t, Cho) and isinstance(v, tuple) and len(v) == 2:
        for m in all_members(t):
            if m.name == v[0]:
                yield from positions(m.t, v[1], env, path + (1,), _depth + 1)
    elif isinstance(t, Of) and isinstance(v, list):
        for i, x in enumerate(v[:2]):
            yield from positions(t.elem, x, env, path + (i,), _depth + 1)


def replace_at(v, path, new):
    """Deep copy of v with the node at `path` replaced by `new` (DELETE removes a dict key)."""
    if not path:
        return new
    head, rest = path[0], path[1:]
    if isinstance(v, dict):
        out = dict(v)
        if not rest and new is DELETE:
            del out[head]
        else:
            out[head] = replace_at(v[head], rest, new)
        return out
    if isinstance(v, tuple):
        out = list(v)
        out[head] = replace_at(v[head], rest, new)
        return tuple(out)
    if isinstance(v, list):
        out = list(v)
        out[head] = replace_at(v[head], rest, new)
        return out
    raise TypeError(type(v))


DELETE = ('<delete>',)


def invalid_values(term, v, env):
    """[(label, value)]: ill-typed / unknown-name / incomplete / out-of-constraint variants of v."""
    out = []
    for path, t, sub in positions(term, v, env):
        d = len(path)
        out.append(('type@%d' % d, replace_at(v, path, _wrong(sub))))
        if isinstance(t, Cho) and isinstance(sub, tuple):
            out.append(('unknown-alt@%d' % d, replace_at(v, path, ('c18-nonexistent', sub[1]))))
        if isinstance(t, Leaf) and t.kind == 'ENUMERATED':
            out.append(('unknown-enum@%d' % d, replace_at(v, path, 'c18-nonexistent')))
        if isinstance(t, Seq) and isinstance(sub, dict):
            mand = [m.name for m in all_members(t) if m.q == 'M' and m.name in sub]
            if mand:
                out.append(('missing@%d' % d, replace_at(v, path + (mand[0],), DELETE)))
                if len(mand) > 1:
                    out.append(('missing-last@%d' % d, replace_at(v, path + (mand[-1],), DELETE)))
            out.append(('extra-key@%d' % d, replace_at(v, path, dict(sub, **{'c18-extra': 1}))))
    return out


def constraint_violations(term, v, env):
    """[(label, value)]: v with one component moved just outside its constraint."""
    out = []
    for path, t, sub in positions(term, v, env):
        d = len(path)
        if isinstance(t, Leaf):
            if t.kind == 'INTEGER' and t.rng is not None and isinstance(sub, int):
                if t.rng.hi() is not None:
                    out.append(('int>ub@%d' % d, replace_at(v, path, t.rng.hi() + 1)))
                if t.rng.lo() is not None:
                    out.append(('int<lb@%d' % d, replace_at(v, path, t.rng.lo() - 1)))
            elif t.size is not None and t.size.hi() is not None:
                n = t.size.hi() + 1
                if t.kind == 'OCTETSTRING':
                    out.append(('size>ub@%d' % d, replace_at(v, path, b'\x5a' * n)))
                elif t.kind == 'BITSTRING':
                    out.append(('size>ub@%d' % d, replace_at(v, path, (b'\xff' * ((n + 7) // 8), n))))
                elif t.is_string() and isinstance(sub, str):
                    ch = (t.alpha or 'a')[0] if t.kind != 'NumericString' or t.alpha else '1'
                    out.append(('size>ub@%d' % d, replace_at(v, path, ch * n)))
            if t.is_string() and t.alpha is not None and isinstance(sub, str) and len(sub) > 0:
                bad = [c for c in '~#z0' if c not in t.alpha]
                if bad:
                    out.append(('alphabet@%d' % d, replace_at(v, path, bad[0] + sub[1:])))
        elif isinstance(t, Of) and t.size is not None and t.size.hi() is not None and isinstance(sub, list):
            n = t.size.hi() + 1
            if n <= 300:
                ed = dom(t.elem, env, big=False)
                if ed:
                    out.append(('of>ub@%d' % d, replace_at(v, path, [ed[0]] * n)))
    return out


def pick(values, n):
    """At most n of `values`: the base, then an even spread that keeps the last one."""
    if len(values) <= n:
        return list(values)
    idx = sorted({round(i * (len(values) - 1) / (n - 1)) for i in range(n)})
    return [values[i] for i in idx]


def cut_points(n, full=12, spread=6):
    """Strict-prefix lengths of an n-byte encoding: all of them when n <= full, else a fixed spread."""
    if n <= full:
        return list(range(n))
    pts = {0, 1, 2, n - 1, n - 2, n // 2}
    pts |= {round(i * (n - 1) / (spread - 1)) for i in range(spread)}
    return sorted(p for p in pts if 0 <= p < n)


def _dedupe(items, key):
    seen = set()
    out = []
    for it in items:
        k = key(it)
        if k not in seen:
            seen.add(k)
            out.append(it)
    return out


def build_battery(types, env, fresh, codec, nvalues=6, has_decoder=True, decl=False):
    """The operation battery of one module for one codec.

    types: [(type name, term)] — every type of the module.
    fresh(): a freshly compiled specification (used here only to obtain the
    encodings that the decode operations take as input).
    Returns [(label, script)], simplest operations first."""
    simple, invalid, trunc, cross, compound = [], [], [], [], []
    encodings = {}                       # type name -> [bytes]
    valid = {}
    for name, term in types:
        d = dom(term, env, big=False)
        if not d:
            continue
        vals = [v for v in pick(d, nvalues * 3) if len(repr(v)) < 3000]
        vals = pick(vals, nvalues)
        valid[name] = vals
        encs = []
        for v in vals:
            simple.append(('enc', ('call', ('enc', name, v, True, False))))
            simple.append(('enc-cc', ('call', ('enc', name, v, True, True))))
            o, r = do_call(fresh(), ('enc', name, copy.deepcopy(v), True, False))
            if r is not None:
                encs.append(bytes(r))
        encodings[name] = _dedupe(encs, lambda b: b)
    for name, term in types:
        vals = valid.get(name, [])
        for v in vals[:max(2, nvalues // 2)]:
            for lab, bad in invalid_values(term, v, env):
                invalid.append(('enc-bad:' + lab, ('call', ('enc', name, bad, True, False))))
                invalid.append(('enc-bad-nocheck:' + lab, ('call', ('enc', name, bad, False, False))))
            for lab, bad in constraint_violations(term, v, env):
                invalid.append(('enc-constraint:' + lab, ('call', ('enc', name, bad, True, True))))
                invalid.append(('enc-constraint-nocheck:' + lab, ('call', ('enc', name, bad, True, False))))
                if has_decoder:
                    o, r = do_call(fresh(), ('enc', name, copy.deepcopy(bad), True, False))
                    if r is not None:
                        invalid.append(('dec-constraint:' + lab, ('call', ('dec', name, bytes(r), True))))
        if not has_decoder:
            continue
        for b in encodings.get(name, []):
            simple.append(('dec', ('call', ('dec', name, b, False))))
            simple.append(('dec-cc', ('call', ('dec', name, b, True))))
            if decl:
                simple.append(('decl', ('call', ('decl', name, b))))
                simple.append(('decl+tail', ('call', ('decl', name, b + b'\x00\x01'))))
            compound.append(('dec-mut-dec', ('dec-mut-dec', ('dec', name, b, False))))
        encs = encodings.get(name, [])
        for i in range(len(encs)):
            j = (i + 1) % len(encs)
            if i != j:
                compound.append(('dec-hold-dec', ('dec-hold-dec', ('dec', name, encs[i], False),
                                                  ('dec', name, encs[j], False))))
            for n in cut_points(len(b)):
                trunc.append(('dec-trunc', ('call', ('dec', name, b[:n], False))))
            trunc.append(('dec-tail', ('call', ('dec', name, b + b'\x00', False))))
        for other, encs in encodings.items():
            if other != name:
                for b in encs[:3]:
                    cross.append(('dec-foreign', ('call', ('dec', name, b, False))))
    for name, term in types:
        vals = [v for v in valid.get(name, []) if isinstance(v, (dict, list))]
        for i in range(len(vals) - 1):
            if type(vals[i]) is type(vals[i + 1]):
                compound.append(('enc-mut-enc', ('enc-mut-enc', name, vals[i], vals[i + 1], True, False)))
        if len(vals) > 1 and type(vals[-1]) is type(vals[0]):
            compound.append(('enc-mut-enc', ('enc-mut-enc', name, vals[-1], vals[0], True, True)))
    battery = simple + invalid + trunc + cross + compound
    return _dedupe(battery, lambda ls: script_key(ls[1]))
