"""Independent lexer for the ASN.1 notation (ITU-T X.680 clause 12, X.681 clause 7)
as far as the library's parser supports it.  It does NOT import asn1tools.

The lexer is the *model* of property C14: two texts have the same meaning for a
parser iff `tokens(a) == tokens(b)` (comments and white-space are not lexical
items that survive, X.680 12.1.2 / 12.6).  It yields tokens with offsets, so the
token boundaries — including the boundaries between the words of multi-word
keywords (OCTET STRING, BIT STRING, OBJECT IDENTIFIER, SEQUENCE OF, WITH
COMPONENTS, AUTOMATIC TAGS, EXTENSIBILITY IMPLIED, ...), which X.680 lists as
separate reserved words — are known.

Where X.680 is open to interpretation the lexer is *conservative*: it merges the
doubtful characters into one token, so that no layout is ever inserted there:

* `-` immediately followed by a digit is one (signed) number token;
* a run of `[` or of `]` is one token (`[[`/`]]` versus nested `[`..`]` in WITH SYNTAX);
* `@` followed by dots and a dotted component list is one token (X.682 at-notation);
* `&` immediately followed by a reference is one token (X.681 7.4-7.7);
* a number followed by `.` and not by `..` takes the `.`, a fraction and an exponent
  (realnumber, X.680 12.9); `1..2` is number, `..`, number;
* a run of 4 or more dots is one token; a number directly followed by three or more dots (`1...2`) is one
  token together with the dots and the digits after them;
* `ClassRef.&field` is NOT merged (X.681 14.1 has three lexical items there).

White-space: HT LF VT FF CR SPACE (X.680 12.1.6); new-line: LF VT FF CR.
Comments (12.6): `--` up to the next `--` or new-line / end of text; `/*` .. `*/`, nestable.
cstring (12.14): `"` .. `"` with `""` for a quotation mark, may span lines.
"""

from collections import namedtuple

Token = namedtuple('Token', 'kind text start end')
# kind: 'kw' reserved word, 'uref' upper-case reference, 'lref' lower-case identifier / reference,
# 'number', 'real', 'bstring', 'hstring', 'cstring', 'fieldref', 'at', 'sym' (punctuation incl.
# ::= .. ... [[ ]]), 'other' (anything that is not a lexical item of the notation)
Layout = namedtuple('Layout', 'kind text start end')
# kind: 'ws', 'line' (-- comment ended by new-line or end of text; the new-line is not part of it),
# 'dash' (-- .. --), 'block' (/* .. */)

WS = ' \t\n\v\f\r'
NEWLINE = '\n\v\f\r'
DIGITS = '0123456789'
UPPER = 'ABCDEFGHIJKLMNOPQRSTUVWXYZ'
LOWER = 'abcdefghijklmnopqrstuvwxyz'
ALNUM = UPPER + LOWER + DIGITS

RESERVED = frozenset('''
ABSENT ABSTRACT-SYNTAX ALL ANY APPLICATION AUTOMATIC BEGIN BIT BMPString BOOLEAN BY CHARACTER CHOICE
CLASS COMPONENT COMPONENTS CONSTRAINED CONTAINING DATE DATE-TIME DEFAULT DEFINED DEFINITIONS DESCENDANTS
DURATION EMBEDDED ENCODED ENCODING-CONTROL END ENUMERATED EXCEPT EXPLICIT EXPORTS EXTENSIBILITY EXTERNAL
FALSE FROM GeneralizedTime GeneralString GraphicString IA5String IDENTIFIER IMPLICIT IMPLIED IMPORTS
INCLUDES INSTANCE INSTRUCTIONS INTEGER INTERSECTION ISO646String MAX MIN MINUS-INFINITY NOT-A-NUMBER NULL
NumericString OBJECT ObjectDescriptor OCTET OF OID-IRI OPTIONAL PATTERN PDV PLUS-INFINITY PRESENT
PrintableString PRIVATE REAL RELATIVE-OID RELATIVE-OID-IRI SEQUENCE SET SETTINGS SIZE STRING SUCCESSORS
SYNTAX T61String TAGS TeletexString TIME TIME-OF-DAY TRUE TYPE-IDENTIFIER UNION UNIQUE UNIVERSAL
UniversalString UTCTime UTF8String VideotexString VisibleString WITH
'''.split())

# pairs of adjacent reserved words that form one "keyword" in the productions of X.680-X.683
KEYWORD_PAIRS = frozenset([
    ('OCTET', 'STRING'), ('BIT', 'STRING'), ('CHARACTER', 'STRING'), ('OBJECT', 'IDENTIFIER'),
    ('EMBEDDED', 'PDV'), ('INSTANCE', 'OF'), ('SEQUENCE', 'OF'), ('SET', 'OF'),
    ('WITH', 'COMPONENT'), ('WITH', 'COMPONENTS'), ('WITH', 'SYNTAX'), ('WITH', 'SUCCESSORS'),
    ('WITH', 'DESCENDANTS'), ('COMPONENTS', 'OF'), ('CONSTRAINED', 'BY'), ('ENCODED', 'BY'),
    ('ANY', 'DEFINED'), ('DEFINED', 'BY'), ('AUTOMATIC', 'TAGS'), ('EXPLICIT', 'TAGS'),
    ('IMPLICIT', 'TAGS'), ('EXTENSIBILITY', 'IMPLIED'), ('EXPORTS', 'ALL'), ('ALL', 'EXCEPT'),
])


class LexError(Exception):
    pass


def _word_end(s, i):
    """End of a word starting at s[i] (a letter): letters, digits, single hyphens, not ending in a hyphen
    (X.680 12.2.1, 12.3)."""
    n = len(s)
    j = i + 1
    while j < n:
        c = s[j]
        if c in ALNUM:
            j += 1
        elif c == '-' and j + 1 < n and s[j + 1] in ALNUM:
            j += 2
        else:
            break
    return j


def scan(s):
    """Return (tokens, layouts).  Raises LexError on an unterminated comment or string."""
    toks, lays = [], []
    n = len(s)
    i = 0
    while i < n:
        c = s[i]
        if c in WS:
            j = i + 1
            while j < n and s[j] in WS:
                j += 1
            lays.append(Layout('ws', s[i:j], i, j))
            i = j
        elif c == '-' and s.startswith('--', i):
            j = i + 2
            while True:
                if j >= n:
                    lays.append(Layout('line', s[i:j], i, j))
                    break
                if s[j] in NEWLINE:
                    lays.append(Layout('line', s[i:j], i, j))
                    break
                if s.startswith('--', j):
                    j += 2
                    lays.append(Layout('dash', s[i:j], i, j))
                    break
                j += 1
            i = j
        elif c == '/' and s.startswith('/*', i):
            depth = 1
            j = i + 2
            while depth:
                if j >= n:
                    raise LexError('unterminated /* comment at %d' % i)
                if s.startswith('/*', j):
                    depth += 1
                    j += 2
                elif s.startswith('*/', j):
                    depth -= 1
                    j += 2
                else:
                    j += 1
            lays.append(Layout('block', s[i:j], i, j))
            i = j
        elif c in UPPER:
            j = _word_end(s, i)
            w = s[i:j]
            toks.append(Token('kw' if w in RESERVED else 'uref', w, i, j))
            i = j
        elif c in LOWER:
            j = _word_end(s, i)
            toks.append(Token('lref', s[i:j], i, j))
            i = j
        elif c in DIGITS or (c == '-' and i + 1 < n and s[i + 1] in DIGITS):
            j = i + 1
            while j < n and s[j] in DIGITS:
                j += 1
            kind = 'number'
            if s.startswith('...', j):
                # `1...2`: "1." ".." "2" or "1" ".." ".2" or "1" "..." "2" - doubtful, one item
                while j < n and s[j] == '.':
                    j += 1
                while j < n and s[j] in DIGITS:
                    j += 1
                toks.append(Token('other', s[i:j], i, j))
                i = j
                continue
            if j < n and s[j] == '.' and not s.startswith('..', j):
                kind = 'real'
                j += 1
                while j < n and s[j] in DIGITS:
                    j += 1
            if j < n and s[j] in 'eE':
                k = j + 1
                if k < n and s[k] in '+-':
                    k += 1
                if k < n and s[k] in DIGITS:
                    while k < n and s[k] in DIGITS:
                        k += 1
                    j = k
                    kind = 'real'
            toks.append(Token(kind, s[i:j], i, j))
            i = j
        elif c == '"':
            j = i + 1
            while True:
                if j >= n:
                    raise LexError('unterminated cstring at %d' % i)
                if s[j] == '"':
                    if j + 1 < n and s[j + 1] == '"':
                        j += 2
                        continue
                    j += 1
                    break
                j += 1
            toks.append(Token('cstring', s[i:j], i, j))
            i = j
        elif c == "'":
            j = s.find("'", i + 1)
            if j < 0:
                raise LexError('unterminated quoted item at %d' % i)
            j += 1
            if j < n and s[j] in 'BH' and not (j + 1 < n and s[j + 1] in ALNUM):
                kind = 'bstring' if s[j] == 'B' else 'hstring'
                j += 1
            else:
                kind = 'other'
            toks.append(Token(kind, s[i:j], i, j))
            i = j
        elif c == '&' and i + 1 < n and s[i + 1] in UPPER + LOWER:
            j = _word_end(s, i + 1)
            toks.append(Token('fieldref', s[i:j], i, j))
            i = j
        elif c == '@':
            j = i + 1
            while j < n and s[j] == '.':
                j += 1
            while j < n and s[j] in UPPER + LOWER:
                j = _word_end(s, j)
                if j < n and s[j] == '.' and j + 1 < n and s[j + 1] in UPPER + LOWER:
                    j += 1
                else:
                    break
            toks.append(Token('at', s[i:j], i, j))
            i = j
        elif s.startswith('::=', i):
            toks.append(Token('sym', '::=', i, i + 3))
            i += 3
        elif c in '[].':
            j = i + 1
            while j < n and s[j] == c:
                j += 1
            toks.append(Token('sym' if (c != '.' or j - i <= 3) else 'other', s[i:j], i, j))
            i = j
        elif c in '{}<>,/()-:=;|!^*&+':
            toks.append(Token('sym', c, i, i + 1))
            i += 1
        else:
            # not a character of the notation: group with following such characters
            j = i + 1
            while j < n and not (s[j] in WS or s[j] in ALNUM or s[j] in '"\'&@[].{}<>,/()-:=;|!^*+'):
                j += 1
            toks.append(Token('other', s[i:j], i, j))
            i = j
    return toks, lays


def tokens(s):
    return scan(s)[0]


def token_texts(s):
    """The token sequence that a parser may depend on."""
    return [(t.kind, t.text) for t in scan(s)[0]]


def boundaries(toks, text_len):
    """Offsets at which layout may be inserted: immediately before each token (index g = 0..n-1
    is the gap between token g-1 and token g) and at the end of the text (g = n)."""
    return [t.start for t in toks] + [text_len]


def abstract(tok):
    """Token class used in boundary-context signatures: reserved words and symbols by text, the rest by kind."""
    if tok is None:
        return '^'
    if tok.kind in ('kw', 'sym'):
        return tok.text
    return '<' + tok.kind + '>'


def line_col(s, off):
    """1-based line and column of an offset; lines end at LF (what every tool reports)."""
    line = s.count('\n', 0, off) + 1
    col = off - (s.rfind('\n', 0, off) + 1) + 1
    return line, col


def offset_of(s, line, col):
    i = 0
    for _ in range(line - 1):
        i = s.index('\n', i) + 1
    return i + col - 1


def strip_comments(s):
    """The text with every comment removed; a removed comment leaves one space when the neighbouring
    tokens would otherwise touch."""
    toks, lays = scan(s)
    out = []
    pos = 0
    for l in lays:
        if l.kind == 'ws':
            continue
        out.append(s[pos:l.start])
        out.append(' ')
        pos = l.end
    out.append(s[pos:])
    return ''.join(out)
