"""Known-finding predicates for C07 over the *shrunk* failure case.

A C07 case is (new term, generation g, value, direction, codec): the older
version is strip(new term, g).  Predicates locate the construct that the older
version does not know (`unknown_sites`) and match only the exact shape that is
recorded as a finding.
"""

from .terms import Leaf, Seq, Cho, Of, Tag, all_members
from . import versions as V


def _case(f):
    new = f['_term']
    old = V.strip(new, f['gen'])
    return old, new, f['_value']


def unknown_sites(old, new, v, ctx='top', out=None):
    """[(what, context)]: what in 'item' (unknown ENUMERATED item), 'alt' (unknown
    CHOICE alternative), 'comp' (unknown SEQUENCE/SET component present in the
    value); context in 'top', 'member', 'element', 'alternative'."""
    out = [] if out is None else out
    old, new = V._bare(old), V._bare(new)
    if isinstance(old, Leaf):
        if old.kind == 'ENUMERATED':
            known = {n for n, _ in old.enum} | {n for n, _ in (old.enum_adds or ())}
            if v not in known:
                out.append(('item', ctx))
    elif isinstance(old, Seq) and isinstance(v, dict):
        newm = {m.name: m for m in all_members(new)}
        oldn = {m.name for m in all_members(old)}
        for k in v:
            if k not in oldn:
                out.append(('comp', ctx))
        for m in all_members(old):
            if m.name in v:
                unknown_sites(m.t, newm[m.name].t, v[m.name], 'member', out)
    elif isinstance(old, Cho) and isinstance(v, tuple):
        newm = {m.name: m for m in all_members(new)}
        hit = [m for m in all_members(old) if m.name == v[0]]
        if not hit:
            out.append(('alt', ctx))
        else:
            unknown_sites(hit[0].t, newm[v[0]].t, v[1], 'alternative', out)
    elif isinstance(old, Of) and isinstance(v, list):
        for x in v:
            unknown_sites(old.elem, new.elem, x, 'element', out)
    return out


def _sites(f):
    old, new, v = _case(f)
    return unknown_sites(old, new, v)


def xer_unknown_enum_item_as_list_element(f):
    """XER: an ENUMERATED item unknown to the older version, as an element of SEQUENCE OF / SET OF
    (Enumerated.decode_of ignores the extension marker), raises DecodeError."""
    if f['codec'] != 'xer' or f['kind'] != 'down-decode-raised' or f['direction'] != 'down':
        return False
    if 'DecodeError' not in f['detail'] or 'Expected enumeration value' not in f['detail']:
        return False
    s = _sites(f)
    return bool(s) and all(x == ('item', 'element') for x in s)


def xer_unknown_choice_alternative_as_list_element(f):
    """XER: a CHOICE alternative unknown to the older version, as an element of SEQUENCE OF / SET OF
    (Choice.decode_of ignores the extension marker), raises DecodeError."""
    if f['codec'] != 'xer' or f['kind'] != 'down-decode-raised' or f['direction'] != 'down':
        return False
    if 'DecodeError' not in f['detail'] or 'Expected choice' not in f['detail']:
        return False
    s = _sites(f)
    return bool(s) and all(x == ('alt', 'element') for x in s)


def _unknown_comp_values(old, new, v, out):
    old, new = V._bare(old), V._bare(new)
    if isinstance(old, Seq) and isinstance(v, dict):
        newm = {m.name: m for m in all_members(new)}
        oldn = {m.name for m in all_members(old)}
        for k, x in v.items():
            if k not in oldn:
                out.append(x)
        for m in all_members(old):
            if m.name in v:
                _unknown_comp_values(m.t, newm[m.name].t, v[m.name], out)
    elif isinstance(old, Cho) and isinstance(v, tuple):
        newm = {m.name: m for m in all_members(new)}
        for m in all_members(old):
            if m.name == v[0]:
                _unknown_comp_values(m.t, newm[v[0]].t, v[1], out)
    elif isinstance(old, Of) and isinstance(v, list):
        for x in v:
            _unknown_comp_values(old.elem, new.elem, x, out)
    return out


def _maxbytes(v):
    if isinstance(v, (bytes, bytearray)):
        return len(v)
    if isinstance(v, dict):
        return max([0] + [_maxbytes(x) for x in v.values()])
    if isinstance(v, (list, tuple)):
        return max([0] + [_maxbytes(x) for x in v])
    return 0


def per_unknown_addition_of_16k_octets(f):
    """PER/UPER: a SEQUENCE/SET extension addition unknown to the older version whose open-type
    encoding is >= 16384 octets (the encoder writes a single C1..C4 fragment header followed by all
    octets; the older decoder skips only the first fragment), so the components that follow are
    read from the middle of the addition."""
    if f['codec'] not in ('per', 'uper') or f['direction'] != 'down':
        return False
    if f['kind'] not in ('down-mismatch', 'down-decode-raised'):
        return False
    old, new, v = _case(f)
    s = unknown_sites(old, new, v)
    if not s or any(x[0] != 'comp' for x in s):
        return False
    vals = _unknown_comp_values(old, new, v, [])
    return any(_maxbytes(x) >= 16384 - 8 for x in vals)      # the open type (prefix + other members) exceeds 16384
