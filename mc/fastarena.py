"""Optional performance shim (see native/arena.c). Absent or failing -> no effect."""
import os
import ctypes

_done = False


def install():
    global _done
    if _done:
        return True
    so = os.path.join(os.path.dirname(os.path.dirname(os.path.abspath(__file__))), 'build', 'arena.so')
    if not os.path.exists(so):
        return False
    try:
        lib = ctypes.PyDLL(so)
        lib.verif_install_arena()
        _done = True
        return True
    except Exception:
        return False
