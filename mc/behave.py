"""Behaviour signatures of compiled specifications (shared by the C13 and C19
history explorers).

The signature of a Specification over a list of (type name, values) is, for
every type and every value: the verdict of the type checker, the verdict of the
constraints checker, the encoded bytes or the error (class + text), and the
decoded value of those bytes or the error.  Two specifications "behave exactly
alike" on the explored domain iff their signatures are equal.  Everything here
is deterministic; library calls that could spin run under the step budget.
"""

import re
import datetime

from . import budget
from .values import dom, to_numeric

C0, C1 = 30000, 4000
COMPILE_BUDGET = 3000000


def vcanon(v):
    """Canonical text of a python value in the library's representation (dict
    keys sorted; bytearray == bytes; everything else by repr)."""
    if isinstance(v, dict):
        return '{' + ', '.join('%r: %s' % (k, vcanon(v[k])) for k in sorted(v, key=repr)) + '}'
    if isinstance(v, list):
        return '[' + ', '.join(vcanon(x) for x in v) + ']'
    if isinstance(v, tuple):
        return '(' + ', '.join(vcanon(x) for x in v) + (',)' if len(v) == 1 else ')')
    if isinstance(v, bytearray):
        return repr(bytes(v))
    return repr(v)


def err(e):
    return 'ERR %s: %s' % (type(e).__name__, str(e)[:300])


def small_dom(term, env, n=8):
    """The first n-n//3 and the last n//3 values of the boundary domain (base
    value first); None when the term has no finite value at the unrolling depth."""
    d = dom(term, env, big=False)
    if not d:
        return []
    d = list(d)
    if len(d) <= n:
        return d
    h = n // 3
    return d[:n - h] + d[-h:]


def _sizeof(v):
    if isinstance(v, (bytes, bytearray, str)):
        return len(v)
    if isinstance(v, (list, tuple)):
        return 1 + sum(_sizeof(x) for x in v)
    if isinstance(v, dict):
        return 1 + sum(_sizeof(x) for x in v.values())
    return 1


def entry(ct, pv):
    """(check_types, check_constraints, encode, decode) observations of one value."""
    out = []
    for chk in (ct.check_types, ct.check_constraints):
        try:
            chk(pv)
            out.append('ok')
        except Exception as e:
            out.append(err(e))
    enc = None
    try:
        enc, _ = budget.run(C0 + C1 * 64 + 60 * _sizeof(pv), ct.encode, pv)
        enc = bytes(enc)
        out.append(enc)
    except budget.BudgetExceeded:
        out.append('ERR BudgetExceeded')
    except Exception as e:
        out.append(err(e))
    if enc is None:
        out.append(None)
    else:
        try:
            dec, _ = budget.run(C0 + C1 * (len(enc) + 1) + 60 * _sizeof(pv), ct.decode, enc)
            out.append(vcanon(dec))
        except budget.BudgetExceeded:
            out.append('ERR BudgetExceeded')
        except Exception as e:
            out.append(err(e))
    return tuple(out)


FIELDS = ('check_types', 'check_constraints', 'encode', 'decode')


def signature(spec, tops, numeric):
    """spec: a Specification or the exception compile raised.
    tops: [(type name, term, env, values)].  Returns a tuple with one item per
    type: ('missing',) or a tuple of entries."""
    if isinstance(spec, BaseException):
        return ('COMPILE ' + err(spec),)
    out = []
    for name, term, env, values in tops:
        try:
            ct = spec.types[name]
        except KeyError:
            out.append(('missing',))
            continue
        es = []
        for v in values:
            pv = to_numeric(term, v, env) if numeric else v
            es.append(entry(ct, pv))
        out.append(tuple(es))
    return tuple(out)


def is_compile_error(sig):
    return len(sig) == 1 and isinstance(sig[0], str)


def first_diff(sa, sb, tops):
    """First position where two signatures differ:
    None | dict(type, index, field, expected, observed)."""
    if sa == sb:
        return None
    if is_compile_error(sa) or is_compile_error(sb):
        return {'type': None, 'index': None, 'field': 'compile',
                'expected': _txt(sa[0] if is_compile_error(sa) else 'compiled'),
                'observed': _txt(sb[0] if is_compile_error(sb) else 'compiled')}
    for ti, (ta, tb) in enumerate(zip(sa, sb)):
        if ta == tb:
            continue
        if ta == ('missing',) or tb == ('missing',):
            return {'type': tops[ti][0], 'index': None, 'field': 'types', 'expected': _txt(ta)[:80],
                    'observed': _txt(tb)[:80]}
        for vi, (ea, eb) in enumerate(zip(ta, tb)):
            if ea == eb:
                continue
            for fi, (xa, xb) in enumerate(zip(ea, eb)):
                if xa != xb:
                    return {'type': tops[ti][0], 'index': vi, 'field': FIELDS[fi],
                            'expected': _txt(xa), 'observed': _txt(xb)}
    return {'type': None, 'index': None, 'field': '?', 'expected': '', 'observed': ''}


def pick_diff(sa, sb, tops):
    """A representative difference: a pair of differing decoded *values* when there
    is one (it can be localised), else the first difference."""
    for ti, vi, fld, xa, xb in all_diffs(sa, sb, tops):
        if fld == 'decode' and not xa.startswith('ERR') and not xb.startswith('ERR') and 'None' not in (xa, xb):
            return {'type': tops[ti][0], 'index': vi, 'field': fld, 'expected': xa, 'observed': xb}
    return first_diff(sa, sb, tops)


def all_diffs(sa, sb, tops, limit=50):
    """Every (type index, value index, field) that differs (bounded)."""
    out = []
    if is_compile_error(sa) or is_compile_error(sb):
        return out
    for ti, (ta, tb) in enumerate(zip(sa, sb)):
        if ta == tb or ta == ('missing',) or tb == ('missing',):
            continue
        for vi, (ea, eb) in enumerate(zip(ta, tb)):
            for fi, (xa, xb) in enumerate(zip(ea, eb)):
                if xa != xb:
                    out.append((ti, vi, FIELDS[fi], _txt(xa), _txt(xb)))
                    if len(out) >= limit:
                        return out
    return out


def _txt(x):
    if isinstance(x, bytes):
        return 'hex:' + x.hex()
    return str(x)


_num = re.compile(r'-?\d+')


def diffclass(d):
    """Coarse class of a difference, for grouping raw failures by root cause."""
    def cls(s):
        s = str(s)
        if s.startswith('ERR '):
            s = re.sub(r"'[^']*'", "'_'", s)
            return _num.sub('N', s)[:60]
        if s.startswith('hex:'):
            return 'bytes'
        return 'value' if s not in ('ok', 'None') else s
    return '%s:%s->%s' % (d['field'], cls(d['expected']), cls(d['observed']))
