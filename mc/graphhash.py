"""Structural hash of an object graph (state identifier for the history and
schedule explorers).

A generic walk: instances through ``__dict__`` / ``__slots__``, dict / list /
tuple / set / frozenset element-wise, bytes / bytearray / str / numbers by
value, functions and classes by qualified name.  No attribute name of the
library is assumed.  Mutable containers and instances are numbered in visiting
order and a second visit emits the number, so cycles terminate and aliasing is
part of the hash (two members sharing one compiled object hash differently from
two equal copies).

The hash is an *identifier* of a state, not an oracle: a changed hash only
means "this is a state that has not been explored yet".
"""

import sys
import types
import pickle
import hashlib

_SCALARS = (int, float, complex, str, bytes, bool, type(None), type(Ellipsis), type(NotImplemented))
_SCALARSET = frozenset(_SCALARS)
_CODE_LIKE = (types.FunctionType, types.BuiltinFunctionType, types.MethodDescriptorType,
              types.WrapperDescriptorType, types.MethodWrapperType, types.GetSetDescriptorType,
              types.MemberDescriptorType, types.ClassMethodDescriptorType, staticmethod, classmethod, property)


def _tname(tp):
    return '%s.%s' % (getattr(tp, '__module__', '?'), getattr(tp, '__qualname__', getattr(tp, '__name__', '?')))


_big = {}       # id -> (object, shallow copy, token) for big all-scalar containers (module constants)


def _scalar_container_token(o, tp):
    n = len(o)
    if n <= 256:
        return '%s%d:%r' % (_tname(tp), n, o)
    ent = _big.get(id(o))
    if ent is not None and ent[0] is o and len(ent[1]) == n and ent[1] == o:
        return ent[2]
    tok = '%s%d:#%s' % (_tname(tp), n, hashlib.blake2b(repr(o).encode('utf-8', 'surrogatepass'),
                                                        digest_size=12).hexdigest())
    _big[id(o)] = (o, tp(o), tok)
    return tok


def tokens(roots):
    """Yield the token stream of the walk over `roots` (a list of objects)."""
    seen = {}
    keep = []                       # keeps temporaries alive so that ids stay unique during the walk
    stack = [('o', r) for r in reversed(list(roots))]
    while stack:
        kind, o = stack.pop()
        if kind == 't':
            yield o
            continue
        tp = type(o)
        if tp in _SCALARS:
            if tp is float:
                yield 'f:' + o.hex() if o == o and o not in (float('inf'), float('-inf')) else 'f:' + repr(o)
            elif tp is str:
                yield 's%d:%s' % (len(o), o) if len(o) <= 256 else _scalar_container_token(o, tp)
            elif tp is bytes:
                yield 'b%d:%s' % (len(o), o.hex())
            else:
                yield '%s:%r' % (tp.__name__, o)
            continue
        if isinstance(o, type):
            yield 'class:' + _tname(o)
            continue
        if isinstance(o, types.ModuleType):
            yield 'module:' + o.__name__
            continue
        oid = id(o)
        if oid in seen:
            yield '@%d' % seen[oid]
            continue
        seen[oid] = len(seen)
        keep.append(o)
        if isinstance(o, _CODE_LIKE):
            yield 'fn:%s.%s' % (getattr(o, '__module__', '?'), getattr(o, '__qualname__', repr(type(o))))
            ci = getattr(o, 'cache_info', None)
            clo = getattr(o, '__closure__', None)
            if clo:
                items = []
                for c in clo:
                    try:
                        items.append(('o', c.cell_contents))
                    except ValueError:
                        items.append(('t', '<empty cell>'))
                stack.extend(reversed(items))
            continue
        if isinstance(o, types.MethodType):
            yield 'method:' + getattr(o.__func__, '__qualname__', '?')
            stack.append(('o', o.__self__))
            continue
        ci = getattr(o, 'cache_info', None)
        if ci is not None and callable(ci):
            # functools.lru_cache wrapper: its fill level is state
            try:
                yield 'lru:%s:%r' % (getattr(o, '__qualname__', '?'), tuple(ci()))
            except Exception:
                yield 'lru:?'
            continue
        if isinstance(o, bytearray):
            yield 'ba%d:%s' % (len(o), bytes(o).hex())
            continue
        if len(_big) and id(o) in _big:
            ent = _big[id(o)]
            if ent[0] is o and len(ent[1]) == len(o) and ent[1] == o:
                yield ent[2]
                continue
        if isinstance(o, (list, tuple)):
            if len(o) > 8 and _SCALARSET.issuperset(map(type, o)):
                yield _scalar_container_token(o, tp)     # all scalars: repr is type-strict and fast
                continue
            yield '%s[%d' % (_tname(tp), len(o))
            stack.append(('t', ']'))
            stack.extend(('o', x) for x in reversed(o))
            if hasattr(o, '__dict__') and o.__dict__:
                stack.append(('o', o.__dict__))
            continue
        if isinstance(o, dict):
            if len(o) > 8 and tp is dict and _SCALARSET.issuperset(map(type, o)) \
                    and _SCALARSET.issuperset(map(type, o.values())):
                yield _scalar_container_token(o, tp)
                continue
            yield '%s{%d' % (_tname(tp), len(o))
            stack.append(('t', '}'))
            items = []
            for k, v in o.items():        # insertion order is part of the state
                items.append(('o', k))
                items.append(('o', v))
            stack.extend(reversed(items))
            if tp is not dict and hasattr(o, '__dict__') and o.__dict__:
                stack.append(('o', o.__dict__))
            continue
        if isinstance(o, (set, frozenset)):
            # order-free: hash every element on its own and sort the digests
            subs = sorted(digest([x]) for x in o)
            yield '%s<%d:%s>' % (_tname(tp), len(o), ','.join(subs))
            continue
        # a general instance
        yield 'obj:' + _tname(tp)
        items = []
        d = getattr(o, '__dict__', None)
        if isinstance(d, dict):
            items.append(('t', 'dict%d' % len(d)))
            for k, v in d.items():
                items.append(('o', k))
                items.append(('o', v))
        slots = []
        for klass in tp.__mro__:
            sl = klass.__dict__.get('__slots__', ())
            if isinstance(sl, str):
                sl = (sl,)
            slots.extend(s for s in sl if s not in ('__dict__', '__weakref__'))
        for s in slots:
            items.append(('t', 'slot:' + s))
            try:
                items.append(('o', getattr(o, s)))
            except AttributeError:
                items.append(('t', '<unset>'))
        if d is None and not slots:
            # an opaque extension object: its repr, unless that embeds an address
            try:
                r = repr(o)
            except Exception:
                r = '?'
            if ' at 0x' in r:
                r = '<opaque>'
            items.append(('t', 'repr:' + r))
        items.append(('t', 'end'))
        stack.extend(reversed(items))


def digest(roots):
    h = hashlib.blake2b(digest_size=12)
    for tok in tokens(roots):
        h.update(tok.encode('utf-8', 'surrogatepass'))
        h.update(b'\x00')
    return h.hexdigest()


def graph_hash(obj):
    """Hash of the object graph reachable from `obj`.

    Fast path: the C pickler is exactly the generic walk described above
    (instances through __dict__ / __getstate__, containers element-wise,
    scalars by value, every object memoised in visiting order so that cycles
    terminate and aliasing shows) and costs a tenth of the Python walk.  Anything
    it cannot serialise (a lambda, a lock, an extension object) falls back to the
    Python walk; the two families of hashes carry different prefixes, so a graph
    that stops being picklable is a new state, as it should be."""
    try:
        blob = pickle.dumps(obj, protocol=4)
    except Exception:
        return 'w' + digest([obj])
    return 'p' + hashlib.blake2b(blob, digest_size=12).hexdigest()


STATE_MODULES = ('asn1tools', 'asn1tools.compiler', 'asn1tools.errors', 'asn1tools.compat', 'asn1tools.codecs')


def _is_code(v):
    return isinstance(v, (types.ModuleType, type) + _CODE_LIKE)


def _function_state(key, fn):
    """State a function object can carry: mutable default arguments and function attributes."""
    fn = getattr(fn, '__func__', fn)
    if not isinstance(fn, types.FunctionType):
        return
    d = fn.__defaults__
    if d and not _SCALARSET.issuperset(map(type, d)):
        yield key + '.__defaults__', fn, '__defaults__', d
    kd = fn.__kwdefaults__
    if kd and not _SCALARSET.issuperset(map(type, kd.values())):
        yield key + '.__kwdefaults__', fn, '__kwdefaults__', kd
    if fn.__dict__:
        yield key + '.__dict__', fn, '__dict__', fn.__dict__


def module_state_items(modules=STATE_MODULES):
    """The module-level and class-level data of the loaded modules named in
    `modules` (a name with a dot also selects its sub-modules): every module
    global and every class attribute that is not a module, a class, a function or
    a descriptor (those are code, not state), plus what functions and methods can
    carry along: non-scalar default arguments and function attributes.  Yields
    (key, owner, attribute name, value) in sorted order; key = 'module:global' or
    'module:Class.attr'."""
    for name in sorted(sys.modules):
        if not any(name == m or (m.count('.') >= 1 and name.startswith(m + '.')) for m in modules):
            continue
        mod = sys.modules[name]
        if mod is None:
            continue
        for k in sorted(vars(mod)):
            if k.startswith('__') and k.endswith('__'):
                continue
            v = vars(mod)[k]
            if isinstance(v, type):
                if getattr(v, '__module__', None) == name:
                    for ck in sorted(vars(v)):
                        cv = vars(v)[ck]
                        if isinstance(cv, (types.FunctionType, staticmethod, classmethod)):
                            yield from _function_state('%s:%s.%s' % (name, k, ck), cv)
                            continue
                        if ck.startswith('__') and ck.endswith('__'):
                            continue
                        if not _is_code(cv):
                            yield '%s:%s.%s' % (name, k, ck), v, ck, cv
                continue
            if isinstance(v, types.FunctionType):
                if getattr(v, '__module__', None) == name:
                    yield from _function_state('%s:%s' % (name, k), v)
                continue
            if _is_code(v):
                continue
            yield '%s:%s' % (name, k), mod, k, v


def module_state_roots(modules=STATE_MODULES):
    return [(key, value) for key, _, _, value in module_state_items(modules)]


def module_hash(modules=STATE_MODULES):
    return digest([module_state_roots(modules)])


class ModuleSnapshot:
    """The module-level state at the time of construction, and a way back to it.

    restore() re-binds every module global / class attribute whose own digest
    differs from the recorded one to a deep copy of the recorded value, removes
    attributes that did not exist, and then verifies the hash of the whole
    (aliasing-sensitive) state.  It returns False when the state cannot be
    re-established that way."""

    def __init__(self, modules=STATE_MODULES):
        import copy
        self.modules = modules
        self.items = {}
        for key, owner, attr, value in module_state_items(modules):
            d = digest([value])
            ent = _big.get(id(value))
            if ent is not None and ent[0] is value:
                cp = ent[1]                       # all-scalar container: the shallow copy is a full copy
            else:
                try:
                    cp = copy.deepcopy(value)
                except Exception:
                    cp = _NOCOPY
            self.items[key] = (d, cp)
        self.hash = module_hash(modules)

    def moved(self):
        return module_hash(self.modules) != self.hash

    def restore(self):
        import copy
        if not self.moved():
            return True
        present = set()
        for key, owner, attr, value in list(module_state_items(self.modules)):
            present.add(key)
            ent = self.items.get(key)
            if ent is None:
                try:
                    if attr == '__dict__':
                        owner.__dict__.clear()
                    elif attr in ('__defaults__', '__kwdefaults__'):
                        return False
                    else:
                        delattr(owner, attr)
                except Exception:
                    return False
                continue
            if digest([value]) != ent[0]:
                if ent[1] is _NOCOPY:
                    return False
                setattr(owner, attr, copy.deepcopy(ent[1]) if not isinstance(ent[1], str) else ent[1])
        # attributes that were deleted cannot be told from code removal; the final hash decides
        return module_hash(self.modules) == self.hash


_NOCOPY = ('<no copy>',)


def reachable_ids(root):
    """ids of every mutable container / instance reachable from root (same generic walk)."""
    seen = set()
    stack = [root]
    while stack:
        o = stack.pop()
        tp = type(o)
        if tp in _SCALARSET or isinstance(o, (type, types.ModuleType) + _CODE_LIKE):
            continue
        if id(o) in seen:
            continue
        seen.add(id(o))
        if isinstance(o, (list, tuple, set, frozenset)):
            stack.extend(o)
        elif isinstance(o, dict):
            stack.extend(o.keys())
            stack.extend(o.values())
        elif isinstance(o, types.MethodType):
            stack.append(o.__self__)
        else:
            d = getattr(o, '__dict__', None)
            if isinstance(d, dict):
                stack.extend(d.values())
            for klass in tp.__mro__:
                sl = klass.__dict__.get('__slots__', ())
                if isinstance(sl, str):
                    sl = (sl,)
                for a in sl:
                    try:
                        stack.append(getattr(o, a))
                    except AttributeError:
                        pass
    return seen


def count_nodes(obj):
    n = 0
    for _ in tokens([obj]):
        n += 1
    return n
